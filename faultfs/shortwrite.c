/* LD_PRELOAD shim: caps every write()/pwrite64() to VERIF_SHORT_WRITE bytes (a legal short write).
 * Only perturbs; the strace log of the same run is the authority for what happened. */
#define _GNU_SOURCE
#include <dlfcn.h>
#include <stdlib.h>
#include <unistd.h>
#include <sys/types.h>
static size_t cap(void) { const char *s = getenv("VERIF_SHORT_WRITE"); return s ? (size_t)atol(s) : 0; }
ssize_t write(int fd, const void *buf, size_t n) {
  static ssize_t (*real)(int, const void *, size_t);
  if (!real) real = dlsym(RTLD_NEXT, "write");
  size_t c = cap();
  if (c && fd > 2 && n > c) n = c;
  return real(fd, buf, n);
}
ssize_t pwrite64(int fd, const void *buf, size_t n, off64_t off) {
  static ssize_t (*real)(int, const void *, size_t, off64_t);
  if (!real) real = dlsym(RTLD_NEXT, "pwrite64");
  size_t c = cap();
  if (c && fd > 2 && n > c) n = c;
  return real(fd, buf, n, off);
}
