//! C08 (parallel loading under a controlled scheduler): `PatchChain::from_archives_parallel` and
//! `PatchChain::add_archives_parallel` are compiled against the loom-backed rayon stand-in; every
//! interleaving of the per-archive load tasks (claim / start / finish, up to the preemption bound) is
//! executed on the real code.  After each schedule every pool name is looked up through the chain
//! (read_file, contains_file, find_file_archive, list, archive_count, get_priority); the rendering
//! must be the same for all schedules and equal the model: highest priority wins, earliest added
//! (already-present archives first, then list order) wins ties.
use refimpl::mpqref::{self, WFile, WOptions};
use serde_json::{json, Value};
use std::collections::{BTreeMap, BTreeSet};
use std::path::PathBuf;
use std::sync::{Arc, Mutex};
use vcore::*;
use wow_mpq::PatchChain;

const NAMES: [&str; 5] = ["common.txt", "s13.txt", "only0.txt", "only2.txt", "never\\there.txt"];
const BAD: usize = 4; // a path that does not exist
const GARBAGE: usize = 5; // a file that is not an archive

fn holders(name: &str) -> Vec<usize> {
    match name {
        "common.txt" => vec![0, 1, 2, 3],
        "s13.txt" => vec![1, 3],
        "only0.txt" => vec![0],
        "only2.txt" => vec![2],
        _ => vec![],
    }
}
fn content(a: usize, name: &str) -> Vec<u8> {
    format!("{name}@a{a} {}", "x".repeat(a * 7 + 3)).into_bytes()
}

#[derive(Clone, Copy, Debug, PartialEq, Eq)]
enum Entry {
    From,
    AddOnto(i32), // chain already holds a0 at this priority
    AddOntoTwo,   // chain already holds a0@7 and a2@0
}

#[derive(Clone)]
struct Case {
    entry: Entry,
    list: Vec<(usize, i32)>,
    workers: usize,
}

struct Main {
    dir: Scratch,
    paths: Vec<PathBuf>,
    cases: Vec<Case>,
    bound: usize,
}

fn lists(pool: &[usize], maxlen: usize, prios: &[i32]) -> Vec<Vec<(usize, i32)>> {
    // every ordered selection without repetition of length 1..=maxlen, every priority assignment
    fn rec(pool: &[usize], prios: &[i32], used: &mut Vec<bool>, cur: &mut Vec<(usize, i32)>, maxlen: usize, out: &mut Vec<Vec<(usize, i32)>>) {
        if !cur.is_empty() {
            out.push(cur.clone());
        }
        if cur.len() == maxlen {
            return;
        }
        for i in 0..pool.len() {
            if used[i] {
                continue;
            }
            used[i] = true;
            for &p in prios {
                cur.push((pool[i], p));
                rec(pool, prios, used, cur, maxlen, out);
                cur.pop();
            }
            used[i] = false;
        }
    }
    let mut out = vec![];
    rec(pool, prios, &mut vec![false; pool.len()], &mut vec![], maxlen, &mut out);
    out
}

impl Main {
    fn new(tier: Tier) -> Main {
        let dir = Scratch::new("c08p");
        let mut paths = vec![];
        for a in 0..4usize {
            let files: Vec<WFile> = NAMES.iter().filter(|n| holders(n).contains(&a)).map(|n| WFile::plain(n, &content(a, n))).collect();
            let p = dir.path(&format!("a{a}.mpq"));
            std::fs::write(&p, mpqref::write(&files, &WOptions::default()).unwrap()).unwrap();
            paths.push(p);
        }
        paths.push(dir.path("does-not-exist.mpq"));
        let g = dir.path("garbage.mpq");
        std::fs::write(&g, vec![0x5Au8; 600]).unwrap();
        paths.push(g);
        let mut cases = vec![];
        let quick = tier == Tier::Quick;
        let ws: Vec<usize> = if quick { vec![2, 3] } else { vec![2, 3, 4] };
        let entries = [Entry::From, Entry::AddOnto(0), Entry::AddOnto(7), Entry::AddOntoTwo];
        for entry in entries {
            let pool: Vec<usize> = match entry {
                Entry::AddOntoTwo => vec![1, 3, BAD],
                _ => vec![1, 2, 3, BAD, GARBAGE],
            };
            let prios: Vec<i32> = if quick { vec![0, 7] } else { vec![-5, 0, 7] };
            let maxlen = if quick { 3 } else { 4 };
            for l in lists(&pool, maxlen, &prios) {
                // thorough, length 4: two priorities only (keeps the product within the hour)
                if l.len() == 4 && l.iter().any(|x| x.1 == -5) {
                    continue;
                }
                for &w in &ws {
                    if w > l.len() && w > 2 {
                        continue; // the stand-in never starts more workers than items
                    }
                    cases.push(Case { entry, list: l.clone(), workers: w });
                }
            }
        }
        Main { dir, paths, cases, bound: tier.pick(2, 3) }
    }
}

/// model entries in chain order: (archive, priority, insertion rank)
fn model(entry: Entry, list: &[(usize, i32)]) -> Vec<(usize, i32, usize)> {
    let mut m: Vec<(usize, i32, usize)> = match entry {
        Entry::From => vec![],
        Entry::AddOnto(p) => vec![(0, p, 0)],
        Entry::AddOntoTwo => vec![(0, 7, 0), (2, 0, 1)],
    };
    let base = m.len();
    for (k, (a, p)) in list.iter().enumerate() {
        m.push((*a, *p, base + k));
    }
    m
}
fn winner_exact(m: &[(usize, i32, usize)], name: &str) -> Option<usize> {
    let hs = holders(name);
    m.iter().filter(|e| hs.contains(&e.0)).max_by(|a, b| a.1.cmp(&b.1).then(b.2.cmp(&a.2))).map(|e| e.0)
}

/// what the chain answers, rendered as text (so that outcomes over schedules can be compared)
fn observe(chain: &mut PatchChain, paths: &[PathBuf]) -> BTreeMap<String, String> {
    let mut o = BTreeMap::new();
    o.insert("count".into(), chain.archive_count().to_string());
    for (a, p) in paths.iter().enumerate() {
        o.insert(format!("prio:a{a}"), format!("{:?}", chain.get_priority(p)));
    }
    for n in NAMES {
        let rd = match chain.read_file(n) {
            Ok(b) => format!("Ok({})", String::from_utf8_lossy(&b)),
            Err(_) => "Err".into(),
        };
        o.insert(format!("read:{n}"), rd);
        o.insert(format!("has:{n}"), chain.contains_file(n).to_string());
        let fa = chain.find_file_archive(n).map(|p| paths.iter().position(|q| *q == p).map(|a| format!("a{a}")).unwrap_or_else(|| p.display().to_string()));
        o.insert(format!("where:{n}"), format!("{fa:?}"));
    }
    let l = match chain.list() {
        Ok(l) => {
            let s: BTreeSet<String> = l.iter().map(|e| e.name.to_ascii_lowercase().replace('/', "\\")).filter(|n| !n.starts_with('(')).collect();
            format!("{s:?}")
        }
        Err(_) => "Err".into(),
    };
    o.insert("list".into(), l);
    o
}

fn judge(obs: &BTreeMap<String, String>, m: &[(usize, i32, usize)], exact_membership: bool, ctx: &str, add: &mut dyn FnMut(&str, String)) {
    // membership: exact (successful load of openable archives) or as the chain itself reports it
    let members: Vec<(usize, i32, usize)> = if exact_membership {
        if obs["count"] != m.len().to_string() {
            add("archive_count after parallel loading differs from the model", format!("{ctx}: {} vs {}", obs["count"], m.len()));
        }
        for e in m {
            if obs[&format!("prio:a{}", e.0)] != format!("Some({})", e.1) {
                add("get_priority after parallel loading differs from the model", format!("{ctx}: a{} {}", e.0, obs[&format!("prio:a{}", e.0)]));
            }
        }
        m.to_vec()
    } else {
        // ties between reported members are then accepted either way
        (0..4).filter_map(|a| obs[&format!("prio:a{a}")].strip_prefix("Some(").and_then(|s| s.strip_suffix(')')).and_then(|s| s.parse::<i32>().ok()).map(|p| (a, p, 0))).collect()
    };
    for n in NAMES {
        let hs = holders(n);
        let cands: Vec<&(usize, i32, usize)> = members.iter().filter(|e| hs.contains(&e.0)).collect();
        let acceptable: Vec<usize> = if exact_membership {
            winner_exact(&members, n).into_iter().collect()
        } else {
            let top = cands.iter().map(|e| e.1).max();
            cands.iter().filter(|e| Some(e.1) == top).map(|e| e.0).collect()
        };
        let rd = &obs[&format!("read:{n}")];
        if acceptable.is_empty() {
            if rd != "Err" {
                add("a name held by no archive in the chain is readable after parallel loading", format!("{ctx}: {n}: {rd}"));
            }
            if obs[&format!("has:{n}")] != "false" {
                add("contains_file reports a name no archive in the chain holds (parallel loading)", format!("{ctx}: {n}"));
            }
        } else {
            let ok = acceptable.iter().any(|a| *rd == format!("Ok({})", String::from_utf8_lossy(&content(*a, n))));
            if !ok {
                add("after parallel loading read_file returns another version than the highest-priority, earliest-added holder", format!("{ctx}: {n}: got {rd}, acceptable winners {acceptable:?}"));
            }
            if obs[&format!("has:{n}")] != "true" {
                add("contains_file misses a held name after parallel loading", format!("{ctx}: {n}"));
            }
            let wh = &obs[&format!("where:{n}")];
            if !acceptable.iter().any(|a| *wh == format!("Some(\"a{a}\")")) {
                add("after parallel loading find_file_archive names another archive than the winner", format!("{ctx}: {n}: {wh}, acceptable {acceptable:?}"));
            }
        }
    }
    let want: BTreeSet<String> = NAMES.iter().filter(|n| members.iter().any(|e| holders(n).contains(&e.0))).map(|n| n.to_string()).collect();
    if obs["list"] != format!("{want:?}") {
        add("list() after parallel loading is not the union of the member archives' names", format!("{ctx}: {} vs {want:?}", obs["list"]));
    }
}

impl Space for Main {
    fn len(&self) -> u64 {
        self.cases.len() as u64
    }
    fn describe(&self, i: u64) -> Value {
        let c = &self.cases[i as usize];
        let l: Vec<String> = c.list.iter().map(|(a, p)| format!("{}@{p}", match *a { BAD => "missing-file".to_string(), GARBAGE => "not-an-archive".to_string(), a => format!("a{a}") })).collect();
        json!({"entry": format!("{:?}", c.entry), "list": l, "workers": c.workers, "preemption_bound": self.bound})
    }
    fn case_timeout(&self) -> u64 {
        600
    }
    fn run(&self, i: u64) -> CaseResult {
        let c = self.cases[i as usize].clone();
        let mut r = CaseResult::new();
        r.nontrivial = true;
        r.key = format!("{i}");
        let _ = &self.dir;
        let paths = self.paths.clone();
        let has_bad = c.list.iter().any(|x| x.0 >= BAD);
        let m_after = model(c.entry, &c.list);
        let m_before = model(c.entry, &[]);
        let outcomes: Arc<Mutex<BTreeSet<String>>> = Arc::new(Mutex::new(BTreeSet::new()));
        let orders: Arc<Mutex<BTreeSet<Vec<(u8, usize)>>>> = Arc::new(Mutex::new(BTreeSet::new()));
        let execs = Arc::new(Mutex::new(0u64));
        let viols: Arc<Mutex<Vec<(String, String)>>> = Arc::new(Mutex::new(vec![]));
        let partial = Arc::new(Mutex::new(0u64));
        let failed = Arc::new(Mutex::new(0u64));
        let (p2, f2) = (partial.clone(), failed.clone());
        let (o2, or2, ex2, v2) = (outcomes.clone(), orders.clone(), execs.clone(), viols.clone());
        let mut b = loom::model::Builder::new();
        b.preemption_bound = Some(self.bound);
        b.max_branches = 100_000;
        let cc = c.clone();
        let ctx = format!("{}", self.describe(i));
        let res = guarded(move || {
            b.check(move || {
                rayon::EVENT_LOG.lock().unwrap().clear();
                let pool = rayon::ThreadPoolBuilder::new().num_threads(cc.workers).build().unwrap();
                let mut add_viol = |s: &str, d: String| v2.lock().unwrap().push((s.to_string(), d));
                let arg: Vec<(PathBuf, i32)> = cc.list.iter().map(|(a, p)| (paths[*a].clone(), *p)).collect();
                let mut chain = PatchChain::new();
                match cc.entry {
                    Entry::From => {}
                    Entry::AddOnto(p) => chain.add_archive(&paths[0], p).expect("sequential add of a valid archive"),
                    Entry::AddOntoTwo => {
                        chain.add_archive(&paths[0], 7).expect("sequential add of a valid archive");
                        chain.add_archive(&paths[2], 0).expect("sequential add of a valid archive");
                    }
                }
                let status: Result<(), String> = pool.install(|| match cc.entry {
                    Entry::From => PatchChain::from_archives_parallel(arg).map(|c| chain = c).map_err(|e| e.to_string()),
                    _ => chain.add_archives_parallel(arg).map_err(|e| e.to_string()),
                });
                let rendered = match (&status, cc.entry) {
                    (Err(_), Entry::From) => {
                        if !has_bad {
                            add_viol("from_archives_parallel fails on valid archives", format!("{ctx}: {:?}", status));
                        }
                        "Err".to_string()
                    }
                    (Err(_), _) => {
                        if !has_bad {
                            add_viol("add_archives_parallel fails on valid archives", format!("{ctx}: {:?}", status));
                        }
                        // whatever the chain now claims to hold must still be served correctly
                        let obs = observe(&mut chain, &paths);
                        // observed, not judged: does a failed parallel add leave members behind?
                        *f2.lock().unwrap() += 1;
                        if obs["count"] != m_before.len().to_string() {
                            *p2.lock().unwrap() += 1;
                        }
                        judge(&obs, &m_before, false, &ctx, &mut add_viol);
                        format!("Err|{obs:?}")
                    }
                    (Ok(()), _) => {
                        let obs = observe(&mut chain, &paths);
                        judge(&obs, &m_after, !has_bad, &ctx, &mut add_viol);
                        format!("Ok|{obs:?}")
                    }
                };
                o2.lock().unwrap().insert(rendered);
                or2.lock().unwrap().insert(rayon::EVENT_LOG.lock().unwrap().clone());
                *ex2.lock().unwrap() += 1;
            });
        });
        if let Err((file, line, msg)) = res {
            r.viol(panic_class(&file, &msg), format!("loom model failed at {file}:{line}: {msg}"));
        }
        let execs = *execs.lock().unwrap();
        let outs = outcomes.lock().unwrap().clone();
        let ords = orders.lock().unwrap().len() as u64;
        r.count("schedules_explored", execs);
        r.count("failed_parallel_adds_observed", *failed.lock().unwrap());
        r.count("failed_parallel_adds_that_left_members_behind_not_judged", *partial.lock().unwrap());
        r.count("distinct_event_orders", ords);
        if outs.len() > 1 {
            let mut it = outs.iter();
            let (a, b2) = (it.next().unwrap(), it.next().unwrap());
            let diff: String = a.split(", ").zip(b2.split(", ")).filter(|(x, y)| x != y).map(|(x, y)| format!("[{x}] vs [{y}]")).take(4).collect::<Vec<_>>().join("; ");
            r.viol("what a parallel-loaded patch chain serves depends on the schedule", format!("{} distinct results over {execs} schedules: {diff}", outs.len()));
        }
        let mut seen = BTreeSet::new();
        for (s, d) in viols.lock().unwrap().iter() {
            if seen.insert(s.clone()) {
                r.viol(s.clone(), d.clone());
            }
        }
        if c.workers >= 2 && c.list.len() >= 2 && ords <= 1 {
            r.count("vacuity_single_event_order_cases", 1);
        }
        r.outcome = outs.iter().next().map(|s| s.chars().take(2).collect::<String>()).unwrap_or_default();
        r.payload = Some(json!({"schedules": execs, "orders": ords}));
        r
    }
}

fn build(name: &str, _arg: &str, tier: Tier) -> Box<dyn Space> {
    match name {
        "parload" => Box::new(Main::new(tier)),
        _ => panic!("space {name}"),
    }
}

fn main() {
    let Mode::Supervisor(mut c) = start("C08", "model_checking", build) else { return };
    let payloads = c.run_space("parload", "");
    let schedules: u64 = payloads.iter().map(|p| p.1["schedules"].as_u64().unwrap_or(0)).sum();
    let max_orders: u64 = payloads.iter().map(|p| p.1["orders"].as_u64().unwrap_or(0)).max().unwrap_or(0);
    c.extra_cov.insert("states".into(), json!(c.agg.counters.get("distinct_event_orders").copied().unwrap_or(0).max(1)));
    c.extra_cov.insert("transitions".into(), json!(schedules.max(1)));
    c.extra_cov.insert("traces_validated_against_impl".into(), json!(schedules));
    c.extra_cov.insert("max_distinct_event_orders_in_one_case".into(), json!(max_orders));
    c.extra_cov.insert("preemption_bound".into(), json!(if c.tier == Tier::Quick { 2 } else { 3 }));
    c.rule = "parallel loading under loom: case = (from_archives_parallel | add_archives_parallel onto a chain holding a0@0, a0@7 or a0@7+a2@0, every ordered selection of 1..3 (thorough 1..4) of {a1,a2,a3,missing file, a non-archive file} x every priority assignment over {0,7} (thorough {-5,0,7} up to length 3), workers 2..3 (thorough 2..4)); every interleaving of the load tasks' claim/start/finish up to the preemption bound runs on the real code with the rayon stand-in; after each schedule all pool names are read through the chain and compared with the model (highest priority, earliest added wins ties; list = union; absent name not found); the rendering over all schedules must be a singleton. After a failed add the chain is judged against the membership it reports itself. states = distinct task start/finish orders (summed), transitions = schedules executed.".into();
    c.assume("rayon honours its documented contract (order-preserving indexed collect, some-error Result collect); the stand-in in /verif/harness-sched/rayon models that contract on loom threads");
    c.assume("code between two loom operations runs atomically (Archive::open of one task is one step)");
    c.finish();
}
