//! C09 — parallel extraction is observationally identical to sequential reading (schedule part).
//!
//! `wow-mpq` is compiled against the loom-backed `rayon` stand-in of this workspace; every case
//! runs one parallel-extraction entry point inside `loom::model` with a preemption bound, so
//! every interleaving of task claim / start / finish up to that bound is executed on the real
//! code.  Each execution's result is compared slot by slot with sequential `Archive::read_file`,
//! and the set of results over all schedules of a case must be a singleton.
use refimpl::mpqref::{self, WFile, WOptions};
use serde_json::{json, Value};
use std::collections::BTreeSet;
use std::path::PathBuf;
use std::sync::{Arc, Mutex};
use vcore::*;
use wow_mpq::single_archive_parallel::{extract_with_config, ParallelArchive, ParallelConfig};
use wow_mpq::Archive;

const P: &str = "data\\present_p.txt";
const Q: &str = "data\\present_q.bin";
const M: &str = "data\\missing_m.txt";
const X: &str = "data\\patch_x.bin"; // patch-flagged entry: exists, read fails
const PU: &str = "DATA/PRESENT_P.TXT"; // p under another spelling (ASCII case, slash direction): a sequential read finds it
const LF: &str = "(listfile)"; // internal file: readable by name, never part of the listing

#[derive(Clone, Copy, Debug, PartialEq)]
enum Api {
    ConfigUnbatched,
    ConfigBatched,
    FilesParallel,
    FilesBatched,
    Matching,
    Process,
    MultiArchive,
    MultiArchiveMulti,
    SearchMulti,
    ProcessArchives,
}
const APIS: [Api; 10] = [
    Api::ConfigUnbatched,
    Api::FilesParallel,
    Api::FilesBatched,
    Api::Process,
    Api::Matching,
    Api::MultiArchive,
    Api::MultiArchiveMulti,
    Api::SearchMulti,
    Api::ProcessArchives,
    Api::ConfigBatched,
];

struct Main {
    dir: Scratch,
    arch: PathBuf,
    arch_b: PathBuf,
    arch_c: PathBuf,
    big: PathBuf,
    cases: Vec<(Api, Vec<&'static str>, bool, usize)>, // api, request list, skip_errors, workers
    bound: usize,
}
fn request_lists(maxlen: usize) -> Vec<Vec<&'static str>> {
    let pool = [P, Q, P, M, X, PU, LF]; // duplicate p on purpose
    let mut out: Vec<Vec<&'static str>> = vec![vec![]];
    let mut seen: BTreeSet<Vec<&'static str>> = BTreeSet::new();
    // all ordered selections (without reusing a pool position) of length 1..=maxlen
    fn rec(pool: &[&'static str], used: &mut Vec<bool>, cur: &mut Vec<&'static str>, maxlen: usize, out: &mut Vec<Vec<&'static str>>, seen: &mut BTreeSet<Vec<&'static str>>) {
        if !cur.is_empty() && seen.insert(cur.clone()) {
            out.push(cur.clone());
        }
        if cur.len() == maxlen {
            return;
        }
        for i in 0..pool.len() {
            if !used[i] {
                used[i] = true;
                cur.push(pool[i]);
                rec(pool, used, cur, maxlen, out, seen);
                cur.pop();
                used[i] = false;
            }
        }
    }
    rec(&pool, &mut vec![false; pool.len()], &mut vec![], maxlen, &mut out, &mut seen);
    out
}
impl Main {
    fn new(tier: Tier) -> Main {
        let dir = Scratch::new("c09");
        let content = |n: &str| format!("content of {n} {}", "z".repeat(n.len() * 3)).into_bytes();
        let mk = |files: Vec<WFile>, name: &str| -> PathBuf {
            let p = dir.path(name);
            std::fs::write(&p, mpqref::write(&files, &WOptions::default()).unwrap()).unwrap();
            p
        };
        let patch = WFile { raw_flags: mpqref::F_PATCH | mpqref::F_SINGLE, ..WFile::plain(X, &[0u8; 40]) };
        let arch = mk(vec![WFile { method: mpqref::M_ZLIB, ..WFile::plain(P, &content(P)) }, WFile::plain(Q, &content(Q)), patch.clone()], "a.mpq");
        let arch_b = mk(vec![WFile::plain(P, b"p in b"), WFile::plain("only\\b.txt", b"bb")], "b.mpq");
        let arch_c = mk(vec![WFile::plain(Q, b"q in c")], "c.mpq");
        // 1001 one-byte files for the batched path
        let mut many = vec![];
        for i in 0..1001 {
            many.push(WFile::plain(&format!("n\\f{i:04}"), &[(i % 251) as u8]));
        }
        let big = {
            let p = dir.path("big.mpq");
            let opt = WOptions { hash_size: 4096, ..WOptions::default() };
            std::fs::write(&p, mpqref::write(&many, &opt).unwrap()).unwrap();
            p
        };
        let lists = request_lists(tier.pick(3, 4));
        // thorough: up to 4 workers (the stand-in's maximum)
        let w123: Vec<usize> = tier.pick(vec![1, 2, 3], vec![1, 2, 3, 4]);
        let w23: Vec<usize> = tier.pick(vec![2, 3], vec![2, 3, 4]);
        let mut cases = vec![];
        for api in APIS {
            match api {
                Api::ConfigUnbatched => {
                    for l in &lists {
                        for skip in [false, true] {
                            for &w in &w123 {
                                cases.push((api, l.clone(), skip, w));
                            }
                        }
                    }
                }
                Api::FilesParallel | Api::Process | Api::FilesBatched => {
                    for l in &lists {
                        for &w in &w23 {
                            cases.push((api, l.clone(), false, w));
                        }
                    }
                }
                Api::Matching | Api::SearchMulti | Api::ProcessArchives => {
                    for &w in &w123 {
                        cases.push((api, vec![], false, w));
                    }
                }
                Api::MultiArchive | Api::MultiArchiveMulti => {
                    for name in [P, Q, M] {
                        for &w in &w23 {
                            cases.push((api, vec![name], false, w));
                        }
                    }
                }
                Api::ConfigBatched => {
                    for skip in [false, true] {
                        for miss in [None, Some(0usize), Some(500), Some(1000)] {
                            // the request list is generated in run(); encode the missing position in the list
                            let tag: &'static str = match miss {
                                None => "none",
                                Some(0) => "first",
                                Some(500) => "middle",
                                _ => "last",
                            };
                            cases.push((api, vec![tag], skip, 2));
                        }
                    }
                }
            }
        }
        Main { dir, arch, arch_b, arch_c, big, cases, bound: tier.pick(2, 3) }
    }
}

type Slot = (String, Result<Vec<u8>, String>);
fn err_class(e: &wow_mpq::Error) -> String {
    match e {
        wow_mpq::Error::FileNotFound(_) => "notfound".into(),
        wow_mpq::Error::OperationNotSupported { .. } => "unsupported".into(),
        _ => "err".into(),
    }
}
fn seq_read(path: &PathBuf, name: &str) -> Result<Vec<u8>, String> {
    let mut a = Archive::open(path).map_err(|e| err_class(&e))?;
    a.read_file(name).map_err(|e| err_class(&e))
}

impl Space for Main {
    fn len(&self) -> u64 {
        self.cases.len() as u64
    }
    fn describe(&self, i: u64) -> Value {
        let (api, l, skip, w) = &self.cases[i as usize];
        let names: Vec<&str> = l.iter().map(|n| match *n { P => "p", Q => "q", M => "missing", X => "unreadable", PU => "p-other-spelling", LF => "(listfile)", o => o }).collect();
        json!({"api": format!("{api:?}"), "request": names, "skip_errors": skip, "workers": w, "preemption_bound": self.bound})
    }
    fn case_timeout(&self) -> u64 {
        600
    }
    fn run(&self, i: u64) -> CaseResult {
        let (api, list, skip, w) = self.cases[i as usize].clone();
        let mut r = CaseResult::new();
        r.nontrivial = true;
        r.key = format!("{i}");
        let _ = &self.dir;
        let (arch, arch_b, arch_c, big) = (self.arch.clone(), self.arch_b.clone(), self.arch_c.clone(), self.big.clone());
        // the request list and its sequential reference
        let big_names: Vec<String> = (0..1001).map(|k| format!("n\\f{k:04}")).collect();
        let req: Vec<String> = if api == Api::ConfigBatched {
            let mut v = big_names.clone();
            match list[0] {
                "first" => v[0] = M.into(),
                "middle" => v[500] = M.into(),
                "last" => v[1000] = M.into(),
                _ => {}
            }
            v
        } else {
            list.iter().map(|s| s.to_string()).collect()
        };
        let src = if api == Api::ConfigBatched { big.clone() } else { arch.clone() };
        let reference: Vec<Slot> = req.iter().map(|n| (n.clone(), seq_read(&src, n))).collect();
        let any_fail = reference.iter().any(|s| s.1.is_err());

        let outcomes: Arc<Mutex<BTreeSet<String>>> = Arc::new(Mutex::new(BTreeSet::new()));
        let orders: Arc<Mutex<BTreeSet<Vec<(u8, usize)>>>> = Arc::new(Mutex::new(BTreeSet::new()));
        let execs = Arc::new(Mutex::new(0u64));
        let viols: Arc<Mutex<Vec<(String, String)>>> = Arc::new(Mutex::new(vec![]));
        let mut b = loom::model::Builder::new();
        b.preemption_bound = Some(self.bound);
        b.max_branches = 100_000;
        let (o2, or2, ex2, v2) = (outcomes.clone(), orders.clone(), execs.clone(), viols.clone());
        let reference2 = reference.clone();
        let req2 = req.clone();
        let res = guarded(move || {
            b.check(move || {
                rayon::EVENT_LOG.lock().unwrap().clear();
                let names: Vec<&str> = req2.iter().map(|s| s.as_str()).collect();
                let pool = rayon::ThreadPoolBuilder::new().num_threads(w).build().unwrap();
                let mut add_viol = |s: &str, d: String| v2.lock().unwrap().push((s.to_string(), d));
                // run the API, normalise into (whole-call status, slots)
                let rendered: String = match api {
                    Api::ConfigUnbatched | Api::ConfigBatched => {
                        let cfg = ParallelConfig::new().threads(w).batch_size(if api == Api::ConfigBatched { 334 } else { 2 }).skip_errors(skip);
                        match extract_with_config(&src, &names, cfg) {
                            Ok(slots) => {
                                if !skip && any_fail {
                                    add_viol("extract_with_config without skip_errors returns Ok although a requested name fails", format!("{:?}", names.iter().take(6).collect::<Vec<_>>()));
                                }
                                if slots.len() != names.len() {
                                    add_viol("extract_with_config returns a different number of slots than requested names", format!("{} vs {}", slots.len(), names.len()));
                                }
                                for (k, (n, res)) in slots.iter().enumerate() {
                                    if k >= reference2.len() {
                                        break;
                                    }
                                    let got: Result<Vec<u8>, String> = res.as_ref().map(|v| v.clone()).map_err(err_class);
                                    if n != &reference2[k].0 {
                                        add_viol("extract_with_config slot carries another name than the request at that position", format!("slot {k}: {n} vs {}", reference2[k].0));
                                    } else if got.is_ok() != reference2[k].1.is_ok() || (got.is_ok() && got != reference2[k].1) {
                                        add_viol("extract_with_config slot differs from a sequential read of that name", format!("slot {k} {n}: {:?} vs {:?}", got.as_ref().map(|v| v.len()), reference2[k].1.as_ref().map(|v| v.len())));
                                    }
                                }
                                format!("Ok:{:?}", slots.iter().map(|(n, r)| (n.clone(), r.as_ref().map(|v| v.len()).map_err(err_class))).collect::<Vec<_>>())
                            }
                            Err(e) => {
                                if skip || !any_fail {
                                    add_viol("extract_with_config fails as a whole although no name fails / skip_errors is on", format!("{e}"));
                                }
                                "Err".to_string()
                            }
                        }
                    }
                    Api::FilesParallel | Api::FilesBatched | Api::Process => pool.install(|| {
                        let pa = ParallelArchive::open(&src).expect("open");
                        let out: Result<Vec<(String, Vec<u8>)>, wow_mpq::Error> = match api {
                            Api::FilesParallel => pa.extract_files_parallel(&names),
                            Api::FilesBatched => pa.extract_files_batched(&names, 2),
                            _ => pa.process_files_parallel(&names, |n, d| Ok((n.to_string(), d))),
                        };
                        match out {
                            Ok(v) => {
                                if any_fail {
                                    add_viol("all-or-nothing extraction returns Ok although a requested name fails", format!("{api:?}"));
                                }
                                let want: Vec<(String, Vec<u8>)> = reference2.iter().filter_map(|s| s.1.clone().ok().map(|d| (s.0.clone(), d))).collect();
                                if !any_fail && v != want {
                                    add_viol("parallel extraction result differs from sequential reads in request order", format!("{api:?}: {:?} vs {:?}", v.iter().map(|x| &x.0).collect::<Vec<_>>(), want.iter().map(|x| &x.0).collect::<Vec<_>>()));
                                }
                                format!("Ok:{:?}", v.iter().map(|x| (x.0.clone(), x.1.len())).collect::<Vec<_>>())
                            }
                            Err(_) => {
                                if !any_fail {
                                    add_viol("parallel extraction fails although every requested name reads sequentially", format!("{api:?}"));
                                }
                                "Err".into()
                            }
                        }
                    }),
                    Api::Matching => pool.install(|| {
                        let pa = ParallelArchive::open(&src).expect("open");
                        match pa.extract_matching_parallel(|n| n.contains("present")) {
                            Ok(v) => {
                                let want: Vec<(String, Vec<u8>)> = pa.list_files().iter().filter(|n| n.contains("present")).map(|n| (n.clone(), seq_read(&src, n).unwrap())).collect();
                                if v != want {
                                    add_viol("extract_matching_parallel differs from sequential reads of the matching names in list order", format!("{:?}", v.iter().map(|x| &x.0).collect::<Vec<_>>()));
                                }
                                format!("Ok:{:?}", v.iter().map(|x| (x.0.clone(), x.1.len())).collect::<Vec<_>>())
                            }
                            Err(e) => {
                                add_viol("extract_matching_parallel fails on readable names", format!("{e}"));
                                "Err".into()
                            }
                        }
                    }),
                    Api::MultiArchive | Api::MultiArchiveMulti | Api::SearchMulti | Api::ProcessArchives => pool.install(|| {
                        let archives = vec![arch.clone(), arch_b.clone(), arch_c.clone()];
                        match api {
                            Api::MultiArchive => {
                                let name = names[0];
                                let want: Vec<Result<Vec<u8>, String>> = archives.iter().map(|a| seq_read(a, name)).collect();
                                match wow_mpq::parallel::extract_from_multiple_archives(&archives, name) {
                                    Ok(v) => {
                                        if want.iter().any(|w| w.is_err()) {
                                            add_viol("extract_from_multiple_archives returns Ok although an archive lacks the file", name.to_string());
                                        } else if v.iter().map(|x| (x.0.clone(), x.1.clone())).collect::<Vec<_>>() != archives.iter().cloned().zip(want.iter().map(|w| w.clone().unwrap())).collect::<Vec<_>>() {
                                            add_viol("extract_from_multiple_archives differs from per-archive sequential reads in archive order", name.to_string());
                                        }
                                        format!("Ok:{:?}", v.iter().map(|x| x.1.len()).collect::<Vec<_>>())
                                    }
                                    Err(_) => {
                                        if want.iter().all(|w| w.is_ok()) {
                                            add_viol("extract_from_multiple_archives fails although every archive holds the file", name.to_string());
                                        }
                                        "Err".into()
                                    }
                                }
                            }
                            Api::MultiArchiveMulti => {
                                let name = names[0];
                                match wow_mpq::parallel::extract_multiple_from_multiple_archives(&archives[..2], &[name]) {
                                    Ok(v) => {
                                        let want: Vec<(PathBuf, Vec<(String, Vec<u8>)>)> = archives[..2].iter().map(|a| (a.clone(), vec![(name.to_string(), seq_read(a, name).unwrap_or_default())])).collect();
                                        if v != want {
                                            add_viol("extract_multiple_from_multiple_archives differs from sequential reads in archive order", name.to_string());
                                        }
                                        format!("Ok:{}", v.len())
                                    }
                                    Err(_) => {
                                        if archives[..2].iter().all(|a| seq_read(a, name).is_ok()) {
                                            add_viol("extract_multiple_from_multiple_archives fails although every archive holds the file", name.to_string());
                                        }
                                        "Err".into()
                                    }
                                }
                            }
                            Api::SearchMulti => match wow_mpq::parallel::search_in_multiple_archives(&archives, "present") {
                                Ok(v) => {
                                    let want: Vec<(PathBuf, Vec<String>)> = archives
                                        .iter()
                                        .map(|a| {
                                            let mut ar = Archive::open(a).unwrap();
                                            (a.clone(), ar.list().unwrap().into_iter().map(|e| e.name).filter(|n| n.contains("present")).collect())
                                        })
                                        .collect();
                                    if v != want {
                                        add_viol("search_in_multiple_archives differs from sequential listing in archive order", String::new());
                                    }
                                    format!("Ok:{:?}", v.iter().map(|x| x.1.len()).collect::<Vec<_>>())
                                }
                                Err(e) => {
                                    add_viol("search_in_multiple_archives fails on valid archives", format!("{e}"));
                                    "Err".into()
                                }
                            },
                            _ => match wow_mpq::parallel::process_archives_parallel(&archives, |mut a| Ok(a.list()?.len())) {
                                Ok(v) => {
                                    let want: Vec<usize> = archives.iter().map(|a| Archive::open(a).unwrap().list().unwrap().len()).collect();
                                    if v != want {
                                        add_viol("process_archives_parallel results are not in archive order", format!("{v:?} vs {want:?}"));
                                    }
                                    format!("Ok:{v:?}")
                                }
                                Err(e) => {
                                    add_viol("process_archives_parallel fails on valid archives", format!("{e}"));
                                    "Err".into()
                                }
                            },
                        }
                    }),
                };
                o2.lock().unwrap().insert(rendered);
                or2.lock().unwrap().insert(rayon::EVENT_LOG.lock().unwrap().clone());
                *ex2.lock().unwrap() += 1;
            });
        });
        if let Err((file, line, msg)) = res {
            r.viol(panic_class(&file, &msg), format!("loom model failed at {file}:{line}: {msg}"));
        }
        let execs = *execs.lock().unwrap();
        let outs = outcomes.lock().unwrap().clone();
        let ords = orders.lock().unwrap().len() as u64;
        r.count("schedules_explored", execs);
        r.count("distinct_event_orders", ords);
        if outs.len() > 1 {
            r.viol("the result of a parallel extraction depends on the schedule", format!("{} distinct results over {} schedules: {:?}", outs.len(), execs, outs.iter().take(3).collect::<Vec<_>>()));
        }
        let mut seen = BTreeSet::new();
        for (s, d) in viols.lock().unwrap().iter() {
            if seen.insert(s.clone()) {
                r.viol(s.clone(), d.clone());
            }
        }
        if w >= 2 && req.len() >= 2 && ords <= 1 && api != Api::Matching {
            r.count("vacuity_single_event_order_cases", 1);
        }
        r.outcome = format!("{}", outs.iter().next().map(|s| s.chars().take(2).collect::<String>()).unwrap_or_default());
        r.payload = Some(json!({"schedules": execs, "orders": ords}));
        r
    }
}

fn build(name: &str, _arg: &str, tier: Tier) -> Box<dyn Space> {
    match name {
        "loom" => Box::new(Main::new(tier)),
        _ => panic!("space {name}"),
    }
}

fn main() {
    let Mode::Supervisor(mut c) = start("C09", "model_checking", build) else { return };
    let payloads = c.run_space("loom", "");
    let schedules: u64 = payloads.iter().map(|p| p.1["schedules"].as_u64().unwrap_or(0)).sum();
    let max_orders: u64 = payloads.iter().map(|p| p.1["orders"].as_u64().unwrap_or(0)).max().unwrap_or(0);
    c.extra_cov.insert("states".into(), json!(c.agg.counters.get("distinct_event_orders").copied().unwrap_or(0).max(1)));
    c.extra_cov.insert("transitions".into(), json!(schedules.max(1)));
    c.extra_cov.insert("traces_validated_against_impl".into(), json!(schedules));
    c.extra_cov.insert("max_distinct_event_orders_in_one_case".into(), json!(max_orders));
    c.extra_cov.insert("preemption_bound".into(), json!(if c.tier == Tier::Quick { 2 } else { 3 }));
    // merge the configuration sweep (real rayon, workspace A) if it ran before us
    if let Ok(t) = std::fs::read_to_string("/verif/.target/c09-sweep-evidence.json") {
        if let Ok(v) = serde_json::from_str::<Value>(&t) {
            c.extra_cov.insert("configuration_sweep".into(), v["coverage"].clone());
        }
    }
    c.rule = "case = (parallel entry point, request list drawn from {p, q, duplicate p, missing, unreadable, p under another case+slash spelling, (listfile)} in every order up to length 3 (quick) / 4 (thorough), skip_errors, workers 1..3 (thorough: 1..4)); each case runs under loom with the rayon stand-in: every interleaving of task claim/start/finish up to the preemption bound is executed on the real code and compared slot by slot with sequential Archive::read_file; the set of results over all schedules must be a singleton. states = distinct task start/finish orders observed (summed over cases), transitions = schedules executed.".into();
    c.assume("rayon honours its documented contract (order-preserving indexed collect, some-error Result collect); the stand-in in /verif/harness-sched/rayon models that contract on loom threads");
    c.assume("with <= 4 items in flight every start/finish order that 32 OS threads could produce is produced by <= 3-4 workers; loom caps a model at 5 threads");
    c.assume("code between two loom operations runs atomically: data races inside a task body are outside this exploration (covered only by the free-running configuration sweep)");
    c.finish();
}
