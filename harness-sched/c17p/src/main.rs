//! C17 (parallel access path under a controlled scheduler): `parse_records_parallel` is compiled
//! against the loom-backed rayon stand-in; every interleaving of its chunk tasks (claim / start /
//! finish, up to the preemption bound) is executed and the record list must equal the eager parse,
//! with a single outcome over all schedules.
use serde_json::{json, Value};
use std::collections::BTreeSet;
use std::sync::{Arc, Mutex};
use vcore::*;
use wow_cdbc::{parse_records_parallel, DbcParser, FieldType, Schema, SchemaField, StringBlock};

fn table(n: usize, fields: usize) -> Vec<u8> {
    let mut d = b"WDBC".to_vec();
    let strings = b"\0alpha\0beta\0".to_vec();
    d.extend_from_slice(&(n as u32).to_le_bytes());
    d.extend_from_slice(&(fields as u32).to_le_bytes());
    d.extend_from_slice(&((fields * 4) as u32).to_le_bytes());
    d.extend_from_slice(&(strings.len() as u32).to_le_bytes());
    for r in 0..n {
        for f in 0..fields {
            let v: u32 = if f == 0 { 1000 - r as u32 } else if f == fields - 1 { [0u32, 1, 7][r % 3] } else { (r * 31 + f * 7) as u32 ^ 0x8000_0000 };
            d.extend_from_slice(&v.to_le_bytes());
        }
    }
    d.extend_from_slice(&strings);
    d
}
fn schema(fields: usize) -> Schema {
    let mut s = Schema::new("t");
    for f in 0..fields {
        let ty = if f == 0 { FieldType::UInt32 } else if f == fields - 1 { FieldType::String } else { FieldType::Int32 };
        s.add_field(SchemaField::new(format!("f{f}"), ty));
    }
    s.set_key_field_index(0);
    s
}
struct Main {
    cases: Vec<(usize, usize, bool, usize)>, // records, fields, with schema, workers
    bound: usize,
}
impl Space for Main {
    fn len(&self) -> u64 {
        self.cases.len() as u64
    }
    fn describe(&self, i: u64) -> Value {
        let (n, f, s, w) = self.cases[i as usize];
        json!({"records": n, "fields": f, "schema": s, "workers": w, "preemption_bound": self.bound})
    }
    fn case_timeout(&self) -> u64 {
        600
    }
    fn run(&self, i: u64) -> CaseResult {
        let (n, f, with_schema, w) = self.cases[i as usize];
        let mut r = CaseResult::new();
        r.nontrivial = n > 0;
        r.key = format!("{i}");
        let data = table(n, f);
        let sch = schema(f);
        let eager = {
            let p = DbcParser::parse_bytes(&data).expect("eager header");
            let p = if with_schema { p.with_schema(sch.clone()).expect("schema") } else { p };
            p.parse_records().expect("eager records")
        };
        let want: Vec<String> = eager.records().iter().map(|x| format!("{:?}", x.values())).collect();
        let outs: Arc<Mutex<BTreeSet<String>>> = Arc::new(Mutex::new(BTreeSet::new()));
        let orders: Arc<Mutex<BTreeSet<Vec<(u8, usize)>>>> = Arc::new(Mutex::new(BTreeSet::new()));
        let execs = Arc::new(Mutex::new(0u64));
        let (o2, or2, e2) = (outs.clone(), orders.clone(), execs.clone());
        let mut b = loom::model::Builder::new();
        b.preemption_bound = Some(self.bound);
        let res = guarded(move || {
            b.check(move || {
                rayon::EVENT_LOG.lock().unwrap().clear();
                let pool = rayon::ThreadPoolBuilder::new().num_threads(w).build().unwrap();
                let p = DbcParser::parse_bytes(&data).unwrap();
                let header = p.header().clone();
                let sb = Arc::new(StringBlock::parse(&mut std::io::Cursor::new(&data), header.string_block_offset(), header.string_block_size).unwrap());
                let got = pool.install(|| parse_records_parallel(&data, &header, if with_schema { Some(&sch) } else { None }, sb));
                let rendered = match got {
                    Ok(rs) => format!("{:?}", rs.records().iter().map(|x| format!("{:?}", x.values())).collect::<Vec<_>>()),
                    Err(e) => format!("Err({e})"),
                };
                o2.lock().unwrap().insert(rendered);
                or2.lock().unwrap().insert(rayon::EVENT_LOG.lock().unwrap().clone());
                *e2.lock().unwrap() += 1;
            });
        });
        if let Err((file, line, msg)) = res {
            r.viol(panic_class(&file, &msg), format!("{file}:{line}: {msg}"));
        }
        let execs = *execs.lock().unwrap();
        let outs = outs.lock().unwrap().clone();
        r.count("schedules_explored", execs);
        r.count("distinct_event_orders", orders.lock().unwrap().len() as u64);
        if outs.len() > 1 {
            r.viol("parse_records_parallel: the record list depends on the schedule", format!("{} distinct results over {execs} schedules", outs.len()));
        }
        if let Some(o) = outs.iter().next() {
            if *o != format!("{:?}", want) {
                r.viol("parse_records_parallel differs from the eager parse of the same bytes", format!("records={n} fields={f} schema={with_schema} workers={w}"));
            }
        }
        r.payload = Some(json!({"schedules": execs}));
        r
    }
}
fn build(name: &str, _arg: &str, tier: Tier) -> Box<dyn Space> {
    let mut cases = vec![];
    for n in tier.pick(vec![0usize, 1, 2, 3, 5], vec![0, 1, 2, 3, 4, 5, 7, 9]) {
        for f in [1usize, 3] {
            for s in [false, true] {
                for w in [1usize, 2, 3] {
                    cases.push((n, f, s, w));
                }
            }
        }
    }
    match name {
        "par" => Box::new(Main { cases, bound: tier.pick(2, 3) }),
        _ => panic!("space"),
    }
}
fn main() {
    let Mode::Supervisor(mut c) = start("C17", "exploration", build) else { return };
    c.rule = "parallel access path under loom: record counts x field counts x schema on/off x workers 1..3; every interleaving of chunk tasks up to the preemption bound; result must equal the eager parse and be schedule independent".into();
    let p = c.run_space("par", "");
    let schedules: u64 = p.iter().map(|x| x.1["schedules"].as_u64().unwrap_or(0)).sum();
    c.extra_cov.insert("schedules".into(), json!(schedules));
    c.finish();
}
