//! C19 (threads) — the C API's handle tables under every interleaving.
//!
//! storm-ffi's unmodified source is compiled with hook H1 (`--cfg wowrs_verif`): its `Mutex`,
//! `LazyLock` and `thread_local!` are loom's.  Every scenario runs 2–3 threads x 1 call each on
//! shared handles inside `loom::model` (all interleavings of lock acquisitions up to the
//! preemption bound).  Oracle: no deadlock, no panic, distinct handle ids, and **linearizability
//! by differential**: the outcome (return values + post-state probes) of every interleaving must
//! equal the outcome of one of the sequential orders of the same calls, executed on the same
//! implementation (whose sequential behaviour the sequential-history check validates).
use refimpl::mpqref::{self, WFile, WOptions};
use serde_json::{json, Value};
use std::collections::BTreeSet;
use std::ffi::CString;
use std::path::PathBuf;
use std::sync::{Arc, Mutex as StdMutex};
use storm_alt::*;
use vcore::*;

type H = usize;

#[derive(Clone, Debug)]
enum Op {
    OpenArchive(usize),        // which path -> slot
    CloseArchive(usize),       // archive slot
    OpenFile(usize, &'static str), // archive slot, name -> new slot
    CloseFile(usize),
    Read(usize, u32),
    Seek(usize, i32, u32),
    Size(usize),
    HasFile(usize, &'static str),
    FindFirst(usize),          // -> new slot
    FindNext(usize),
    FindClose(usize),
    Verify(usize, u32),
    AddFile(usize, &'static str),
    RemoveFile(usize, &'static str),
    Flush(usize),
    GetName(usize),
    GetInfo(usize, u32),
    ArchiveName(usize),
    EnumFiles(usize),
    Extract(usize, &'static str),
    VerifyFile(usize, &'static str),
    Rename(usize, &'static str, &'static str),
    Compact(usize),
}
extern "C" fn enum_cb(_name: *const libc::c_char, ud: *mut libc::c_void) -> bool {
    unsafe { *(ud as *mut u32) += 1 };
    true
}
#[derive(Clone, Debug, PartialEq, Eq, PartialOrd, Ord)]
struct Res {
    ok: bool,
    data: Vec<u8>,
}

struct Ctx {
    paths: Vec<PathBuf>,
    src_file: PathBuf,
    slots: StdMutex<Vec<Option<H>>>, // handle values by slot
}
fn cstr(s: &str) -> CString {
    CString::new(s).unwrap()
}
fn h(ctx: &Ctx, slot: usize) -> HANDLE {
    let v = ctx.slots.lock().unwrap();
    match v.get(slot).copied().flatten() {
        Some(x) => x as HANDLE,
        None => 0xDEAD_0000usize as HANDLE, // the producing call failed: a handle that was never issued
    }
}
fn set(ctx: &Ctx, slot: usize, val: Option<H>) {
    let mut v = ctx.slots.lock().unwrap();
    if v.len() <= slot {
        v.resize(slot + 1, None);
    }
    v[slot] = val;
}
/// executes one call; `out` = slot that receives a produced handle
fn exec(ctx: &Ctx, op: &Op, out: usize) -> Res {
    unsafe {
        match op {
            Op::OpenArchive(p) => {
                let mut hh: HANDLE = std::ptr::null_mut();
                let ok = SFileOpenArchive(cstr(ctx.paths[*p].to_str().unwrap()).as_ptr(), 0, 0, &mut hh);
                set(ctx, out, if ok { Some(hh as usize) } else { None });
                Res { ok, data: vec![] }
            }
            Op::CloseArchive(a) => Res { ok: SFileCloseArchive(h(ctx, *a)), data: vec![] },
            Op::OpenFile(a, n) => {
                let mut f: HANDLE = std::ptr::null_mut();
                let ok = SFileOpenFileEx(h(ctx, *a), cstr(n).as_ptr(), 0, &mut f);
                set(ctx, out, if ok { Some(f as usize) } else { None });
                Res { ok, data: vec![] }
            }
            Op::CloseFile(f) => Res { ok: SFileCloseFile(h(ctx, *f)), data: vec![] },
            Op::Read(f, n) => {
                let mut buf = vec![0xA5u8; *n as usize + 16];
                let mut got: u32 = 0;
                let ok = SFileReadFile(h(ctx, *f), buf.as_mut_ptr() as *mut _, *n, &mut got, std::ptr::null_mut());
                assert!(buf[*n as usize..].iter().all(|b| *b == 0xA5), "SFileReadFile wrote past the requested length");
                assert!(got <= *n, "SFileReadFile reports more bytes than requested");
                buf.truncate(got as usize);
                Res { ok, data: buf }
            }
            Op::Seek(f, off, m) => {
                let r = SFileSetFilePointer(h(ctx, *f), *off, std::ptr::null_mut(), *m);
                Res { ok: r != 0xFFFF_FFFF, data: r.to_le_bytes().to_vec() }
            }
            Op::Size(f) => {
                let r = SFileGetFileSize(h(ctx, *f), std::ptr::null_mut());
                Res { ok: r != 0xFFFF_FFFF, data: r.to_le_bytes().to_vec() }
            }
            Op::HasFile(a, n) => Res { ok: SFileHasFile(h(ctx, *a), cstr(n).as_ptr()), data: vec![] },
            Op::FindFirst(a) => {
                let mut fd: SFILE_FIND_DATA = std::mem::zeroed();
                let r = SFileFindFirstFile(h(ctx, *a), cstr("*").as_ptr(), &mut fd, std::ptr::null());
                let ok = !r.is_null();
                set(ctx, out, if ok { Some(r as usize) } else { None });
                let name: Vec<u8> = if ok { fd.c_file_name.iter().take_while(|c| **c != 0).map(|c| *c as u8).collect() } else { vec![] };
                Res { ok, data: name }
            }
            Op::FindNext(fh) => {
                let mut fd: SFILE_FIND_DATA = std::mem::zeroed();
                let ok = SFileFindNextFile(h(ctx, *fh), &mut fd);
                let name: Vec<u8> = if ok { fd.c_file_name.iter().take_while(|c| **c != 0).map(|c| *c as u8).collect() } else { vec![] };
                Res { ok, data: name }
            }
            Op::FindClose(fh) => Res { ok: SFileFindClose(h(ctx, *fh)), data: vec![] },
            Op::Verify(a, flags) => Res { ok: SFileVerifyArchive(h(ctx, *a), *flags), data: vec![] },
            Op::AddFile(a, n) => Res { ok: SFileAddFileEx(h(ctx, *a), cstr(ctx.src_file.to_str().unwrap()).as_ptr(), cstr(n).as_ptr(), 0, 0, 0), data: vec![] },
            Op::RemoveFile(a, n) => Res { ok: SFileRemoveFile(h(ctx, *a), cstr(n).as_ptr(), 0), data: vec![] },
            Op::Flush(a) => Res { ok: SFileFlushArchive(h(ctx, *a)), data: vec![] },
            Op::GetInfo(x, class) => {
                let mut buf = [0xA5u8; 24];
                let mut need: u32 = 0;
                let ok = SFileGetFileInfo(h(ctx, *x), *class, buf.as_mut_ptr() as *mut _, 8, &mut need);
                assert!(buf[8..].iter().all(|b| *b == 0xA5), "SFileGetFileInfo wrote past the buffer size it was given");
                Res { ok, data: if ok { buf[..8].to_vec() } else { vec![] } }
            }
            Op::ArchiveName(a) => {
                let mut buf = vec![0i8; 600];
                let ok = SFileGetArchiveName(h(ctx, *a), buf.as_mut_ptr() as *mut _, 512);
                Res { ok, data: vec![] }
            }
            Op::EnumFiles(a) => {
                let mut count: u32 = 0;
                let ok = SFileEnumFiles(h(ctx, *a), cstr("*").as_ptr(), std::ptr::null(), Some(enum_cb), &mut count as *mut u32 as *mut _);
                Res { ok, data: count.to_le_bytes().to_vec() }
            }
            Op::Extract(a, n) => {
                let dest = ctx.src_file.with_extension(format!("out{}", out));
                let ok = SFileExtractFile(h(ctx, *a), cstr(n).as_ptr(), cstr(dest.to_str().unwrap()).as_ptr(), 0);
                let data = if ok { std::fs::read(&dest).unwrap_or_default() } else { vec![] };
                let _ = std::fs::remove_file(&dest);
                Res { ok, data }
            }
            Op::VerifyFile(a, n) => Res { ok: SFileVerifyFile(h(ctx, *a), cstr(n).as_ptr(), 0x06), data: vec![] },
            Op::Rename(a, o, n) => Res { ok: SFileRenameFile(h(ctx, *a), cstr(o).as_ptr(), cstr(n).as_ptr()), data: vec![] },
            Op::Compact(a) => Res { ok: SFileCompactArchive(h(ctx, *a), std::ptr::null(), false), data: vec![] },
            Op::GetName(f) => {
                let mut buf = vec![0i8; 300];
                let ok = SFileGetFileName(h(ctx, *f), buf.as_mut_ptr() as *mut _);
                Res { ok, data: buf.iter().take_while(|c| **c != 0).map(|c| *c as u8).collect() }
            }
        }
    }
}

struct Scenario {
    name: String,
    mutable: bool,
    setup: Vec<Op>,      // handle slots 0.. in order of producing ops
    conc: Vec<Vec<Op>>,  // one call sequence per thread; a handle produced by call j of thread k goes to slot 10 + 4k + j
    probes: Vec<Op>,     // run sequentially after all threads joined
}
const P: &str = "dir\\p.txt";
const Q: &str = "dir\\q.bin";
fn scenarios(full: bool) -> Vec<Scenario> {
    use Op::*;
    let mut all = vec![
        Scenario { name: "a: OpenFileEx(h) || CloseArchive(h)".to_string(), mutable: false, setup: vec![OpenArchive(0)], conc: vec![vec![OpenFile(0, P)], vec![CloseArchive(0)]], probes: vec![Read(10, 4), Size(10), HasFile(0, P), CloseFile(10)] },
        Scenario { name: "b: OpenArchive || OpenArchive".to_string(), mutable: false, setup: vec![], conc: vec![vec![OpenArchive(0)], vec![OpenArchive(1)]], probes: vec![HasFile(10, P), HasFile(14, P), CloseArchive(10), HasFile(14, P), CloseArchive(14)] },
        Scenario { name: "c: ReadFile(f) || ReadFile(f)".to_string(), mutable: false, setup: vec![OpenArchive(0), OpenFile(0, P)], conc: vec![vec![Read(1, 3)], vec![Read(1, 3)]], probes: vec![Seek(1, 0, 1), Read(1, 2)] },
        Scenario { name: "d: FindFirstFile(h) || CloseArchive(h)".to_string(), mutable: false, setup: vec![OpenArchive(0)], conc: vec![vec![FindFirst(0)], vec![CloseArchive(0)]], probes: vec![FindNext(10), FindClose(10)] },
        Scenario { name: "e: CloseFile(f) || ReadFile(f)".to_string(), mutable: false, setup: vec![OpenArchive(0), OpenFile(0, P)], conc: vec![vec![CloseFile(1)], vec![Read(1, 4)]], probes: vec![Read(1, 1), HasFile(0, P)] },
        Scenario { name: "f: VerifyArchive(h) || CloseArchive(h)".to_string(), mutable: false, setup: vec![OpenArchive(0)], conc: vec![vec![Verify(0, 0x10)], vec![CloseArchive(0)]], probes: vec![HasFile(0, P)] },
        Scenario { name: "g: AddFile(hm) || OpenFileEx(hm)".to_string(), mutable: true, setup: vec![OpenArchive(2), ], conc: vec![vec![AddFile(0, "new\\added.txt")], vec![OpenFile(0, P)]], probes: vec![HasFile(0, "new\\added.txt"), Read(14, 4), CloseFile(14), CloseArchive(0)] },
        Scenario { name: "h: OpenFileEx(h,p) || OpenFileEx(h,q)".to_string(), mutable: false, setup: vec![OpenArchive(0)], conc: vec![vec![OpenFile(0, P)], vec![OpenFile(0, Q)]], probes: vec![Read(10, 4), Read(14, 4), GetName(10), GetName(14)] },
        Scenario { name: "i: CloseArchive(h) || CloseArchive(h)".to_string(), mutable: false, setup: vec![OpenArchive(0), OpenFile(0, P)], conc: vec![vec![CloseArchive(0)], vec![CloseArchive(0)]], probes: vec![Read(1, 2), HasFile(0, P)] },
        Scenario { name: "j: CloseFile(f) || CloseFile(f)".to_string(), mutable: false, setup: vec![OpenArchive(0), OpenFile(0, P)], conc: vec![vec![CloseFile(1)], vec![CloseFile(1)]], probes: vec![Read(1, 2)] },
        Scenario { name: "k: OpenFileEx(h) || CloseArchive(h) || OpenArchive(other)".to_string(), mutable: false, setup: vec![OpenArchive(0)], conc: vec![vec![OpenFile(0, Q)], vec![CloseArchive(0)], vec![OpenArchive(1)]], probes: vec![Read(10, 3), HasFile(18, P), CloseArchive(18)] },
        Scenario { name: "l: SetFilePointer(f) || ReadFile(f)".to_string(), mutable: false, setup: vec![OpenArchive(0), OpenFile(0, P)], conc: vec![vec![Seek(1, 2, 0)], vec![Read(1, 2)]], probes: vec![Seek(1, 0, 1)] },
        Scenario { name: "m: GetFileSize(f) || CloseArchive(h)".to_string(), mutable: false, setup: vec![OpenArchive(0), OpenFile(0, P)], conc: vec![vec![Size(1)], vec![CloseArchive(0)]], probes: vec![Size(1)] },
        Scenario { name: "n: HasFile(h) || CloseArchive(h)".to_string(), mutable: false, setup: vec![OpenArchive(0)], conc: vec![vec![HasFile(0, P)], vec![CloseArchive(0)]], probes: vec![HasFile(0, P)] },
        Scenario { name: "o: RemoveFile(hm) || OpenFileEx(hm, same)".to_string(), mutable: true, setup: vec![OpenArchive(2)], conc: vec![vec![RemoveFile(0, P)], vec![OpenFile(0, P)]], probes: vec![HasFile(0, P), Read(14, 4), CloseArchive(0)] },
        Scenario { name: "p: FindNextFile(s) || FindClose(s)".to_string(), mutable: false, setup: vec![OpenArchive(0), FindFirst(0)], conc: vec![vec![FindNext(1)], vec![FindClose(1)]], probes: vec![FindNext(1)] },
        Scenario { name: "r: [OpenFileEx(h,p); ReadFile] || [OpenFileEx(h,q); CloseArchive(h)]".to_string(), mutable: false, setup: vec![OpenArchive(0)], conc: vec![vec![OpenFile(0, P), Read(10, 3)], vec![OpenFile(0, Q), CloseArchive(0)]], probes: vec![Read(10, 2), Read(14, 2), HasFile(0, P)] },
        Scenario { name: "s: [ReadFile(f); ReadFile(f)] || [SetFilePointer(f); ReadFile(f)]".to_string(), mutable: false, setup: vec![OpenArchive(0), OpenFile(0, P)], conc: vec![vec![Read(1, 2), Read(1, 2)], vec![Seek(1, 1, 0), Read(1, 1)]], probes: vec![Seek(1, 0, 1)] },
        Scenario { name: "t: [OpenArchive; CloseArchive] || [OpenArchive; OpenFileEx] || CloseArchive(h)".to_string(), mutable: false, setup: vec![OpenArchive(0)], conc: vec![vec![OpenArchive(1), CloseArchive(10)], vec![OpenArchive(1), OpenFile(14, P)], vec![CloseArchive(0)]], probes: vec![Read(15, 3), HasFile(14, Q), HasFile(0, P), CloseArchive(14)] },
        Scenario { name: "u: [FindFirstFile(h); FindNextFile] || [CloseArchive(h)] || [OpenFileEx(h)]".to_string(), mutable: false, setup: vec![OpenArchive(0)], conc: vec![vec![FindFirst(0), FindNext(10)], vec![CloseArchive(0)], vec![OpenFile(0, P)]], probes: vec![FindNext(10), Read(18, 2), FindClose(10)] },
        Scenario { name: "q0: placeholder".to_string(), mutable: false, setup: vec![OpenArchive(0)], conc: vec![vec![HasFile(0, P)], vec![HasFile(0, Q)]], probes: vec![] },
        Scenario { name: "q: Flush(hm) || AddFile(hm)".to_string(), mutable: true, setup: vec![OpenArchive(2)], conc: vec![vec![Flush(0)], vec![AddFile(0, "new\\x.txt")]], probes: vec![HasFile(0, "new\\x.txt"), CloseArchive(0)] },
    ];
    // every unordered pair of calls over a shared read-only archive (slot 0), file (slot 1) and search (slot 2)
    let ro: Vec<Op> = vec![
        OpenArchive(1), CloseArchive(0), OpenFile(0, P), CloseFile(1), Read(1, 3), Seek(1, 2, 0), Size(1), HasFile(0, P), FindFirst(0), FindNext(2), FindClose(2),
        Verify(0, 0x10), Verify(0, 0x20), GetInfo(0, 1), GetInfo(1, 7), GetInfo(1, 10), GetName(1), ArchiveName(0), EnumFiles(0), Extract(0, Q), VerifyFile(0, P),
    ];
    for i in 0..ro.len() {
        for j in i..ro.len() {
            all.push(Scenario {
                name: format!("pair-ro {:?} || {:?}", ro[i], ro[j]),
                mutable: false,
                setup: vec![OpenArchive(0), OpenFile(0, P), FindFirst(0)],
                conc: vec![vec![ro[i].clone()], vec![ro[j].clone()]],
                probes: vec![Read(1, 2), Size(1), HasFile(0, Q), FindNext(2), Read(10, 1), Read(14, 1), HasFile(10, P), HasFile(14, P), FindNext(10), FindNext(14)],
            });
        }
    }
    // ... and over a shared writable archive (slot 0) with an open file (slot 1)
    let rw: Vec<Op> = vec![AddFile(0, "new\\added.txt"), RemoveFile(0, Q), Rename(0, Q, "dir\\r.bin"), Flush(0), Compact(0), OpenFile(0, Q), HasFile(0, Q), Extract(0, Q), CloseArchive(0), GetInfo(0, 1), EnumFiles(0)];
    for i in 0..rw.len() {
        for j in i..rw.len() {
            all.push(Scenario {
                name: format!("pair-rw {:?} || {:?}", rw[i], rw[j]),
                mutable: true,
                setup: vec![OpenArchive(2), OpenFile(0, P)],
                conc: vec![vec![rw[i].clone()], vec![rw[j].clone()]],
                probes: vec![HasFile(0, Q), HasFile(0, "new\\added.txt"), HasFile(0, "dir\\r.bin"), Read(1, 2), Read(10, 1), Read(14, 1)],
            });
        }
    }
    // every unordered TRIPLE of calls (three threads, one call each) over the same shared handles
    let probes3_ro = vec![Read(1, 2), Size(1), HasFile(0, Q), FindNext(2), Read(10, 1), Read(14, 1), Read(18, 1), HasFile(10, P), HasFile(14, P), HasFile(18, P), FindNext(10), FindNext(14), FindNext(18)];
    for i in 0..ro.len() {
        for j in i..ro.len() {
            for k in j..ro.len() {
                all.push(Scenario {
                    name: format!("triple-ro {:?} || {:?} || {:?}", ro[i], ro[j], ro[k]),
                    mutable: false,
                    setup: vec![OpenArchive(0), OpenFile(0, P), FindFirst(0)],
                    conc: vec![vec![ro[i].clone()], vec![ro[j].clone()], vec![ro[k].clone()]],
                    probes: probes3_ro.clone(),
                });
            }
        }
    }
    let probes3_rw = vec![HasFile(0, Q), HasFile(0, "new\\added.txt"), HasFile(0, "dir\\r.bin"), Read(1, 2), Read(10, 1), Read(14, 1), Read(18, 1)];
    for i in 0..rw.len() {
        for j in i..rw.len() {
            for k in j..rw.len() {
                all.push(Scenario {
                    name: format!("triple-rw {:?} || {:?} || {:?}", rw[i], rw[j], rw[k]),
                    mutable: true,
                    setup: vec![OpenArchive(2), OpenFile(0, P)],
                    conc: vec![vec![rw[i].clone()], vec![rw[j].clone()], vec![rw[k].clone()]],
                    probes: probes3_rw.clone(),
                });
            }
        }
    }
    // two threads, TWO calls each: every unordered pair of two-call sequences over a core alphabet
    // (the whole read-only list: 441 sequences)
    let core: Vec<Op> = ro.clone();
    let mut seqs: Vec<Vec<Op>> = vec![];
    for a in &core {
        for b in &core {
            seqs.push(vec![a.clone(), b.clone()]);
        }
    }
    // slots: thread 0 -> 10,11; thread 1 -> 14,15
    let probes_sp = vec![Read(1, 2), Size(1), HasFile(0, Q), FindNext(2), Read(10, 1), Read(11, 1), Read(14, 1), Read(15, 1), HasFile(10, P), HasFile(11, P), HasFile(14, P), HasFile(15, P), FindNext(10), FindNext(11), FindNext(14), FindNext(15)];
    for i in 0..seqs.len() {
        for j in i..seqs.len() {
            all.push(Scenario {
                name: format!("seqpair-ro {:?} || {:?}", seqs[i], seqs[j]),
                mutable: false,
                setup: vec![OpenArchive(0), OpenFile(0, P), FindFirst(0)],
                conc: vec![seqs[i].clone(), seqs[j].clone()],
                probes: probes_sp.clone(),
            });
        }
    }
    // ... and over the writable archive (core of the writable alphabet)
    let core_rw: Vec<Op> = rw.clone();
    let mut seqs_rw: Vec<Vec<Op>> = vec![];
    for a in &core_rw {
        for b in &core_rw {
            seqs_rw.push(vec![a.clone(), b.clone()]);
        }
    }
    let probes_sp_rw = vec![HasFile(0, Q), HasFile(0, "new\\added.txt"), HasFile(0, "dir\\r.bin"), Read(1, 2), Read(10, 1), Read(11, 1), Read(14, 1), Read(15, 1)];
    for i in 0..seqs_rw.len() {
        for j in i..seqs_rw.len() {
            all.push(Scenario {
                name: format!("seqpair-rw {:?} || {:?}", seqs_rw[i], seqs_rw[j]),
                mutable: true,
                setup: vec![OpenArchive(2), OpenFile(0, P)],
                conc: vec![seqs_rw[i].clone(), seqs_rw[j].clone()],
                probes: probes_sp_rw.clone(),
            });
        }
    }
    // thorough: THREE threads, two calls each, over a six-call core
    if full {
        let core3: Vec<Op> = vec![CloseArchive(0), OpenFile(0, P), CloseFile(1), Read(1, 3), FindFirst(0), FindNext(2)];
        let mut s3: Vec<Vec<Op>> = vec![];
        for a in &core3 {
            for b in &core3 {
                s3.push(vec![a.clone(), b.clone()]);
            }
        }
        let mut probes = probes_sp.clone();
        probes.extend(vec![Read(18, 1), Read(19, 1), HasFile(18, P), HasFile(19, P), FindNext(18), FindNext(19)]);
        for i in 0..s3.len() {
            for j in i..s3.len() {
                for k in j..s3.len() {
                    all.push(Scenario {
                        name: format!("seqtriple-ro {:?} || {:?} || {:?}", s3[i], s3[j], s3[k]),
                        mutable: false,
                        setup: vec![OpenArchive(0), OpenFile(0, P), FindFirst(0)],
                        conc: vec![s3[i].clone(), s3[j].clone(), s3[k].clone()],
                        probes: probes.clone(),
                    });
                }
            }
        }
    }
    all
}

struct Main {
    dir: Scratch,
    paths: Vec<PathBuf>,
    src_file: PathBuf,
    sc: Vec<Scenario>,
    bound: usize,
}
impl Main {
    fn new(tier: Tier) -> Main {
        let dir = Scratch::new("c19t");
        let files = vec![WFile { method: mpqref::M_ZLIB, ..WFile::plain(P, b"0123456789 p-content") }, WFile::plain(Q, b"QQQQ q-content")];
        let mut paths = vec![];
        for n in ["a.mpq", "b.mpq", "m.mpq"] {
            let p = dir.path(n);
            std::fs::write(&p, mpqref::write(&files, &WOptions::default()).unwrap()).unwrap();
            paths.push(p);
        }
        let src_file = dir.path("src.txt");
        std::fs::write(&src_file, b"added content").unwrap();
        Main { dir, paths, src_file, sc: scenarios(tier == Tier::Thorough), bound: tier.pick(2, 3) }
    }
    /// run one execution: setup, then the concurrent ops either on loom threads (`order == None`)
    /// or sequentially in the given order; then the probes.  Returns the outcome.
    fn execute(&self, s: &Scenario, order: Option<&[usize]>) -> (Vec<Res>, Vec<usize>) {
        // mutable scenarios modify the archive file: restore a pristine copy per execution
        if s.mutable {
            std::fs::copy(&self.paths[0], &self.paths[2]).unwrap();
        }
        let ctx = Arc::new(Ctx { paths: self.paths.clone(), src_file: self.src_file.clone(), slots: StdMutex::new(vec![]) });
        for (k, op) in s.setup.iter().enumerate() {
            let r = exec(&ctx, op, k);
            assert!(r.ok, "setup call {:?} failed", op);
        }
        let n = s.conc.len();
        let results: Arc<StdMutex<Vec<Vec<Option<Res>>>>> = Arc::new(StdMutex::new(s.conc.iter().map(|t| vec![None; t.len()]).collect()));
        match order {
            Some(ord) => {
                // `ord` lists thread ids; each occurrence runs that thread's next call
                let mut next = vec![0usize; n];
                for &k in ord {
                    let j = next[k];
                    next[k] += 1;
                    let r = exec(&ctx, &s.conc[k][j], 10 + 4 * k + j);
                    results.lock().unwrap()[k][j] = Some(r);
                }
            }
            None => {
                let mut hs = vec![];
                for k in 1..n {
                    let (c2, r2, ops) = (ctx.clone(), results.clone(), s.conc[k].clone());
                    hs.push(loom::thread::spawn(move || {
                        for (j, op) in ops.iter().enumerate() {
                            let r = exec(&c2, op, 10 + 4 * k + j);
                            r2.lock().unwrap()[k][j] = Some(r);
                        }
                    }));
                }
                for (j, op) in s.conc[0].iter().enumerate() {
                    let r = exec(&ctx, op, 10 + j);
                    results.lock().unwrap()[0][j] = Some(r);
                }
                for hnd in hs {
                    hnd.join().unwrap();
                }
            }
        }
        let mut out: Vec<Res> = results.lock().unwrap().iter().flat_map(|t| t.iter().map(|r| r.clone().unwrap_or(Res { ok: false, data: b"<not run>".to_vec() })).collect::<Vec<_>>()).collect();
        for op in &s.probes {
            out.push(exec(&ctx, op, 20));
        }
        // handle ids issued in this execution
        let issued: Vec<usize> = ctx.slots.lock().unwrap().iter().flatten().copied().collect();
        // leave no live handles behind (lazy statics are per execution anyway)
        (out, issued)
    }
}
/// all merges of the threads' call sequences that respect program order (as lists of thread ids)
fn merges(lens: &[usize]) -> Vec<Vec<usize>> {
    fn rec(left: &mut Vec<usize>, cur: &mut Vec<usize>, out: &mut Vec<Vec<usize>>) {
        if left.iter().all(|l| *l == 0) {
            out.push(cur.clone());
            return;
        }
        for k in 0..left.len() {
            if left[k] > 0 {
                left[k] -= 1;
                cur.push(k);
                rec(left, cur, out);
                cur.pop();
                left[k] += 1;
            }
        }
    }
    let mut o = vec![];
    rec(&mut lens.to_vec(), &mut vec![], &mut o);
    o
}

impl Space for Main {
    fn len(&self) -> u64 {
        self.sc.len() as u64
    }
    fn describe(&self, i: u64) -> Value {
        let s = &self.sc[i as usize];
        json!({"scenario": s.name, "threads": s.conc.len(), "calls": s.conc.iter().map(|t| t.len()).sum::<usize>(), "preemption_bound": self.bound, "probes": format!("{:?}", s.probes)})
    }
    fn case_timeout(&self) -> u64 {
        900
    }
    fn run(&self, i: u64) -> CaseResult {
        let s = &self.sc[i as usize];
        let mut r = CaseResult::new();
        r.nontrivial = true;
        r.key = s.name.to_string();
        let _ = &self.dir;
        // 1. sequential outcomes of every order (run inside loom so the same facade is used)
        let mut allowed: BTreeSet<Vec<Res>> = BTreeSet::new();
        for ord in merges(&s.conc.iter().map(|t| t.len()).collect::<Vec<_>>()) {
            let got: Arc<StdMutex<Option<Vec<Res>>>> = Arc::new(StdMutex::new(None));
            let g2 = got.clone();
            let me: &'static Main = unsafe { &*(self as *const Main) };
            let sc: &'static Scenario = unsafe { &*(s as *const Scenario) };
            let ord2 = ord.clone();
            let res = guarded(move || {
                loom::model(move || {
                    let (o, _) = me.execute(sc, Some(&ord2));
                    *g2.lock().unwrap() = Some(o);
                });
            });
            match res {
                Ok(()) => {
                    allowed.insert(got.lock().unwrap().clone().unwrap());
                }
                Err((file, line, msg)) => {
                    r.viol(format!("sequential order of the calls fails under the scheduler: {}", panic_class(&file, &msg)), format!("{} order {:?}: {file}:{line}: {msg}", s.name, ord));
                    return r;
                }
            }
        }
        // 2. all interleavings
        let outcomes: Arc<StdMutex<BTreeSet<Vec<Res>>>> = Arc::new(StdMutex::new(BTreeSet::new()));
        let execs = Arc::new(StdMutex::new(0u64));
        let dup: Arc<StdMutex<Option<String>>> = Arc::new(StdMutex::new(None));
        let (o2, e2, d2) = (outcomes.clone(), execs.clone(), dup.clone());
        let me: &'static Main = unsafe { &*(self as *const Main) };
        let sc: &'static Scenario = unsafe { &*(s as *const Scenario) };
        let mut b = loom::model::Builder::new();
        b.preemption_bound = Some(self.bound);
        let res = guarded(move || {
            b.check(move || {
                let (o, issued) = me.execute(sc, None);
                let set: BTreeSet<usize> = issued.iter().copied().collect();
                if set.len() != issued.len() {
                    *d2.lock().unwrap() = Some(format!("{issued:?}"));
                }
                o2.lock().unwrap().insert(o);
                *e2.lock().unwrap() += 1;
            });
        });
        let execs = *execs.lock().unwrap();
        r.count("schedules_explored", execs);
        if let Err((file, line, msg)) = res {
            let class = if msg.contains("deadlock") { "deadlock".to_string() } else { panic_class(&file, &msg) };
            r.viol(format!("{}: {}", s.name.split(':').next().unwrap().split(" ||").next().unwrap(), class), format!("{}: {file}:{line}: {msg}", s.name));
        }
        if let Some(d) = dup.lock().unwrap().clone() {
            r.viol("the same handle value is issued twice in one execution", format!("{}: {d}", s.name));
        }
        let outs = outcomes.lock().unwrap().clone();
        r.count("distinct_outcomes_over_schedules", outs.len() as u64);
        // SFileCloseArchive takes the archive, file and search tables one after the other.  A thread that
        // issues two calls while another thread's close is in progress can therefore see the close half
        // done (archive gone, one of its handle kinds not yet purged).  The property speaks about what holds
        // once a close has returned, so for scenarios with a CloseArchive and a thread of >= 2 calls an
        // outcome outside the sequential set is accepted when (a) the state after all threads have joined
        // (the probes) equals the end state of some sequential order and (b) every single call returns
        // what that call returns in some sequential order of the scenario, or of the scenario without its
        // CloseArchive calls (the close not yet visible)  Everything else stays strict.
        let ncalls: usize = s.conc.iter().map(|t| t.len()).sum();
        let relax = s.conc.iter().any(|t| t.len() >= 2) && s.conc.iter().flatten().any(|op| matches!(op, Op::CloseArchive(_)));
        // ... or in some sequential order of the same scenario WITHOUT its CloseArchive calls (no close visible yet)
        let mut early: Vec<BTreeSet<Res>> = vec![BTreeSet::new(); ncalls];
        if relax && outs.iter().any(|o| !allowed.contains(o)) {
            let mut map: Vec<usize> = vec![]; // flat index in the variant -> flat index in the scenario
            let mut conc2: Vec<Vec<Op>> = vec![];
            let mut flat = 0usize;
            for t in &s.conc {
                let mut t2 = vec![];
                for op in t {
                    if !matches!(op, Op::CloseArchive(_)) {
                        t2.push(op.clone());
                        map.push(flat);
                    }
                    flat += 1;
                }
                conc2.push(t2);
            }
            // keep the thread positions (output slots depend on the thread number); empty threads are fine
            let tmp: &'static Scenario = Box::leak(Box::new(Scenario { name: String::new(), mutable: s.mutable, setup: s.setup.clone(), conc: conc2, probes: vec![] }));
            for ord in merges(&tmp.conc.iter().map(|t| t.len()).collect::<Vec<_>>()) {
                let got: Arc<StdMutex<Option<Vec<Res>>>> = Arc::new(StdMutex::new(None));
                let g2 = got.clone();
                let me: &'static Main = unsafe { &*(self as *const Main) };
                let res = guarded(move || {
                    loom::model(move || {
                        let (o, _) = me.execute(tmp, Some(&ord));
                        *g2.lock().unwrap() = Some(o);
                    });
                });
                if res.is_ok() {
                    if let Some(v) = got.lock().unwrap().clone() {
                        for (k2, r2) in v.iter().enumerate() {
                            early[map[k2]].insert(r2.clone());
                        }
                    }
                }
            }
        }
        for o in outs.iter() {
            if !allowed.contains(o) && relax {
                let probes_ok = allowed.iter().any(|a| a[ncalls..] == o[ncalls..]);
                let calls_ok = (0..ncalls).all(|k| allowed.iter().any(|a| a[k] == o[k]) || early[k].contains(&o[k]));
                if probes_ok && calls_ok {
                    r.count("close_in_progress_observed_outcomes", 1);
                    continue;
                }
            }
            if !allowed.contains(o) {
                r.viol(
                    format!("{}: an interleaving yields an outcome that no sequential order of the calls yields (not linearizable)", s.name.split(':').next().unwrap()),
                    format!("{}: outcome {:?}; sequential outcomes {:?}", s.name, o.iter().map(|x| (x.ok, String::from_utf8_lossy(&x.data).to_string())).collect::<Vec<_>>(), allowed.iter().map(|a| a.iter().map(|x| (x.ok, String::from_utf8_lossy(&x.data).to_string())).collect::<Vec<_>>()).collect::<Vec<_>>()),
                );
                break;
            }
        }
        r.outcome = format!("{}", outs.len());
        r.payload = Some(json!({"schedules": execs, "outcomes": outs.len(), "sequential_outcomes": allowed.len()}));
        r
    }
}

fn build(name: &str, _arg: &str, tier: Tier) -> Box<dyn Space> {
    match name {
        "threads" => Box::new(Main::new(tier)),
        _ => panic!("space {name}"),
    }
}
fn main() {
    let Mode::Supervisor(mut c) = start("C19", "model_checking", build) else { return };
    let payloads = c.run_space("threads", "");
    let schedules: u64 = payloads.iter().map(|p| p.1["schedules"].as_u64().unwrap_or(0)).sum();
    let outs: u64 = payloads.iter().map(|p| p.1["outcomes"].as_u64().unwrap_or(0)).sum();
    c.extra_cov.insert("states".into(), json!(outs.max(1)));
    c.extra_cov.insert("transitions".into(), json!(schedules.max(1)));
    c.extra_cov.insert("traces_validated_against_impl".into(), json!(schedules));
    c.rule = "thread part: each scenario = setup calls, concurrent C-API calls on shared handles, sequential probes. Scenarios: 23 hand-written; every unordered pair and every unordered triple of single calls (one per loom thread) over 21 read-only and 11 writable calls; every unordered pair of two-call sequences over the same 21 / 11 calls (97 k + 7 k scenarios); thorough adds every unordered triple of two-call sequences over a six-call core on three threads; all interleavings of lock acquisitions up to the preemption bound are executed on the real storm-ffi source (hook H1); every outcome must equal the outcome of one sequential order of the same calls on the same implementation; no deadlock, no panic, no duplicate handle ids. Where a thread issues two calls next to a CloseArchive, an outcome outside the sequential set is accepted only if the end state equals a sequential end state and every call's own result occurs sequentially (a close in progress may be seen half done; counted as close_in_progress_observed_outcomes)".into();
    c.assume("hook H1 (cfg wowrs_verif): storm-ffi's Mutex/LazyLock/thread_local resolve to loom-backed verif_sync; everything between two lock operations is atomic to the explorer");
    c.finish();
}
