use rayon::prelude::*;
use std::collections::BTreeSet;
use std::sync::{Arc, Mutex};
fn main() {
    let outs: Arc<Mutex<BTreeSet<Vec<u32>>>> = Arc::new(Mutex::new(BTreeSet::new()));
    let o2 = outs.clone();
    let mut b = loom::model::Builder::new();
    b.preemption_bound = Some(2);
    b.check(move || {
        let pool = rayon::ThreadPoolBuilder::new().num_threads(2).build().unwrap();
        let v: Vec<u32> = pool.install(|| vec![10u32, 20].into_iter().par_bridge().map(|x| x + 1).collect());
        o2.lock().unwrap().insert(v);
    });
    println!("{:?}", outs.lock().unwrap());
}
