//! Stand-in for `rayon` on **loom threads** (DESIGN.md §2 E3).
//!
//! Models rayon's documented contract, not its implementation: a parallel iterator applies its
//! closures to every item on some worker of the current pool, in any order and any interleaving;
//! indexed adaptors (`map`, `filter`, `collect`) preserve item order in the result; `for_each`
//! promises no order; collecting into `Result` yields some error if any item failed.
//! Each pass runs W workers that claim item indices from a loom atomic, so "claim", "start" and
//! "finish" of every task are scheduling points that loom explores exhaustively (up to the
//! preemption bound).  Bookkeeping uses std mutexes never held across a loom operation.

use loom::sync::atomic::{AtomicUsize, Ordering};
use std::sync::Mutex as StdMutex;

static POOL_THREADS: std::sync::atomic::AtomicUsize = std::sync::atomic::AtomicUsize::new(0);

/// event log of the current loom execution (task start/finish order), for vacuity reporting
pub static EVENT_LOG: StdMutex<Vec<(u8, usize)>> = StdMutex::new(Vec::new());

pub fn default_threads() -> usize {
    std::env::var("VERIF_RAYON_THREADS").ok().and_then(|s| s.parse().ok()).unwrap_or(2)
}

pub fn current_num_threads() -> usize {
    let n = POOL_THREADS.load(std::sync::atomic::Ordering::Relaxed);
    if n == 0 {
        default_threads()
    } else {
        n
    }
}

#[derive(Debug)]
pub struct ThreadPoolBuildError;
impl std::fmt::Display for ThreadPoolBuildError {
    fn fmt(&self, f: &mut std::fmt::Formatter<'_>) -> std::fmt::Result {
        write!(f, "thread pool build error")
    }
}
impl std::error::Error for ThreadPoolBuildError {}

#[derive(Default, Debug)]
pub struct ThreadPoolBuilder {
    n: usize,
}
impl ThreadPoolBuilder {
    pub fn new() -> Self {
        Self { n: 0 }
    }
    pub fn num_threads(mut self, n: usize) -> Self {
        self.n = n;
        self
    }
    pub fn thread_name<F: FnMut(usize) -> String + 'static>(self, _f: F) -> Self {
        self
    }
    pub fn stack_size(self, _s: usize) -> Self {
        self
    }
    pub fn build(self) -> Result<ThreadPool, ThreadPoolBuildError> {
        Ok(ThreadPool { n: if self.n == 0 { default_threads() } else { self.n } })
    }
    pub fn build_global(self) -> Result<(), ThreadPoolBuildError> {
        POOL_THREADS.store(self.n, std::sync::atomic::Ordering::Relaxed);
        Ok(())
    }
}
#[derive(Debug)]
pub struct ThreadPool {
    n: usize,
}
impl ThreadPool {
    pub fn install<R, F: FnOnce() -> R>(&self, f: F) -> R {
        let old = POOL_THREADS.swap(self.n, std::sync::atomic::Ordering::Relaxed);
        let r = f();
        POOL_THREADS.store(old, std::sync::atomic::Ordering::Relaxed);
        r
    }
    pub fn current_num_threads(&self) -> usize {
        self.n
    }
}

/// loom caps a model at 5 threads including the main one
const MAX_WORKERS: usize = 4;

/// Apply `f` to every item on W loom workers; results keep item order.
fn run_pass<I: Send, O: Send>(items: Vec<I>, f: &(dyn Fn(I) -> O + Sync)) -> Vec<O> {
    let n = items.len();
    if n == 0 {
        return vec![];
    }
    let workers = current_num_threads().clamp(1, MAX_WORKERS).min(n);
    let inputs: Vec<StdMutex<Option<I>>> = items.into_iter().map(|i| StdMutex::new(Some(i))).collect();
    let outputs: Vec<StdMutex<Option<O>>> = (0..n).map(|_| StdMutex::new(None)).collect();
    let next = AtomicUsize::new(0);
    let started = AtomicUsize::new(0);
    let done = AtomicUsize::new(0);
    struct Shared<'a, I, O> {
        inputs: &'a [StdMutex<Option<I>>],
        outputs: &'a [StdMutex<Option<O>>],
        next: &'a AtomicUsize,
        started: &'a AtomicUsize,
        done: &'a AtomicUsize,
        f: &'a (dyn Fn(I) -> O + Sync),
    }
    let shared = Shared { inputs: &inputs, outputs: &outputs, next: &next, started: &started, done: &done, f };
    fn work<I, O>(s: &Shared<'_, I, O>) {
        loop {
            let i = s.next.fetch_add(1, Ordering::SeqCst); // claim (scheduling point)
            if i >= s.inputs.len() {
                break;
            }
            let item = s.inputs[i].lock().unwrap().take().expect("item claimed twice");
            EVENT_LOG.lock().unwrap().push((b'S', i));
            // task start: a read-modify-write on a shared loom atomic, i.e. an operation the explorer
            // reorders against the other workers' starts (a bare yield is no branch point: the worker
            // that claimed first would also always run its closure first)
            s.started.fetch_add(1, Ordering::SeqCst);
            let out = (s.f)(item);
            EVENT_LOG.lock().unwrap().push((b'F', i));
            *s.outputs[i].lock().unwrap() = Some(out);
            s.done.fetch_add(1, Ordering::SeqCst); // task finish (scheduling point)
        }
    }
    // erase the borrow's lifetime for loom::thread::spawn; every worker is joined below, before
    // anything borrowed goes out of scope (the scoped-thread argument)
    let ptr: usize = &shared as *const Shared<'_, I, O> as usize;
    let mut handles = vec![];
    for _ in 1..workers {
        let p = ptr;
        let h = loom::thread::spawn(move || {
            let s: &Shared<'_, I, O> = unsafe { &*(p as *const Shared<'_, I, O>) };
            work(s);
        });
        handles.push(h);
    }
    work(&shared);
    for h in handles {
        h.join().expect("worker panicked");
    }
    assert_eq!(done.load(Ordering::SeqCst), n);
    outputs.into_iter().map(|m| m.into_inner().unwrap().expect("slot filled")).collect()
}

pub mod iter {
    use super::run_pass;

    /// Eager parallel iterator: every adaptor that takes a closure is one parallel pass.
    pub struct ParIter<T: Send> {
        pub(crate) items: Vec<T>,
    }

    pub trait ParallelIterator: Sized {
        type Item: Send;
        fn into_items(self) -> Vec<Self::Item>;

        fn map<O: Send, F: Fn(Self::Item) -> O + Sync + Send>(self, f: F) -> ParIter<O> {
            ParIter { items: run_pass(self.into_items(), &f) }
        }
        fn filter<F: Fn(&Self::Item) -> bool + Sync + Send>(self, f: F) -> ParIter<Self::Item> {
            let kept = run_pass(self.into_items(), &|x| if f(&x) { Some(x) } else { None });
            ParIter { items: kept.into_iter().flatten().collect() }
        }
        fn filter_map<O: Send, F: Fn(Self::Item) -> Option<O> + Sync + Send>(self, f: F) -> ParIter<O> {
            ParIter { items: run_pass(self.into_items(), &f).into_iter().flatten().collect() }
        }
        fn flat_map<O: Send, C: IntoIterator<Item = O> + Send, F: Fn(Self::Item) -> C + Sync + Send>(self, f: F) -> ParIter<O> {
            let parts: Vec<Vec<O>> = run_pass(self.into_items(), &|x| f(x).into_iter().collect::<Vec<O>>());
            ParIter { items: parts.into_iter().flatten().collect() }
        }
        fn flatten<O: Send>(self) -> ParIter<O>
        where
            Self::Item: IntoIterator<Item = O>,
        {
            ParIter { items: self.into_items().into_iter().flatten().collect() }
        }
        fn for_each<F: Fn(Self::Item) + Sync + Send>(self, f: F) {
            run_pass(self.into_items(), &|x| f(x));
        }
        // the *_with / *_init family: rayon hands every split its own clone of the initial value (any number
        // of clones is within its contract); here every task gets a fresh clone
        fn for_each_with<T: Send + Clone, F: Fn(&mut T, Self::Item) + Sync + Send>(self, init: T, f: F) {
            let m = std::sync::Mutex::new(init);
            run_pass(self.into_items(), &|x| {
                let mut t = m.lock().unwrap().clone();
                f(&mut t, x)
            });
        }
        fn map_with<T: Send + Clone, O: Send, F: Fn(&mut T, Self::Item) -> O + Sync + Send>(self, init: T, f: F) -> ParIter<O> {
            let m = std::sync::Mutex::new(init);
            ParIter {
                items: run_pass(self.into_items(), &|x| {
                    let mut t = m.lock().unwrap().clone();
                    f(&mut t, x)
                }),
            }
        }
        fn for_each_init<T, I: Fn() -> T + Sync + Send, F: Fn(&mut T, Self::Item) + Sync + Send>(self, init: I, f: F) {
            run_pass(self.into_items(), &|x| {
                let mut t = init();
                f(&mut t, x)
            });
        }
        fn map_init<T, O: Send, I: Fn() -> T + Sync + Send, F: Fn(&mut T, Self::Item) -> O + Sync + Send>(self, init: I, f: F) -> ParIter<O> {
            ParIter {
                items: run_pass(self.into_items(), &|x| {
                    let mut t = init();
                    f(&mut t, x)
                }),
            }
        }
        fn try_for_each<E: Send, F: Fn(Self::Item) -> Result<(), E> + Sync + Send>(self, f: F) -> Result<(), E> {
            for r in run_pass(self.into_items(), &f) {
                r?;
            }
            Ok(())
        }
        fn enumerate(self) -> ParIter<(usize, Self::Item)> {
            ParIter { items: self.into_items().into_iter().enumerate().collect() }
        }
        fn cloned<'a, T: 'a + Clone + Send + Sync>(self) -> ParIter<T>
        where
            Self: ParallelIterator<Item = &'a T>,
        {
            ParIter { items: self.into_items().into_iter().cloned().collect() }
        }
        fn copied<'a, T: 'a + Copy + Send + Sync>(self) -> ParIter<T>
        where
            Self: ParallelIterator<Item = &'a T>,
        {
            ParIter { items: self.into_items().into_iter().copied().collect() }
        }
        fn count(self) -> usize {
            self.into_items().len()
        }
        fn any<F: Fn(Self::Item) -> bool + Sync + Send>(self, f: F) -> bool {
            run_pass(self.into_items(), &f).into_iter().any(|b| b)
        }
        fn all<F: Fn(Self::Item) -> bool + Sync + Send>(self, f: F) -> bool {
            run_pass(self.into_items(), &f).into_iter().all(|b| b)
        }
        fn sum<S: std::iter::Sum<Self::Item> + Send>(self) -> S {
            self.into_items().into_iter().sum()
        }
        fn with_min_len(self, _n: usize) -> ParIter<Self::Item> {
            ParIter { items: self.into_items() }
        }
        fn with_max_len(self, _n: usize) -> ParIter<Self::Item> {
            ParIter { items: self.into_items() }
        }
        fn collect<C: FromParallelIterator<Self::Item>>(self) -> C {
            C::from_par_items(self.into_items())
        }
    }
    pub trait IndexedParallelIterator: ParallelIterator {}
    impl<T: Send> IndexedParallelIterator for ParIter<T> {}

    impl<T: Send> ParallelIterator for ParIter<T> {
        type Item = T;
        fn into_items(self) -> Vec<T> {
            self.items
        }
    }

    pub trait FromParallelIterator<T: Send> {
        fn from_par_items(items: Vec<T>) -> Self;
    }
    impl<T: Send> FromParallelIterator<T> for Vec<T> {
        fn from_par_items(items: Vec<T>) -> Self {
            items
        }
    }
    impl<T: Send, E: Send, C: FromParallelIterator<T>> FromParallelIterator<Result<T, E>> for Result<C, E> {
        fn from_par_items(items: Vec<Result<T, E>>) -> Self {
            // rayon returns *some* error; the first in item order is one admissible choice
            let mut ok = Vec::with_capacity(items.len());
            for r in items {
                ok.push(r?);
            }
            Ok(C::from_par_items(ok))
        }
    }
    impl<T: Send, C: FromParallelIterator<T>> FromParallelIterator<Option<T>> for Option<C> {
        fn from_par_items(items: Vec<Option<T>>) -> Self {
            let mut ok = Vec::with_capacity(items.len());
            for r in items {
                ok.push(r?);
            }
            Some(C::from_par_items(ok))
        }
    }
    impl<K: std::hash::Hash + Eq + Send, V: Send> FromParallelIterator<(K, V)> for std::collections::HashMap<K, V> {
        fn from_par_items(items: Vec<(K, V)>) -> Self {
            items.into_iter().collect()
        }
    }
    impl<K: Ord + Send, V: Send> FromParallelIterator<(K, V)> for std::collections::BTreeMap<K, V> {
        fn from_par_items(items: Vec<(K, V)>) -> Self {
            items.into_iter().collect()
        }
    }
    impl FromParallelIterator<String> for String {
        fn from_par_items(items: Vec<String>) -> Self {
            items.concat()
        }
    }

    pub trait IntoParallelIterator {
        type Item: Send;
        type Iter: ParallelIterator<Item = Self::Item>;
        fn into_par_iter(self) -> Self::Iter;
    }
    impl<T: Send> IntoParallelIterator for Vec<T> {
        type Item = T;
        type Iter = ParIter<T>;
        fn into_par_iter(self) -> ParIter<T> {
            ParIter { items: self }
        }
    }
    impl<'a, T: Sync + 'a> IntoParallelIterator for &'a Vec<T> {
        type Item = &'a T;
        type Iter = ParIter<&'a T>;
        fn into_par_iter(self) -> ParIter<&'a T> {
            ParIter { items: self.iter().collect() }
        }
    }
    impl<'a, T: Sync + 'a> IntoParallelIterator for &'a [T] {
        type Item = &'a T;
        type Iter = ParIter<&'a T>;
        fn into_par_iter(self) -> ParIter<&'a T> {
            ParIter { items: self.iter().collect() }
        }
    }
    impl IntoParallelIterator for std::ops::Range<usize> {
        type Item = usize;
        type Iter = ParIter<usize>;
        fn into_par_iter(self) -> ParIter<usize> {
            ParIter { items: self.collect() }
        }
    }
    impl IntoParallelIterator for std::ops::Range<u32> {
        type Item = u32;
        type Iter = ParIter<u32>;
        fn into_par_iter(self) -> ParIter<u32> {
            ParIter { items: self.collect() }
        }
    }
    impl<T: Send> IntoParallelIterator for ParIter<T> {
        type Item = T;
        type Iter = ParIter<T>;
        fn into_par_iter(self) -> ParIter<T> {
            self
        }
    }

    pub trait IntoParallelRefIterator<'a> {
        type Item: Send + 'a;
        fn par_iter(&'a self) -> ParIter<Self::Item>;
    }
    impl<'a, T: Sync + 'a> IntoParallelRefIterator<'a> for [T] {
        type Item = &'a T;
        fn par_iter(&'a self) -> ParIter<&'a T> {
            ParIter { items: self.iter().collect() }
        }
    }
    impl<'a, T: Sync + 'a> IntoParallelRefIterator<'a> for Vec<T> {
        type Item = &'a T;
        fn par_iter(&'a self) -> ParIter<&'a T> {
            ParIter { items: self.iter().collect() }
        }
    }
    impl<'a, K: Sync + 'a + Eq + std::hash::Hash, V: Sync + 'a> IntoParallelRefIterator<'a> for std::collections::HashMap<K, V> {
        type Item = (&'a K, &'a V);
        fn par_iter(&'a self) -> ParIter<(&'a K, &'a V)> {
            ParIter { items: self.iter().collect() }
        }
    }
    pub trait IntoParallelRefMutIterator<'a> {
        type Item: Send + 'a;
        fn par_iter_mut(&'a mut self) -> ParIter<Self::Item>;
    }
    impl<'a, T: Send + 'a> IntoParallelRefMutIterator<'a> for [T] {
        type Item = &'a mut T;
        fn par_iter_mut(&'a mut self) -> ParIter<&'a mut T> {
            ParIter { items: self.iter_mut().collect() }
        }
    }
    impl<'a, T: Send + 'a> IntoParallelRefMutIterator<'a> for Vec<T> {
        type Item = &'a mut T;
        fn par_iter_mut(&'a mut self) -> ParIter<&'a mut T> {
            ParIter { items: self.iter_mut().collect() }
        }
    }

    /// `par_bridge`: items are handed out in iterator order but results carry no order promise;
    /// the stand-in returns them in *completion* order of the current schedule.
    pub trait ParallelBridge: Sized {
        type Item: Send;
        fn par_bridge(self) -> Bridged<Self::Item>;
    }
    impl<I: Iterator + Send> ParallelBridge for I
    where
        I::Item: Send,
    {
        type Item = I::Item;
        fn par_bridge(self) -> Bridged<I::Item> {
            Bridged { items: self.collect() }
        }
    }
    pub struct Bridged<T: Send> {
        items: Vec<T>,
    }
    impl<T: Send> Bridged<T> {
        fn run<O: Send>(self, f: &(dyn Fn(T) -> O + Sync)) -> Vec<O> {
            let order = std::sync::Mutex::new(Vec::new());
            let n = self.items.len();
            let outs = run_pass(self.items.into_iter().enumerate().collect(), &|(i, x): (usize, T)| {
                let o = f(x);
                order.lock().unwrap().push(i);
                o
            });
            let mut slots: Vec<Option<O>> = outs.into_iter().map(Some).collect();
            let ord = order.into_inner().unwrap();
            assert_eq!(ord.len(), n);
            ord.into_iter().map(|i| slots[i].take().unwrap()).collect()
        }
        pub fn map<O: Send, F: Fn(T) -> O + Sync + Send>(self, f: F) -> ParIter<O> {
            ParIter { items: self.run(&f) }
        }
        pub fn filter_map<O: Send, F: Fn(T) -> Option<O> + Sync + Send>(self, f: F) -> ParIter<O> {
            ParIter { items: self.run(&f).into_iter().flatten().collect() }
        }
        pub fn for_each<F: Fn(T) + Sync + Send>(self, f: F) {
            self.run(&|x| f(x));
        }
    }
}

pub mod slice {
    use super::iter::ParIter;
    pub trait ParallelSlice<T: Sync> {
        fn as_parallel_slice(&self) -> &[T];
        fn par_chunks(&self, n: usize) -> ParIter<&[T]> {
            ParIter { items: self.as_parallel_slice().chunks(n).collect() }
        }
        fn par_windows(&self, n: usize) -> ParIter<&[T]> {
            ParIter { items: self.as_parallel_slice().windows(n).collect() }
        }
    }
    impl<T: Sync> ParallelSlice<T> for [T] {
        fn as_parallel_slice(&self) -> &[T] {
            self
        }
    }
    pub trait ParallelSliceMut<T: Send> {
        fn as_parallel_slice_mut(&mut self) -> &mut [T];
        fn par_sort(&mut self)
        where
            T: Ord,
        {
            self.as_parallel_slice_mut().sort()
        }
        fn par_sort_unstable(&mut self)
        where
            T: Ord,
        {
            self.as_parallel_slice_mut().sort_unstable()
        }
        fn par_sort_by<F: Fn(&T, &T) -> std::cmp::Ordering + Sync>(&mut self, f: F) {
            self.as_parallel_slice_mut().sort_by(f)
        }
        fn par_sort_by_key<K: Ord, F: Fn(&T) -> K + Sync>(&mut self, f: F) {
            self.as_parallel_slice_mut().sort_by_key(f)
        }
        fn par_chunks_mut(&mut self, n: usize) -> ParIter<&mut [T]> {
            ParIter { items: self.as_parallel_slice_mut().chunks_mut(n).collect() }
        }
    }
    impl<T: Send> ParallelSliceMut<T> for [T] {
        fn as_parallel_slice_mut(&mut self) -> &mut [T] {
            self
        }
    }
}

pub mod prelude {
    pub use crate::iter::{
        FromParallelIterator, IndexedParallelIterator, IntoParallelIterator, IntoParallelRefIterator, IntoParallelRefMutIterator, ParallelBridge, ParallelIterator,
    };
    pub use crate::slice::{ParallelSlice, ParallelSliceMut};
}

/// run two closures "in parallel" (second one on a loom thread)
pub fn join<A: FnOnce() -> RA + Send, B: FnOnce() -> RB + Send, RA: Send, RB: Send>(a: A, b: B) -> (RA, RB) {
    let slot: StdMutex<Option<RB>> = StdMutex::new(None);
    let b_cell: StdMutex<Option<B>> = StdMutex::new(Some(b));
    let ctx = (&slot, &b_cell);
    let p = &ctx as *const (&StdMutex<Option<RB>>, &StdMutex<Option<B>>) as usize;
    let h = loom::thread::spawn(move || {
        let c: &(&StdMutex<Option<RB>>, &StdMutex<Option<B>>) = unsafe { &*(p as *const (&StdMutex<Option<RB>>, &StdMutex<Option<B>>)) };
        let f = c.1.lock().unwrap().take().unwrap();
        let r = f();
        *c.0.lock().unwrap() = Some(r);
    });
    let ra = a();
    h.join().expect("join arm panicked");
    let rb = slot.into_inner().unwrap().unwrap();
    (ra, rb)
}
