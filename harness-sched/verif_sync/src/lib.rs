//! `Mutex`, `LazyLock` and `thread_local!` backed by loom, for the storm-ffi handle tables.
pub use loom;
pub use loom::sync::Mutex;

/// `std::sync::LazyLock` look-alike over `loom::lazy_static::Lazy`: re-initialised for every
/// execution of a loom model, initialisation is itself a scheduling point.
pub struct LazyLock<T: 'static> {
    inner: loom::lazy_static::Lazy<T>,
}
impl<T: 'static> LazyLock<T> {
    pub const fn new(f: fn() -> T) -> Self {
        LazyLock { inner: loom::lazy_static::Lazy { init: f, _p: std::marker::PhantomData } }
    }
}
impl<T: 'static> std::ops::Deref for LazyLock<T> {
    type Target = T;
    fn deref(&self) -> &T {
        // LazyLock values only ever live in statics
        let s: &'static LazyLock<T> = unsafe { &*(self as *const LazyLock<T>) };
        s.inner.get()
    }
}
unsafe impl<T: 'static + Sync> Sync for LazyLock<T> {}

/// accepts the `static NAME: T = const { expr };` form used by storm-ffi
#[macro_export]
macro_rules! thread_local {
    ($(#[$a:meta])* $v:vis static $n:ident : $t:ty = const { $e:expr } ; $($rest:tt)*) => {
        $crate::loom::thread_local! { $(#[$a])* $v static $n: $t = $e; }
        $crate::thread_local! { $($rest)* }
    };
    ($(#[$a:meta])* $v:vis static $n:ident : $t:ty = $e:expr ; $($rest:tt)*) => {
        $crate::loom::thread_local! { $(#[$a])* $v static $n: $t = $e; }
        $crate::thread_local! { $($rest)* }
    };
    () => {};
}
