//! MPQ configuration axes, name pools with forced hash-slot collisions, and archive building
//! through the real `ArchiveBuilder`.
use refimpl::mpqcrypt;
use serde_json::{json, Value};
use wow_mpq::{ArchiveBuilder, AttributesOption, FormatVersion, ListfileOption};

pub const VERSIONS: [FormatVersion; 4] = [FormatVersion::V1, FormatVersion::V2, FormatVersion::V3, FormatVersion::V4];
pub const COMP_NAMES: [&str; 8] = ["none", "zlib", "bzip2", "lzma", "sparse", "pkware", "adpcm_mono+zlib", "adpcm_stereo+zlib"];
pub const COMP_FLAGS: [u8; 8] = [0x00, 0x02, 0x10, 0x12, 0x20, 0x08, 0x42, 0x82];
pub const CRYPTO_NAMES: [&str; 3] = ["plain", "encrypted", "encrypted+fixkey"];
pub const ATTR_NAMES: [&str; 3] = ["none", "crc32", "full"];

#[derive(Clone, Debug)]
pub struct Config {
    pub version: usize, // 0..4
    pub shift: u16,
    pub comp: usize,   // index into COMP_*
    pub crypto: usize, // 0 plain, 1 enc, 2 enc+fix
    pub crc: bool,
    pub attrs: usize, // 0 none 1 crc32 2 full
    pub listfile: bool,
    pub tcomp: bool,
}
impl Config {
    pub fn json(&self) -> Value {
        json!({"version": format!("V{}", self.version + 1), "shift": self.shift, "compression": COMP_NAMES[self.comp],
               "crypto": CRYPTO_NAMES[self.crypto], "sector_crc": self.crc, "attributes": ATTR_NAMES[self.attrs],
               "listfile": self.listfile, "table_compression": self.tcomp})
    }
    pub fn sector(&self) -> usize {
        512usize << self.shift
    }
    pub fn lossy(&self) -> bool {
        self.comp >= 6
    }
    pub fn builder(&self) -> ArchiveBuilder {
        let mut b = ArchiveBuilder::new()
            .version(VERSIONS[self.version])
            .block_size(self.shift)
            .default_compression(COMP_FLAGS[self.comp])
            .generate_crcs(self.crc)
            .listfile_option(if self.listfile { ListfileOption::Generate } else { ListfileOption::None })
            .attributes_option(match self.attrs {
                0 => AttributesOption::None,
                1 => AttributesOption::GenerateCrc32,
                _ => AttributesOption::GenerateFull,
            });
        // attributes_option() switches sector checksums on as a side effect: to get the configuration the
        // axes name (attributes WITHOUT sector checksums), the checksum option has to be given after it
        if !self.crc && self.attrs != 0 {
            b = b.generate_crcs(false);
        }
        if self.tcomp {
            b = b.compress_tables(true);
        }
        b
    }
    /// add one file honouring the crypto axis
    pub fn add(&self, b: ArchiveBuilder, name: &str, data: Vec<u8>) -> ArchiveBuilder {
        match self.crypto {
            0 => b.add_file_data_with_options(data, name, COMP_FLAGS[self.comp], false, 0),
            1 => b.add_file_data_with_encryption(data, name, COMP_FLAGS[self.comp], false, 0),
            _ => b.add_file_data_with_encryption(data, name, COMP_FLAGS[self.comp], true, 0),
        }
    }
}

/// spellings of a name that differ only in ASCII case or slash direction
pub fn spellings(name: &str) -> Vec<String> {
    let flip = |s: &str| -> String { s.chars().map(|c| if c == '\\' { '/' } else if c == '/' { '\\' } else { c }).collect() };
    let mut v = vec![name.to_string(), name.to_ascii_uppercase(), name.to_ascii_lowercase(), flip(name), flip(&name.to_ascii_uppercase())];
    v.dedup();
    v
}
pub fn fold(name: &str) -> String {
    name.chars().map(|c| if c == '/' { '\\' } else { c.to_ascii_uppercase() }).collect()
}

/// `n` names whose hash-table start slot collides modulo `modulus` (a power of two), drawn from a
/// deterministic candidate stream that mixes case, separators and nested directories.
pub fn colliding_names(n: usize, modulus: u32, slot: u32) -> Vec<String> {
    let dirs = ["", "Dir\\", "dir/Sub\\", "A/b/C/", "Interface\\Icons\\"];
    let exts = [".txt", ".BLP", ".m2", ".Dat"];
    let mut out = vec![];
    let mut k = 0u32;
    while out.len() < n {
        let name = format!("{}File{}{}", dirs[(k as usize) % dirs.len()], k, exts[(k as usize / 5) % exts.len()]);
        if mpqcrypt::hash_name(name.as_bytes(), 0) % modulus == slot {
            out.push(name);
        }
        k += 1;
        assert!(k < 1_000_000);
    }
    out
}

/// a name that was never added but whose start slot collides with `slot`
pub fn absent_colliding(modulus: u32, slot: u32) -> String {
    let mut k = 0u32;
    loop {
        let name = format!("Absent\\Nope{}.bin", k);
        if mpqcrypt::hash_name(name.as_bytes(), 0) % modulus == slot {
            return name;
        }
        k += 1;
    }
}
