//! C01 — MPQ build→open round-trip over the full configuration product.
use mpqx::*;
use serde_json::{json, Value};
use vcore::*;
use wow_mpq::Archive;

struct Main {
    shifts: Vec<u16>,
    big_max_shift: u16,
    radices: Vec<u64>,
    scratch: Scratch,
}
// axes, fastest first: texture, comp, crypto, crc, attrs, listfile, tcomp, shift, version
impl Main {
    fn new(tier: Tier) -> Main {
        let shifts: Vec<u16> = tier.pick(vec![0, 1, 3, 5, 8], (0..=8).collect());
        let radices = vec![6, 8, 3, 2, 3, 2, 2, shifts.len() as u64, 4];
        Main { shifts, big_max_shift: tier.pick(3, 5), radices, scratch: Scratch::new("c01") }
    }
    fn decode(&self, i: u64) -> (Config, usize) {
        let d = gen::mixed_radix(i, &self.radices);
        let cfg = Config {
            comp: d[1] as usize,
            crypto: d[2] as usize,
            crc: d[3] == 1,
            attrs: d[4] as usize,
            listfile: d[5] == 0,
            tcomp: d[6] == 1,
            shift: self.shifts[d[7] as usize],
            version: d[8] as usize,
        };
        (cfg, d[0] as usize)
    }
    fn lengths(&self, cfg: &Config) -> Vec<usize> {
        gen::length_ladder(cfg.sector(), cfg.shift <= self.big_max_shift)
    }
}

fn check_archive(cfg: &Config, path: &std::path::Path, files: &[(String, Vec<u8>)], r: &mut CaseResult) {
    let mut a = match Archive::open(path) {
        Ok(a) => a,
        Err(e) => {
            r.viol("built archive does not open", format!("{e}"));
            return;
        }
    };
    for (name, data) in files {
        // every spelling for files up to two sectors; as-added + (upper, slashes flipped) for larger ones
        let sps = spellings(name);
        let sps: Vec<String> = if data.len() <= 2 * cfg.sector() + 1 && data.len() <= 9000 { sps } else { vec![sps[0].clone(), sps[sps.len() - 1].clone()] };
        for sp in sps {
            match a.read_file(&sp) {
                Ok(got) => {
                    if cfg.lossy() {
                        if got.len() != data.len() {
                            r.viol("lossy codec: read_file length differs", format!("{sp}: {} vs {}", got.len(), data.len()));
                        }
                    } else if &got != data {
                        let class = if got.len() != data.len() { "wrong length" } else { "same length, wrong bytes" };
                        r.viol(
                            format!("read_file returns Ok with different content ({class})"),
                            format!("name={sp} len={} got_len={} sectors={}", data.len(), got.len(), data.len().div_ceil(cfg.sector())),
                        );
                    }
                }
                Err(e) => {
                    if !cfg.lossy() {
                        r.viol("read_file of an added file fails", format!("name={sp} len={} err={e}", data.len()));
                    }
                }
            }
            if !r.viols.is_empty() {
                return; // one class per case is enough; keeps the run fast on broken trees
            }
            match a.find_file(&sp) {
                Ok(Some(fi)) => {
                    if fi.file_size != data.len() as u64 {
                        r.viol("find_file reports wrong size", format!("name={sp} {} vs {}", fi.file_size, data.len()));
                    }
                }
                Ok(None) => r.viol("find_file does not find an added file", format!("name={sp}")),
                Err(e) => r.viol("find_file errors on an added file", format!("name={sp} {e}")),
            }
        }
    }
    // never-added names
    let first = &files[0].0;
    let slot = refimpl::mpqcrypt::hash_name(first.as_bytes(), 0) % 32;
    let mut absent = vec![absent_colliding(32, slot), format!("{}u", &first[..first.len() - 1]), "\u{fc}ber.txt".to_string()];
    absent.push(format!("{first}x"));
    for n in absent {
        if files.iter().any(|(f, _)| fold(f) == fold(&n)) {
            continue;
        }
        match a.read_file(&n) {
            Err(wow_mpq::Error::FileNotFound(_)) => {}
            Err(e) => r.viol("never-added name: error other than not-found", format!("{n}: {e}")),
            Ok(b) => r.viol("never-added name resolves to content", format!("{n}: {} bytes", b.len())),
        }
        match a.find_file(&n) {
            Ok(None) => {}
            Ok(Some(_)) => r.viol("never-added name is found by find_file", n.clone()),
            Err(e) => r.viol("find_file errors on never-added name", format!("{n}: {e}")),
        }
    }
    if cfg.listfile && !cfg.lossy() {
        match a.list() {
            Ok(entries) => {
                let mut got: Vec<(String, u64)> = entries.iter().map(|e| (fold(&e.name), e.size)).collect();
                got.sort();
                let mut want: Vec<(String, Option<u64>)> = files.iter().map(|(n, d)| (fold(n), Some(d.len() as u64))).collect();
                want.push(("(LISTFILE)".into(), None));
                if cfg.attrs != 0 {
                    want.push(("(ATTRIBUTES)".into(), None));
                }
                want.sort();
                let gn: Vec<&String> = got.iter().map(|x| &x.0).collect();
                let wn: Vec<&String> = want.iter().map(|x| &x.0).collect();
                if gn != wn {
                    r.viol("list() names differ from added names plus special files", format!("got={gn:?} want={wn:?}"));
                } else {
                    for (g, w) in got.iter().zip(want.iter()) {
                        if let Some(sz) = w.1 {
                            if g.1 != sz {
                                r.viol("list() reports wrong size", format!("{}: {} vs {}", g.0, g.1, sz));
                            }
                        }
                    }
                }
            }
            Err(e) => r.viol("list() fails on an archive with listfile", format!("{e}")),
        }
    }
}

impl Space for Main {
    fn len(&self) -> u64 {
        gen::product(&self.radices)
    }
    fn describe(&self, i: u64) -> Value {
        let (cfg, t) = self.decode(i);
        let mut v = cfg.json();
        v["texture"] = json!(gen::TEXTURES[t]);
        v["lengths"] = json!(self.lengths(&cfg));
        v
    }
    fn case_timeout(&self) -> u64 {
        120
    }
    fn run(&self, i: u64) -> CaseResult {
        let (cfg, t) = self.decode(i);
        let mut r = CaseResult::new();
        if cfg.tcomp && cfg.version < 2 {
            // table compression exists for V3+ only: not a distinct configuration
            r.outcome = "skip-tcomp-v1v2".into();
            return r;
        }
        let lens = self.lengths(&cfg);
        let names = colliding_names(lens.len(), 32, 7);
        let mut files: Vec<(String, Vec<u8>)> =
            lens.iter().enumerate().map(|(k, &l)| (names[k].clone(), gen::content(gen::TEXTURES[t], l, cfg.sector(), k as u64))).collect();
        // compression break-even sweep (shift 0, first texture, real codecs): one sector of k incompressible
        // bytes followed by zeros for every k in a window: somewhere in it method byte + payload is exactly
        // as long as the plain sector, the point where "stored raw" and "stored compressed" must be told apart
        if cfg.shift == 0 && t == 0 && (1..=4).contains(&cfg.comp) {
            let s = cfg.sector();
            for k in ((s - 140)..=s).step_by(1) {
                let mut d = gen::content("incompressible", k, s, 31);
                d.resize(s, 0);
                files.push((format!("sweep\\k{k:04}.bin"), d));
            }
        }
        // one name with non-ASCII characters (the MPQ hash folds ASCII only)
        files.push(("Dir\\\u{dc}n\u{ef}-c\u{f6}d\u{e9} \u{b5}.txt".to_string(), gen::content(gen::TEXTURES[t], 7, cfg.sector(), 99)));
        let path = self.scratch.path(&format!("a{i}.mpq"));
        let build = |fs: &[(String, Vec<u8>)]| {
            let mut b = cfg.builder();
            for (n, d) in fs {
                b = cfg.add(b, n, d.clone());
            }
            let _ = std::fs::remove_file(&path);
            b.build(&path)
        };
        r.key = format!("{:?}/{}", cfg, t);
        match build(&files) {
            Ok(()) => {
                r.nontrivial = true;
                r.outcome = "built".into();
                check_archive(&cfg, &path, &files, &mut r);
                r.count("archives_checked", 1);
                r.count("files_checked", files.len() as u64);
            }
            Err(e) => {
                // legitimate refusal; find out which single files the builder accepts and check those
                r.outcome = format!("build-err:{}", panic_class("", &e.to_string()));
                if path.exists() {
                    r.viol("build returned Err but left a file at the destination", format!("{e}"));
                }
                let mut any = false;
                for f in &files {
                    let one = vec![f.clone()];
                    if build(&one).is_ok() {
                        any = true;
                        check_archive(&cfg, &path, &one, &mut r);
                        r.count("archives_checked", 1);
                        r.count("files_checked", 1);
                    }
                    if !r.viols.is_empty() {
                        break;
                    }
                }
                r.nontrivial = any;
                r.err_return = !any;
            }
        }
        let _ = std::fs::remove_file(&path);
        r
    }
}

/// per-file options: one archive holds a file for every (compression x crypto) pair at once, so that state
/// carried from one file to the next (flags, keys, positions) is exercised
struct Mixed {
    shifts: Vec<u16>,
    radices: Vec<u64>, // order(2) crc(2) attrs(3) listfile(2) shift version(4)
    scratch: Scratch,
}
impl Mixed {
    fn new(tier: Tier) -> Mixed {
        let shifts: Vec<u16> = tier.pick(vec![0, 3], vec![0, 1, 3, 5]);
        Mixed { radices: vec![2, 2, 3, 2, shifts.len() as u64, 4], shifts, scratch: Scratch::new("c01m") }
    }
    fn decode(&self, i: u64) -> (Config, bool) {
        let d = gen::mixed_radix(i, &self.radices);
        (Config { comp: 1, crypto: 0, crc: d[1] == 1, attrs: d[2] as usize, listfile: d[3] == 0, tcomp: false, shift: self.shifts[d[4] as usize], version: d[5] as usize }, d[0] == 1)
    }
}
impl Space for Mixed {
    fn len(&self) -> u64 {
        gen::product(&self.radices)
    }
    fn describe(&self, i: u64) -> Value {
        let (cfg, rev) = self.decode(i);
        let mut v = cfg.json();
        v["compression"] = json!("per file: every codec");
        v["crypto"] = json!("per file: plain, encrypted, encrypted+fixkey");
        v["file_order_reversed"] = json!(rev);
        v
    }
    fn case_timeout(&self) -> u64 {
        120
    }
    fn run(&self, i: u64) -> CaseResult {
        let (cfg, rev) = self.decode(i);
        let mut r = CaseResult::new();
        r.key = format!("mixed{i}");
        let s = cfg.sector();
        // lossless codecs only (0..=5), three crypto modes, two lengths (within one sector / three sectors)
        let mut combos: Vec<(usize, usize, usize)> = vec![];
        for comp in 0..6usize {
            for crypto in 0..3usize {
                for (li, _) in [s / 2 + 3, 2 * s + 9].iter().enumerate() {
                    combos.push((comp, crypto, li));
                }
            }
        }
        if rev {
            combos.reverse();
        }
        let names = colliding_names(combos.len(), 64, 11);
        let mut b = cfg.builder();
        let mut files: Vec<(String, Vec<u8>)> = vec![];
        for (k, (comp, crypto, li)) in combos.iter().enumerate() {
            let len = [s / 2 + 3, 2 * s + 9][*li];
            let data = gen::content(gen::TEXTURES[k % 4], len, s, k as u64);
            let c = Config { comp: *comp, crypto: *crypto, ..cfg.clone() };
            b = c.add(b, &names[k], data.clone());
            files.push((names[k].clone(), data));
        }
        let path = self.scratch.path(&format!("m{i}.mpq"));
        match b.build(&path) {
            Ok(()) => {
                r.nontrivial = true;
                r.outcome = "built".into();
                check_archive(&cfg, &path, &files, &mut r);
                r.count("archives_checked", 1);
                r.count("files_checked", files.len() as u64);
            }
            Err(e) => {
                // PKWare refuses inputs its imploder cannot round-trip: retry without the pkware files
                let keep: Vec<usize> = (0..combos.len()).filter(|k| combos[*k].0 != 5).collect();
                let mut b2 = cfg.builder();
                let mut f2 = vec![];
                for &k in &keep {
                    let c = Config { comp: combos[k].0, crypto: combos[k].1, ..cfg.clone() };
                    b2 = c.add(b2, &files[k].0, files[k].1.clone());
                    f2.push(files[k].clone());
                }
                let _ = std::fs::remove_file(&path);
                match b2.build(&path) {
                    Ok(()) => {
                        r.nontrivial = true;
                        r.outcome = "built-without-pkware".into();
                        check_archive(&cfg, &path, &f2, &mut r);
                        r.count("archives_checked", 1);
                        r.count("files_checked", f2.len() as u64);
                    }
                    Err(_) => {
                        r.err_return = true;
                        r.outcome = format!("build-err:{}", panic_class("", &e.to_string()));
                    }
                }
            }
        }
        let _ = std::fs::remove_file(&path);
        r
    }
}

/// "any set of files": the number of files is an axis of its own — table sizes (classic hash table growth,
/// HET/BET index widths), block tables above one sector, the generated listfile and (attributes) sizes
/// all depend on it and on nothing else
struct Counts {
    counts: Vec<usize>,
    radices: Vec<u64>, // crypto(2) attrs(2: none/full) listfile(2) tcomp(2) version(4) count
    scratch: Scratch,
}
impl Counts {
    fn new(tier: Tier) -> Counts {
        let counts: Vec<usize> = tier.pick(vec![0, 1, 2, 16, 17, 257, 1025], vec![0, 1, 2, 3, 7, 8, 9, 15, 16, 17, 31, 32, 33, 63, 64, 65, 127, 128, 129, 255, 256, 257, 511, 512, 513, 1023, 1024, 1025, 2049, 4097, 8193]);
        Counts { radices: vec![2, 2, 2, 2, 4, counts.len() as u64], counts, scratch: Scratch::new("c01c") }
    }
    fn decode(&self, i: u64) -> (Config, usize) {
        let d = gen::mixed_radix(i, &self.radices);
        (Config { comp: 1, crypto: d[0] as usize, crc: false, attrs: if d[1] == 1 { 2 } else { 0 }, listfile: d[2] == 0, tcomp: d[3] == 1, shift: 3, version: d[4] as usize }, self.counts[d[5] as usize])
    }
}
impl Space for Counts {
    fn len(&self) -> u64 {
        gen::product(&self.radices)
    }
    fn describe(&self, i: u64) -> Value {
        let (cfg, n) = self.decode(i);
        let mut v = cfg.json();
        v["space"] = json!("counts");
        v["file_count"] = json!(n);
        v
    }
    fn case_timeout(&self) -> u64 {
        300
    }
    fn run(&self, i: u64) -> CaseResult {
        let (cfg, n) = self.decode(i);
        let mut r = CaseResult::new();
        r.key = format!("counts{i}");
        if cfg.tcomp && cfg.version < 2 {
            r.outcome = "skipped: table compression needs V3/V4".into();
            return r;
        }
        // names in a few directories, mixed case; contents of 0..40 bytes derived from the index
        let files: Vec<(String, Vec<u8>)> = (0..n)
            .map(|k| {
                let name = match k % 4 {
                    0 => format!("Dir{}\\File{:05}.dat", k % 7, k),
                    1 => format!("dir{}/sub/f{:05}.TXT", k % 5, k),
                    2 => format!("F{:05}", k),
                    _ => format!("World\\Maps\\m{}\\t_{:05}.adt", k % 3, k),
                };
                (name, gen::content(gen::TEXTURES[k % 4], (k * 7) % 41, 4096, k as u64))
            })
            .collect();
        let mut b = cfg.builder();
        for (nm, d) in &files {
            b = cfg.add(b, nm, d.clone());
        }
        let path = self.scratch.path(&format!("n{i}.mpq"));
        match b.build(&path) {
            Ok(()) => {
                r.nontrivial = n > 0;
                r.outcome = "built".into();
                if files.is_empty() {
                    // the empty archive: must open, list nothing but special files, and find nothing
                    match Archive::open(&path) {
                        Ok(mut a) => {
                            // the listing clause holds for archives that carry a listfile (without one, list()
                            // enumerates the tables under generated names, e.g. the (attributes) entry)
                            if !cfg.listfile {
                            } else if let Ok(l) = a.list() {
                                let extra: Vec<String> = l.iter().map(|e| e.name.clone()).filter(|x| !x.starts_with('(')).collect();
                                if !extra.is_empty() {
                                    r.viol("empty archive lists names that were never added", format!("{extra:?}"));
                                }
                            }
                            if !matches!(a.read_file("F00000"), Err(wow_mpq::Error::FileNotFound(_))) {
                                r.viol("empty archive: never-added name is not reported as not found", "F00000");
                            }
                        }
                        Err(e) => r.viol("built archive does not open", format!("empty archive: {e}")),
                    }
                } else {
                    check_archive(&cfg, &path, &files, &mut r);
                }
                r.count("archives_checked", 1);
                r.count("files_checked", files.len() as u64);
            }
            Err(e) => {
                r.err_return = true;
                r.outcome = format!("build-err:{}", panic_class("", &e.to_string()));
            }
        }
        let _ = std::fs::remove_file(&path);
        r
    }
}

fn build(name: &str, _arg: &str, tier: Tier) -> Box<dyn Space> {
    match name {
        "counts" => Box::new(Counts::new(tier)),
        "main" => Box::new(Main::new(tier)),
        "mixed" => Box::new(Mixed::new(tier)),
        _ => panic!("space {name}"),
    }
}

fn main() {
    let Mode::Supervisor(mut c) = start("C01", "exploration", build) else { return };
    c.rule = "full product version x sector shift x compression x crypto x sector CRC x attributes x listfile x table compression x content texture; each case builds one archive holding one file per boundary length (0..5, S-1, S, S+1, 2S, 2S+1, 5S+3) under names that collide in the hash-table start slot, then reads every file under 5 spellings, probes never-added names and compares list(). Space `counts`: number of files {0,1,2,16,17,257,1025} (thorough: 31 values 0..8193 around every power of two) x version x listfile x table compression x attributes {none,full} x crypto {plain,encrypted}, small contents, names in several directories; same oracle. Space `mixed`: per-file options (every lossless codec x 3 crypto modes x 2 lengths) inside one archive, both insertion orders. Non-trivial = the builder produced an archive; distinct by (configuration, texture).".into();
    c.assume("ADPCM selectors are lossy: only length is compared for them, and the listing clause is not judged (the generated listfile itself is stored with the lossy default method)");
    c.assume("build() returning Err is a legitimate refusal (counted); the same files are then retried one per archive");
    c.assume("table compression is only a distinct configuration for V3/V4 (skipped for V1/V2)");
    c.run_space("mixed", "");
    c.run_space("counts", "");
    c.run_space("main", "");
    c.extra_cov.insert("axes".into(), json!({"version": 4, "shift": if c.tier == Tier::Quick { json!([0,1,3,5,8]) } else { json!("0..=8") }, "compression": COMP_NAMES, "crypto": CRYPTO_NAMES, "sector_crc": 2, "attributes": ATTR_NAMES, "listfile": 2, "table_compression": 2, "texture": gen::TEXTURES}));
    c.finish();
}
