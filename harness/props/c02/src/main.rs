//! C02 — interoperability with an independent implementation (refimpl::mpqref), both directions.
use mpqx::*;
use refimpl::mpqref::{self, WFile, WOptions};
use serde_json::{json, Value};
use vcore::*;
use wow_mpq::Archive;

const COMP3: [usize; 3] = [0, 1, 2]; // none, zlib, bzip2 (indices into mpqx::COMP_*)

fn names_for(n: usize) -> Vec<String> {
    // colliding start slots (mod 32), nested directories, mixed case and separators
    colliding_names(n, 32, 7)
}

struct LibToRef {
    shifts: Vec<u16>,
    radices: Vec<u64>,
    big: bool,
    scratch: Scratch,
}
// axes: texture(6) comp(3) crypto(3) listfile(2) shift version(2; thorough 4) sector_crc(2) attributes(1; thorough 3)
impl LibToRef {
    fn new(tier: Tier) -> Self {
        let shifts: Vec<u16> = tier.pick(vec![0, 3], vec![0, 1, 2, 3, 4, 5, 6, 7, 8]);
        // thorough: the V3/V4 headers as well (the reference reads their classic hash/block tables), sector
        // checksums (one more sector-table entry, which the reference skips) and the (attributes) file
        // sector checksums are in the quick tier too: the stored size of a file must cover its checksum sector
        // (a reader of the published format reads exactly the stored bytes of an entry)
        let radices = vec![6, 3, 3, 2, shifts.len() as u64, tier.pick(2, 4), 2, tier.pick(1, 3)];
        LibToRef { shifts, radices, big: true, scratch: Scratch::new("c02a") }
    }
    fn decode(&self, i: u64) -> (Config, usize) {
        let d = gen::mixed_radix(i, &self.radices);
        (
            Config { comp: COMP3[d[1] as usize], crypto: d[2] as usize, crc: d[6] == 1, attrs: d[7] as usize, listfile: d[3] == 0, tcomp: false, shift: self.shifts[d[4] as usize], version: d[5] as usize },
            d[0] as usize,
        )
    }
}
fn files_for(cfg: &Config, t: usize, big: bool) -> Vec<(String, Vec<u8>)> {
    let lens = gen::length_ladder(cfg.sector(), big && cfg.shift <= 5);
    let names = names_for(lens.len());
    let mut v: Vec<(String, Vec<u8>)> = lens.iter().enumerate().map(|(k, &l)| (names[k].clone(), gen::content(gen::TEXTURES[t], l, cfg.sector(), k as u64))).collect();
    // names with bytes >= 0x80: the published hash works on bytes and folds ASCII only
    v.push(("Dir\\\u{dc}n\u{ef}-c\u{f6}d\u{e9} \u{b5}.txt".to_string(), gen::content(gen::TEXTURES[t], 37, cfg.sector(), 98)));
    v.push(("\u{4e16}\u{754c}\\\u{1f600}.bin".to_string(), gen::content(gen::TEXTURES[t], cfg.sector() + 5, cfg.sector(), 97)));
    // every printable ASCII character that is neither a letter, a digit nor a separator: the published fold
    // changes a-z and '/' only (0x60 '`' and 0x7B..0x7E sit right next to the letter ranges)
    v.push(("Punct\\ `{|}~@[]^_!#$%&'()+,-.=x.txt".to_string(), gen::content(gen::TEXTURES[t], 21, cfg.sector(), 96)));
    if cfg.shift == 0 {
        // compression break-even sweep: one sector of k incompressible bytes followed by zeros, for every k in
        // a window around the point where method byte + payload is exactly as long as the plain sector
        // (a unit whose stored size equals its plain size is read as raw by every implementation)
        let s = cfg.sector();
        for k in (s - 140)..=s {
            let mut d = gen::content("incompressible", k, s, 7 + t as u64);
            d.resize(s, 0);
            v.push((format!("sweep\\k{k:04}.bin"), d.clone()));
            if k % 4 == 0 {
                // and as the middle sector of a three-sector file
                let mut m = gen::content("period251", s, s, 1);
                m.extend_from_slice(&d);
                m.extend_from_slice(&gen::content("constant", 17, s, 2));
                v.push((format!("sweep3\\k{k:04}.bin"), m));
            }
        }
    }
    v
}
impl Space for LibToRef {
    fn len(&self) -> u64 {
        gen::product(&self.radices)
    }
    fn describe(&self, i: u64) -> Value {
        let (cfg, t) = self.decode(i);
        let mut v = cfg.json();
        v["direction"] = json!("library writes, reference reads");
        v["texture"] = json!(gen::TEXTURES[t]);
        v
    }
    fn run(&self, i: u64) -> CaseResult {
        let (cfg, t) = self.decode(i);
        let mut r = CaseResult::new();
        r.key = format!("L{i}");
        let files = files_for(&cfg, t, self.big);
        let path = self.scratch.path(&format!("l{i}.mpq"));
        let mut b = cfg.builder();
        for (n, d) in &files {
            b = cfg.add(b, n, d.clone());
        }
        if let Err(e) = b.build(&path) {
            r.err_return = true;
            r.outcome = format!("build-err {}", panic_class("", &e.to_string()));
            return r;
        }
        r.nontrivial = true;
        let bytes = std::fs::read(&path).unwrap();
        let _ = std::fs::remove_file(&path);
        let p = match mpqref::parse(&bytes) {
            Ok(p) => p,
            Err(e) => {
                r.viol(format!("reference cannot parse the library's archive: {}", panic_class("", &e).trim_start_matches("panic at : ")), e);
                return r;
            }
        };
        if p.header.version as usize != cfg.version || p.header.shift != cfg.shift {
            r.viol("header version/sector shift differ from the configuration", format!("{:?}", p.header));
        }
        for (n, d) in &files {
            // the library folds '/' to '\\' when adding; the reference looks up by the same folded name
            let stored = n.replace('/', "\\");
            match p.read(stored.as_bytes()) {
                Ok((got, tr)) => {
                    if &got != d {
                        let enc = tr.flags & mpqref::F_ENCRYPTED != 0;
                        let tail = d.len() % 4 != 0;
                        let whole_ok = got.len() == d.len() && got[..d.len() / 4 * 4] == d[..d.len() / 4 * 4];
                        let class = if enc && tail && whole_ok && tr.sector_methods.iter().all(|m| m.is_none()) {
                            "only the trailing partial dword differs (cipher applied to <4 trailing bytes)"
                        } else if enc && stored.contains('\\') {
                            "encrypted file in a directory"
                        } else if enc {
                            "encrypted file"
                        } else {
                            "plain file"
                        };
                        r.viol(format!("reference extracts different bytes from the library's archive: {class}"), format!("name={stored} len={} flags={:#x}", d.len(), tr.flags));
                    }
                    for m in tr.sector_methods.iter().flatten() {
                        if *m != COMP_FLAGS[cfg.comp] {
                            r.viol("sector method byte is not the configured method", format!("{m:#x}"));
                        }
                    }
                    r.count("files_cross_read", 1);
                }
                Err(e) => {
                    let enc = cfg.crypto != 0;
                    let class = if enc && stored.contains('\\') { "encrypted file in a directory" } else if enc { "encrypted file" } else { "plain file" };
                    r.viol(
                        format!("reference cannot extract a file from the library's archive ({class}): {}", panic_class("", &e).trim_start_matches("panic at : ")),
                        format!("name={stored} len={} err={e}", d.len()),
                    );
                }
            }
            if r.viols.len() >= 3 {
                break;
            }
        }
        if cfg.listfile {
            match p.listfile() {
                Some(l) => {
                    let mut got: Vec<String> = l.iter().map(|s| fold(s)).collect();
                    got.sort();
                    let mut want: Vec<String> = files.iter().map(|f| fold(&f.0)).collect();
                    want.push("(LISTFILE)".into());
                    if cfg.attrs != 0 {
                        want.push("(ATTRIBUTES)".into());
                    }
                    want.sort();
                    if got != want {
                        r.viol("listfile read by the reference differs from the added names", format!("{got:?} vs {want:?}"));
                    }
                }
                None => r.viol("reference cannot read the library's (listfile)", ""),
            }
        }
        r
    }
}

struct RefToLib {
    quick: bool,
    shifts: Vec<u16>,
    radices: Vec<u64>,
    scratch: Scratch,
}
// axes: texture(6) method(3) crypto(3) single_unit(2) listfile(2) hash_size(2) shift version(2)
// plus sector checksums {none, raw checksum sector, compressed checksum sector}, user-data prefix {none, 1024 bytes},
// deleted hash slots {none, every third slot of the first 48 + the home slot of every second file}: quick moves the three together, thorough takes the product
impl RefToLib {
    fn new(tier: Tier) -> Self {
        let shifts: Vec<u16> = tier.pick(vec![0, 3], vec![0, 1, 3, 5, 8]);
        // quick: the three extra axes move together through {none, raw checksums + prefix + deleted slots,
        // compressed checksums + prefix + deleted slots}; thorough: their full product
        let radices = vec![6, 3, 3, 2, 2, 2, shifts.len() as u64, 2, 3, tier.pick(1, 2), tier.pick(1, 2)];
        RefToLib { quick: tier == Tier::Quick, shifts, radices, scratch: Scratch::new("c02b") }
    }
}
impl Space for RefToLib {
    fn len(&self) -> u64 {
        gen::product(&self.radices)
    }
    fn describe(&self, i: u64) -> Value {
        let mut d = gen::mixed_radix(i, &self.radices);
        if self.quick && d[8] > 0 {
            d[9] = 1;
            d[10] = 1;
        }
        json!({"direction": "reference writes, library reads", "texture": gen::TEXTURES[d[0] as usize], "method": (["none","zlib","bzip2"][d[1] as usize]),
               "crypto": CRYPTO_NAMES[d[2] as usize], "single_unit": d[3]==1, "listfile": d[4]==0, "hash_size": ([512,1024][d[5] as usize]), "shift": self.shifts[d[6] as usize], "version": format!("V{}", d[7]+1),
               "sector_crc": (["none","raw checksum sector","compressed checksum sector"][d[8] as usize]), "userdata_prefix": d[9]==1, "deleted_hash_slots": d[10]==1})
    }
    fn run(&self, i: u64) -> CaseResult {
        let mut d = gen::mixed_radix(i, &self.radices);
        if self.quick && d[8] > 0 {
            d[9] = 1;
            d[10] = 1;
        }
        let mut r = CaseResult::new();
        r.key = format!("R{i}");
        r.nontrivial = true;
        let shift = self.shifts[d[6] as usize];
        let cfg = Config { comp: 0, crypto: 0, crc: false, attrs: 0, listfile: true, tcomp: false, shift, version: 0 };
        let files = files_for(&cfg, d[0] as usize, true);
        let method = [0u8, mpqref::M_ZLIB, mpqref::M_BZIP2][d[1] as usize];
        let wf: Vec<WFile> = files
            .iter()
            .map(|(n, data)| WFile { name: n.replace('/', "\\").into_bytes(), data: data.clone(), method, encrypt: d[2] > 0, fix_key: d[2] == 2, single_unit: d[3] == 1, raw_flags: 0, in_listfile: true })
            .collect();
        let opt = WOptions {
            version: d[7] as u16,
            shift,
            hash_size: [512, 1024][d[5] as usize],
            listfile: d[4] == 0,
            userdata_prefix: if d[9] == 1 { 1024 } else { 0 },
            // deleted markers: every third slot of the first 48 AND the home slot of every second file, so that
            // those files sit behind a deleted marker in their own probe sequence (only a never-used entry ends it)
            deleted_slots: if d[10] == 1 {
                let hs = [512u32, 1024][d[5] as usize];
                let mut v: Vec<u32> = (0..48).step_by(3).collect();
                for (k, (n, _)) in files.iter().enumerate() {
                    if k % 2 == 0 {
                        v.push(refimpl::mpqcrypt::hash_name(n.replace('/', "\\").as_bytes(), 0) & (hs - 1));
                    }
                }
                v.sort();
                v.dedup();
                v
            } else {
                vec![]
            },
            // the writer walks past the markers (it need not reuse them), so the marked files really sit behind one
            reuse_deleted: d[10] != 1,
        };
        let ext = mpqref::WExt { sector_crc: d[8] > 0, crc_sector_compressed: d[8] == 2 };
        let bytes = mpqref::write_with(&wf, &opt, &ext).expect("reference writer");
        // self-check of the reference (machinery sanity): it must read its own archive
        let p = mpqref::parse(&bytes).expect("reference parses its own archive");
        for (n, data) in &files {
            let (got, _) = p.read(n.replace('/', "\\").as_bytes()).expect("reference reads its own file");
            assert!(&got == data, "reference self round-trip");
        }
        let path = self.scratch.path(&format!("r{i}.mpq"));
        std::fs::write(&path, &bytes).unwrap();
        let mut a = match Archive::open(&path) {
            Ok(a) => a,
            Err(e) => {
                r.viol("library cannot open a conformant archive written by the reference", format!("{e}"));
                let _ = std::fs::remove_file(&path);
                return r;
            }
        };
        for (n, data) in &files {
            for sp in [n.clone(), spellings(n).pop().unwrap()] {
                match a.read_file(&sp) {
                    Ok(got) => {
                        if &got != data {
                            let enc = d[2] > 0;
                            let whole_ok = got.len() == data.len() && got[..data.len() / 4 * 4] == data[..data.len() / 4 * 4];
                            let class = if enc && whole_ok { "only the trailing partial dword differs (cipher applied to <4 trailing bytes)" } else if enc && n.contains(['\\', '/']) { "encrypted file in a directory" } else if enc { "encrypted file" } else { "plain file" };
                            r.viol(format!("library reads different bytes from the reference's archive: {class}"), format!("name={sp} len={} got_len={}", data.len(), got.len()));
                        }
                        r.count("files_cross_read", 1);
                    }
                    Err(e) => {
                        let enc = d[2] > 0;
                        let class = if enc && n.contains(['\\', '/']) { "encrypted file in a directory" } else if enc { "encrypted file" } else { "plain file" };
                        r.viol(format!("library cannot read a file from the reference's archive ({class}): {}", panic_class("", &e.to_string()).trim_start_matches("panic at : ")), format!("name={sp} len={} err={e}", data.len()));
                    }
                }
                if r.viols.len() >= 3 {
                    break;
                }
            }
        }
        if opt.listfile {
            match a.list() {
                Ok(l) => {
                    // the reference's listfile does not list itself; special files are optional here
                    let mut got: Vec<String> = l.iter().map(|e| fold(&e.name)).filter(|n| !n.starts_with('(')).collect();
                    got.sort();
                    let mut want: Vec<String> = files.iter().map(|f| fold(&f.0)).collect();
                    want.sort();
                    if got != want {
                        r.viol("library list() differs from the names the reference wrote", format!("{got:?} vs {want:?}"));
                    }
                }
                Err(e) => r.viol("library list() fails on the reference's archive", format!("{e}")),
            }
        }
        let _ = std::fs::remove_file(&path);
        r
    }
}

fn build(name: &str, _arg: &str, tier: Tier) -> Box<dyn Space> {
    match name {
        "lib2ref" => Box::new(LibToRef::new(tier)),
        "ref2lib" => Box::new(RefToLib::new(tier)),
        _ => panic!("space {name}"),
    }
}

fn main() {
    let Mode::Supervisor(mut c) = start("C02", "exploration", build) else { return };
    c.rule = "published subset (V1/V2, classic tables, none/zlib/bzip2, plain/encrypted/fix-key, sector checksums on/off): full product of the axes x 6 textures; each case cross-reads one archive holding one file per boundary length under colliding, directory-nested names. lib2ref: ArchiveBuilder writes, refimpl::mpqref parses strictly and extracts by name; ref2lib: mpqref writes (own probing, sector decisions, single-unit on/off), Archive reads. Non-trivial = archive produced; distinct by case.".into();
    c.assume("reference = /verif/harness/refimpl/src/mpqref.rs, written from the published format; zlib/bzip2 streams are handled by the flate2/bzip2 crates on the reference side (standard stream formats)");
    c.assume("the two writers may make different raw-vs-compressed choices; only decodability and content are compared");
    c.run_space("lib2ref", "");
    c.run_space("ref2lib", "");
    let n = c.agg.counters.get("files_cross_read").copied().unwrap_or(0);
    c.extra_cov.insert("programs".into(), json!(n));
    c.finish();
}
