//! C03 — lossless codecs invert exactly, never expand, accept their own output under default limits.
use serde_json::{json, Value};
use vcore::*;
use wow_mpq::compression::{compress, decompress, decompress_secure};
use wow_mpq::{SecurityLimits, SessionTracker};

const SEL: [(&str, u8, bool); 14] = [
    ("zlib", 0x02, true),
    ("bzip2", 0x10, true),
    ("lzma", 0x12, true),
    ("sparse", 0x20, true),
    ("pkware", 0x08, true),
    ("huffman", 0x01, true),
    ("sparse+zlib", 0x22, true),
    ("sparse+bzip2", 0x30, true),
    ("huffman+zlib", 0x03, true),
    ("adpcm_mono", 0x40, false),
    ("adpcm_stereo", 0x80, false),
    ("adpcm_mono+zlib", 0x42, false),
    ("adpcm_mono+pkware", 0x48, false),
    ("adpcm_stereo+pkware", 0x88, false),
];

fn inputs(tier: Tier) -> Vec<(String, Vec<u8>)> {
    let mut v: Vec<(String, Vec<u8>)> = vec![];
    // (i) all strings of length <=3 over a 6-letter alphabet, all of length <=8 over {00,FF}
    let a6 = [0x00u8, 0x01, 0x7F, 0x80, 0x81, 0xFF];
    for l in 0..=tier.pick(4u32, 6) {
        for x in 0..6u64.pow(l) {
            let mut y = x;
            let mut s = vec![];
            for _ in 0..l {
                s.push(a6[(y % 6) as usize]);
                y /= 6;
            }
            v.push((format!("all6^{l}#{x}"), s));
        }
    }
    for l in 4..=tier.pick(12u32, 16) {
        for x in 0..2u64.pow(l) {
            let s: Vec<u8> = (0..l).map(|b| if (x >> b) & 1 == 1 { 0xFF } else { 0x00 }).collect();
            v.push((format!("all2^{l}#{x}"), s));
        }
    }
    {
        // all strings of length 6..8 (thorough ..10) over {00, 41, FF}
        let a3 = [0x00u8, 0x41, 0xFF];
        for l in 6..=tier.pick(8u32, 10) {
            for x in 0..3u64.pow(l) {
                let mut y = x;
                let s: Vec<u8> = (0..l)
                    .map(|_| {
                        let c = a3[(y % 3) as usize];
                        y /= 3;
                        c
                    })
                    .collect();
                v.push((format!("all3^{l}#{x}"), s));
            }
        }
    }
    // (ii) run-length families around the RLE/sparse boundaries
    let ns: Vec<usize> = if tier == Tier::Quick {
        (0..=8).chain(62..=66).chain(126..=135).chain(254..=264).chain(510..=514).chain(1022..=1026).chain(4094..=4098).collect()
    } else {
        (0..=10).chain(30..=34).chain(62..=66).chain(126..=135).chain(254..=264).chain(382..=392).chain(510..=514).chain(1022..=1026).chain(2046..=2050).chain(4094..=4098).chain(8190..=8194).collect()
    };
    for &n in &ns {
        for (a, b) in [(0x00u8, 0x41u8), (0x41, 0x00), (0xFF, 0x80)] {
            v.push((format!("a^{n} a={a:#x}"), vec![a; n]));
            let mut s = vec![a; n];
            s.push(b);
            v.push((format!("a^{n}b a={a:#x}"), s));
            let s: Vec<u8> = (0..2 * n).map(|i| if i % 2 == 0 { a } else { b }).collect();
            v.push((format!("(ab)^{n} a={a:#x}"), s));
            for &m in &ns {
                let mut s = vec![a; n];
                s.extend(std::iter::repeat(b).take(m));
                v.push((format!("a^{n}b^{m} a={a:#x}"), s));
            }
        }
    }
    // (ii-b) compression break-even sweeps: k incompressible bytes followed by zeros, every k, for a few
    // total lengths: somewhere in each sweep the codec output plus the method byte is exactly as long as
    // the input, the point where "stored raw" must take over
    for total in [86usize, 128, 300, 512] {
        for k in 0..=total {
            let mut d = gen::content("incompressible", k, 4096, 11);
            d.resize(total, 0);
            v.push((format!("breakeven total={total} random_prefix={k}"), d));
        }
    }
    {
        // more totals (up to the default sector size), and compressible tails other than zeros
        for total in tier.pick(vec![33usize, 64, 100, 200, 256, 1000, 1024, 4096], vec![33usize, 64, 100, 200, 256, 1000, 1024, 2048, 4096, 8192, 16384]) {
            for k in 0..=total {
                let mut d = gen::content("incompressible", k, 4096, 12);
                d.resize(total, 0);
                v.push((format!("breakeven total={total} random_prefix={k}"), d));
            }
        }
        for total in tier.pick(vec![86usize, 128, 300, 512, 1024], vec![86usize, 128, 300, 512, 1024, 4096]) {
            for tail in ["period2", "sparse", "period251"] {
                for k in 0..=total {
                    let mut d = gen::content("incompressible", k, 4096, 13);
                    let t = gen::content(tail, total - k, 4096, 14);
                    d.extend_from_slice(&t);
                    v.push((format!("breakeven total={total} random_prefix={k} tail={tail}"), d));
                }
            }
        }
    }
    // (iii) size ladder x texture
    // thorough: every length up to 1100 (not only the powers of two), then the power ladder to 2^23
    let mut ladder: Vec<usize> = (0..=tier.pick(1100, 4200)).collect();
    let kmax = tier.pick(19, 23);
    for k in tier.pick(11, 13)..=kmax {
        ladder.extend([(1usize << k) - 1, 1 << k, (1 << k) + 1]);
    }
    for &l in &ladder {
        for t in ["constant", "period2", "period251", "sparse", "incompressible"] {
            v.push((format!("ladder len={l} texture={t}"), gen::content(t, l, 4096, 0)));
        }
    }
    v
}

/// inputs for the all-256-method-bytes space: short strings, the run families at the codec boundaries, one
/// break-even sweep and the size ladder (thorough: the whole quick input set)
fn allsel_inputs(tier: Tier) -> Vec<(String, Vec<u8>)> {
    let all = inputs(Tier::Quick);
    if tier == Tier::Thorough {
        return all;
    }
    all.into_iter()
        .filter(|(n, d)| {
            (n.starts_with("all6^") && d.len() <= 3)
                || (n.starts_with("all2^") && d.len() <= 8)
                || (n.starts_with("a^") && !n.contains("b^"))
                || (n.contains("b^") && d.len() <= 600 && d.len() % 3 != 1)
                || n.starts_with("breakeven total=86 ") && !n.contains("tail=")
                || n.starts_with("breakeven total=300 ") && !n.contains("tail=")
                || (n.starts_with("ladder") && (d.len() <= 40 || d.len().count_ones() <= 2 || (d.len() + 1).count_ones() <= 1))
        })
        .collect()
}

struct Main {
    inputs: Vec<(String, Vec<u8>)>,
    sels: Vec<(String, u8, bool)>,
}
fn named_sels() -> Vec<(String, u8, bool)> {
    SEL.iter().map(|(n, m, l)| (n.to_string(), *m, *l)).collect()
}
/// every method byte; a selector without an ADPCM bit (0x40 / 0x80) that the compressor accepts is lossless
fn all_sels() -> Vec<(String, u8, bool)> {
    (0..=255u8).map(|m| (format!("method-byte-{m:#04x}"), m, m & 0xC0 == 0)).collect()
}
impl Space for Main {
    fn len(&self) -> u64 {
        (self.inputs.len() * self.sels.len()) as u64
    }
    fn describe(&self, i: u64) -> Value {
        let s = (i as usize) % self.sels.len();
        let k = (i as usize) / self.sels.len();
        json!({"selector": self.sels[s].0, "method": format!("{:#04x}", self.sels[s].1), "input": self.inputs[k].0, "len": self.inputs[k].1.len()})
    }
    fn case_timeout(&self) -> u64 {
        120
    }
    fn run(&self, i: u64) -> CaseResult {
        let s = (i as usize) % self.sels.len();
        let k = (i as usize) / self.sels.len();
        let (sname, m, lossless) = (self.sels[s].0.as_str(), self.sels[s].1, self.sels[s].2);
        let d = &self.inputs[k].1;
        let mut r = CaseResult::new();
        r.key = format!("{i}");
        let out = match compress(d, m) {
            Ok(o) => o,
            Err(_) => {
                // the compressor may refuse a selector/input (e.g. ADPCM on odd lengths)
                r.err_return = true;
                r.outcome = "compress-err".into();
                r.count(&format!("refused_{sname}"), 1);
                return r;
            }
        };
        r.nontrivial = !d.is_empty();
        if out.len() > d.len() {
            r.viol(format!("{sname}: stored form is longer than the input"), format!("{} -> {}", d.len(), out.len()));
            return r;
        }
        if out.len() == d.len() && out != *d {
            // not shrunk, yet not stored raw (readers tell raw from compressed by comparing sizes)
            r.viol(format!("{sname}: compression did not shrink the data but the stored form is not the raw input"), format!("{} -> {} (method byte {:#04x})", d.len(), out.len(), out[0]));
            return r;
        }
        if out == *d {
            r.outcome = "raw".into();
            return r;
        }
        if out.is_empty() || out[0] != m {
            r.viol(format!("{sname}: compressed form is neither raw nor method-byte-prefixed"), format!("len {} first {:?}", out.len(), out.first()));
            return r;
        }
        r.outcome = "compressed".into();
        let payload = &out[1..];
        for path in ["decompress", "decompress_secure"] {
            let res = if path == "decompress" {
                decompress(payload, m, d.len())
            } else {
                decompress_secure(payload, m, d.len(), Some("file.dat"), &SessionTracker::new(), &SecurityLimits::default())
            };
            match res {
                Ok(back) => {
                    if lossless {
                        if back != *d {
                            r.viol(format!("{sname}: {path} does not return the original bytes"), format!("len {} got len {}", d.len(), back.len()));
                        }
                    } else if back.len() != d.len() {
                        r.viol(format!("{sname}: lossy codec does not preserve length"), format!("{} -> {}", d.len(), back.len()));
                    }
                }
                Err(e) => r.viol(
                    format!("{sname}: {path} rejects the compressor's own output ({})", panic_class("", &e.to_string()).trim_start_matches("panic at : ")),
                    format!("in={} out={} err={e}", d.len(), out.len()),
                ),
            }
        }
        r
    }
}

/// ADPCM channel interleaving: a stereo two-tone input keeps each channel's level in its own channel
struct Adpcm;
impl Space for Adpcm {
    fn len(&self) -> u64 {
        6
    }
    fn describe(&self, i: u64) -> Value {
        json!({"adpcm_two_tone": i, "samples": 64 << i})
    }
    fn run(&self, i: u64) -> CaseResult {
        let mut r = CaseResult::new();
        r.key = format!("adpcm{i}");
        let n = 64usize << i; // sample frames
        let mut d = vec![];
        for _ in 0..n {
            d.extend_from_slice(&(6000i16).to_le_bytes()); // left: constant high
            d.extend_from_slice(&(-6000i16).to_le_bytes()); // right: constant low
        }
        let Ok(out) = compress(&d, 0x80) else {
            r.err_return = true;
            return r;
        };
        r.nontrivial = true;
        if out == d {
            r.outcome = "raw".into();
            return r;
        }
        match decompress(&out[1..], 0x80, d.len()) {
            Ok(back) => {
                if back.len() != d.len() {
                    r.viol("adpcm_stereo: length not preserved", format!("{} vs {}", back.len(), d.len()));
                    return r;
                }
                // after the codec settles (skip the first 16 frames) left stays positive, right negative
                let mut bad = 0;
                for f in 16..n {
                    let l = i16::from_le_bytes([back[4 * f], back[4 * f + 1]]);
                    let rr = i16::from_le_bytes([back[4 * f + 2], back[4 * f + 3]]);
                    if !(l > 0 && rr < 0) {
                        bad += 1;
                    }
                }
                if bad > 0 {
                    r.viol("adpcm_stereo: channel interleaving not preserved", format!("{bad} of {} frames have a channel on the wrong side", n - 16));
                }
            }
            Err(e) => r.viol("adpcm_stereo: decompress rejects the compressor's own output", format!("{e}")),
        }
        r
    }
}

/// ADPCM channel interleaving under transients: each channel holds one level and steps to another at its
/// own frame (a large step makes the coder emit its "step up fast" marker, after which the decoder must
/// stay on the same channel). After the coder has settled, every channel must sit near ITS OWN target.
struct AdpcmSteps {
    cases: Vec<(usize, [i16; 2], usize, [i16; 2], bool)>, // left: (frame, [from,to]); right: (frame, [from,to]); stereo
}
impl AdpcmSteps {
    fn new(tier: Tier) -> AdpcmSteps {
        let levels: Vec<[i16; 2]> = vec![[0, 20000], [20000, -20000], [-6000, 6000], [3000, 3000], [0, -32000], [-30000, 30000]];
        let frames: Vec<usize> = tier.pick(vec![1, 40], vec![1, 2, 17, 40, 41, 100]);
        let mut cases = vec![];
        for (li, l) in levels.iter().enumerate() {
            for &lf in &frames {
                for (ri, r) in levels.iter().enumerate() {
                    for &rf in &frames {
                        if (l[0] == l[1] && lf != frames[0]) || (r[0] == r[1] && rf != frames[0]) {
                            continue; // a constant channel has no step frame
                        }
                        let _ = (li, ri);
                        cases.push((lf, *l, rf, *r, true));
                    }
                }
                cases.push((lf, *l, 0, [0, 0], false)); // the same signal as mono
            }
        }
        AdpcmSteps { cases }
    }
}
impl Space for AdpcmSteps {
    fn len(&self) -> u64 {
        self.cases.len() as u64
    }
    fn describe(&self, i: u64) -> Value {
        let c = &self.cases[i as usize];
        json!({"adpcm_steps": if c.4 { "stereo" } else { "mono" }, "left": format!("{} -> {} at frame {}", c.1[0], c.1[1], c.0), "right": if c.4 { format!("{} -> {} at frame {}", c.3[0], c.3[1], c.2) } else { "-".into() }})
    }
    fn run(&self, i: u64) -> CaseResult {
        const FRAMES: usize = 192;
        let c = &self.cases[i as usize];
        let mut r = CaseResult::new();
        r.key = format!("steps{i}");
        let chans = if c.4 { 2 } else { 1 };
        let want = |ch: usize, f: usize| -> i16 {
            let (sf, lv) = if ch == 0 { (c.0, c.1) } else { (c.2, c.3) };
            if f < sf { lv[0] } else { lv[1] }
        };
        let mut d = vec![];
        for f in 0..FRAMES {
            for ch in 0..chans {
                d.extend_from_slice(&want(ch, f).to_le_bytes());
            }
        }
        let m = if c.4 { 0x80u8 } else { 0x40 };
        let Ok(out) = compress(&d, m) else {
            r.err_return = true;
            return r;
        };
        r.nontrivial = true;
        if out == d {
            r.outcome = "raw".into();
            return r;
        }
        r.outcome = "compressed".into();
        match decompress(&out[1..], m, d.len()) {
            Ok(back) => {
                if back.len() != d.len() {
                    r.viol("adpcm steps: length not preserved", format!("{} vs {}", back.len(), d.len()));
                    return r;
                }
                // judged on the last 32 frames, at least 90 frames after the last step: within 12.5 % of full scale
                for ch in 0..chans {
                    let mut worst = 0i32;
                    for f in FRAMES - 32..FRAMES {
                        let o = (f * chans + ch) * 2;
                        let got = i16::from_le_bytes([back[o], back[o + 1]]) as i32;
                        worst = worst.max((got - want(ch, f) as i32).abs());
                    }
                    if worst > 4096 {
                        r.viol(
                            format!("adpcm steps: a {} channel does not settle on its own level (channel interleaving lost)", if c.4 { "stereo" } else { "mono" }),
                            format!("channel {ch}: target {} worst deviation {worst} in the last 32 frames", want(ch, FRAMES - 1)),
                        );
                    }
                }
            }
            Err(e) => r.viol("adpcm steps: decompress rejects the compressor's own output", format!("{e}")),
        }
        r
    }
}

fn build(name: &str, _arg: &str, tier: Tier) -> Box<dyn Space> {
    match name {
        "adpcm_steps" => Box::new(AdpcmSteps::new(tier)),
        "main" => Box::new(Main { inputs: inputs(tier), sels: named_sels() }),
        "allsel" => Box::new(Main { inputs: allsel_inputs(tier), sels: all_sels() }),
        "adpcm" => Box::new(Adpcm),
        _ => panic!("space {name}"),
    }
}

fn main() {
    let Mode::Supervisor(mut c) = start("C03", "exploration", build) else { return };
    c.rule = "selectors x inputs. quick inputs = all strings of length <=4 over {00,01,7F,80,81,FF}, all of length 4..12 over {00,FF}, all of length 6..8 over {00,41,FF}, run families a^n, a^n b, (ab)^n, a^n b^m for n,m in {0..8,62..66,126..135,254..264,510..514,1022..1026,4094..4098} x 3 letter pairs, break-even sweeps (every split k of a k-byte incompressible prefix + compressible tail) for totals {33,64,86,100,128,200,256,300,512,1000,1024,4096} with zero tails and {86,128,300,512,1024} with period2/sparse/period251 tails, EVERY length 0..1100 x 5 textures and the ladder 2^k-1,2^k,2^k+1 for k=11..19. thorough: all6 to length 6, {00,FF} to length 16, {00,41,FF} to length 10, run counts also {9,10,30..34,382..392,2046..2050,8190..8194}, sweep totals also {2048,8192,16384} (zero tails) and 4096 (other tails), EVERY length 0..4200, ladder k=13..23. Space `allsel`: every one of the 256 method bytes x (quick: short strings, single-run families, short two-run families, two sweeps, ladder subset; thorough: the whole quick input set) - a selector the compressor accepts must invert; selectors with an ADPCM bit are judged for length only. Non-trivial = non-empty input accepted by the compressor; distinct by (selector,input).".into();
    c.assume("a compressor refusing a selector/input with Err is a legitimate refusal (counted)");
    c.assume("lossy ADPCM selectors: only length and channel sides are judged; space adpcm_steps: every pair of per-channel step signals (6 level pairs x step frames) as stereo, and each alone as mono: 90+ frames after the last step every channel must be within 1/8 of full scale of its own level");
    c.run_space("main", "");
    c.run_space("adpcm", "");
    c.run_space("adpcm_steps", "");
    c.run_space("allsel", "");
    c.extra_cov.insert("selectors".into(), json!(SEL.iter().map(|s| s.0).collect::<Vec<_>>()));
    c.finish();
}
