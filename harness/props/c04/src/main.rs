//! C04 — hashing and encryption equal the MPQ algorithms and are mutually inverse.
//! Exhaustive enumeration of the stated finite domains against the independent `refimpl`.
use refimpl::{lookup3, mpqcrypt};
use serde_json::{json, Value};
use vcore::*;
use wow_mpq::crypto::{self, hash_type};

const HT: [u32; 4] = [hash_type::TABLE_OFFSET, hash_type::NAME_A, hash_type::NAME_B, hash_type::FILE_KEY];

fn check_name(s: &str, r: &mut CaseResult) {
    let b = s.as_bytes();
    for (ti, &ht) in HT.iter().enumerate() {
        let got = crypto::hash_string(s, ht);
        let want = mpqcrypt::hash_name(b, ti as u32);
        if got != want {
            r.viol("hash_string differs from reference MPQ hash", format!("name={:?} type={:#x} got={:#010x} want={:#010x}", s, ht, got, want));
            return;
        }
    }
    // the convenience triple must be the same three reference hashes
    let (ha, hb, ho) = crypto::calculate_mpq_hashes(s);
    if (ha, hb, ho) != (mpqcrypt::hash_name(b, 1), mpqcrypt::hash_name(b, 2), mpqcrypt::hash_name(b, 0)) {
        r.viol("calculate_mpq_hashes differs from the reference MPQ hash", format!("name={:?} got=({ha:#010x},{hb:#010x},{ho:#010x})", s));
        return;
    }
    // fold invariance (ASCII case, slash direction)
    let up = s.to_ascii_uppercase();
    let lo = s.to_ascii_lowercase();
    let fl: String = s.chars().map(|c| if c == '/' { '\\' } else if c == '\\' { '/' } else { c }).collect();
    for v in [&up, &lo, &fl] {
        if v != s {
            for &ht in HT.iter() {
                if crypto::hash_string(v, ht) != crypto::hash_string(s, ht) {
                    r.viol("hash_string not invariant under ASCII case / slash direction", format!("{:?} vs {:?} type={:#x}", s, v, ht));
                    return;
                }
            }
            if crypto::jenkins_hash(v) != crypto::jenkins_hash(s) {
                r.viol("jenkins_hash not invariant under ASCII case / slash direction", format!("{:?} vs {:?}", s, v));
                return;
            }
            if crypto::het_hash(v, 64) != crypto::het_hash(s, 64) {
                r.viol("het_hash not invariant under ASCII case / slash direction", format!("{:?} vs {:?}", s, v));
                return;
            }
        }
    }
}

struct Hash2;
impl Space for Hash2 {
    fn len(&self) -> u64 {
        2048 + 1
    }
    fn describe(&self, i: u64) -> Value {
        if i == 2048 {
            json!({"strings": "name pool + first/last code point of each 3- and 4-byte lead byte"})
        } else {
            json!({"first_char": format!("U+{:04X}", i), "strings": "[c1] and [c1,c2] for all c2 in U+0000..U+07FF"})
        }
    }
    fn run(&self, i: u64) -> CaseResult {
        let mut r = CaseResult::new();
        r.nontrivial = true;
        r.key = format!("h{i}");
        let mut n = 0u64;
        if i == 2048 {
            let mut pool: Vec<String> = vec![
                "(listfile)".into(), "(attributes)".into(), "(signature)".into(), "(hash table)".into(), "(block table)".into(),
                "Interface\\Icons\\Temp.blp".into(), "interface/icons/temp.blp".into(), "a/b\\C/d.TXT".into(),
                "World\\Maps\\Azeroth\\Azeroth_32_48.adt".into(), "x".repeat(300),
            ];
            // 3-byte lead bytes E0..EF, 4-byte F0..F4: first and last code point under each lead
            for lead in 0xE0u32..=0xEF {
                let first = if lead == 0xE0 { 0x0800 } else { (lead & 0xF) << 12 };
                let last = ((lead & 0xF) << 12) | 0xFFF;
                for cp in [first, last] {
                    if let Some(c) = char::from_u32(cp) { pool.push(c.to_string()); pool.push(format!("a{c}/Z")); }
                    else if let Some(c) = char::from_u32(if cp >= 0xD800 && cp < 0xE000 { if cp == first {0xD7FF} else {0xE000} } else { cp }) { pool.push(c.to_string()); }
                }
            }
            for lead in 0xF0u32..=0xF4 {
                let first = if lead == 0xF0 { 0x10000 } else { (lead & 0x7) << 18 };
                let last = if lead == 0xF4 { 0x10FFFF } else { ((lead & 0x7) << 18) | 0x3FFFF };
                for cp in [first, last] {
                    if let Some(c) = char::from_u32(cp) { pool.push(c.to_string()); pool.push(format!("q\\{c}")); }
                }
            }
            for s in &pool {
                check_name(s, &mut r);
                n += 1;
            }
        } else {
            let c1 = char::from_u32(i as u32).unwrap();
            let mut s = String::new();
            s.push(c1);
            check_name(&s, &mut r);
            n += 1;
            for j in 0..2048u32 {
                let c2 = char::from_u32(j).unwrap();
                s.clear();
                s.push(c1);
                s.push(c2);
                check_name(&s, &mut r);
                n += 1;
                if !r.viols.is_empty() {
                    break;
                }
            }
        }
        r.count("strings_hashed", n);
        r
    }
}

struct Table;
impl Space for Table {
    fn len(&self) -> u64 {
        2
    }
    fn describe(&self, i: u64) -> Value {
        if i == 0 { json!("all 1280 crypt table entries vs seed recurrence") } else { json!("empty string and fold tables on bytes reachable from &str") }
    }
    fn run(&self, i: u64) -> CaseResult {
        let mut r = CaseResult::new();
        r.nontrivial = true;
        r.key = format!("t{i}");
        if i == 0 {
            let t = mpqcrypt::crypt_table();
            for k in 0..1280 {
                if crypto::ENCRYPTION_TABLE[k] != t[k] {
                    r.viol("crypt table entry differs from reference recurrence", format!("index {k}: got {:#010x} want {:#010x}", crypto::ENCRYPTION_TABLE[k], t[k]));
                    break;
                }
            }
            r.count("table_entries", 1280);
        } else {
            check_name("", &mut r);
            if crypto::hash_string("", hash_type::TABLE_OFFSET) != 0x7FED7FED {
                r.viol("hash of empty string", "");
            }
        }
        r
    }
}

/// every key of a 2^32 / blocks slice on a fixed 3-dword buffer
struct Keys {
    blocks: u64,
    per: u64,
    stride_mode: bool,
}
impl Keys {
    fn key(&self, block: u64, j: u64) -> u32 {
        if self.stride_mode {
            // quick: 2^24 keys = every (high 16 bits) x (low 8 bits), middle byte taken from the block number
            let x = block * self.per + j; // 0..2^24
            let hi = (x >> 8) as u32 & 0xFFFF;
            let lo = x as u32 & 0xFF;
            (hi << 16) | ((hi.wrapping_mul(0x9D) >> 3) & 0xFF) << 8 | lo
        } else {
            // blocks evenly spaced over the 32-bit key space, `per` consecutive keys in each
            (block * ((1u64 << 32) / self.blocks) + j) as u32
        }
    }
}
impl Space for Keys {
    fn len(&self) -> u64 {
        self.blocks
    }
    fn describe(&self, i: u64) -> Value {
        json!({"keys": format!("{:#010x}..={:#010x}", self.key(i, 0), self.key(i, self.per - 1)), "count": self.per, "buffer": "3 dwords"})
    }
    fn run(&self, i: u64) -> CaseResult {
        let mut r = CaseResult::new();
        r.nontrivial = true;
        r.key = format!("k{i}");
        let plain = [0x0000_0000u32, 0xFFFF_FFFF, 0x1234_5678];
        for j in 0..self.per {
            let key = self.key(i, j);
            let mut a = plain;
            crypto::encrypt_block(&mut a, key);
            let mut b = plain;
            if key != 0 {
                mpqcrypt::encrypt_dwords(&mut b, key);
            }
            if a != b {
                r.viol("encrypt_block differs from reference cipher", format!("key={:#010x} got={:x?} want={:x?}", key, a, b));
                break;
            }
            crypto::decrypt_block(&mut a, key);
            if a != plain {
                r.viol("decrypt_block does not invert encrypt_block", format!("key={:#010x} got={:x?}", key, a));
                break;
            }
            if key != 0 {
                let d = crypto::decrypt_dword(b[0], key);
                if d != plain[0] {
                    r.viol("decrypt_dword does not invert first dword", format!("key={:#010x}", key));
                    break;
                }
            }
        }
        r.count("keys_checked", self.per);
        r
    }
}

/// byte-level wrappers: key pool x lengths 0..=17 (+ a few long) x contents
struct Bytes {
    keys: Vec<u32>,
    lens: Vec<usize>,
}
impl Space for Bytes {
    fn len(&self) -> u64 {
        (self.keys.len() * self.lens.len() * 3) as u64
    }
    fn describe(&self, i: u64) -> Value {
        let d = gen::mixed_radix(i, &[3, self.lens.len() as u64, self.keys.len() as u64]);
        json!({"content": (["zeros", "ff", "counter"][d[0] as usize]), "len": self.lens[d[1] as usize], "key": format!("{:#010x}", self.keys[d[2] as usize])})
    }
    fn run(&self, i: u64) -> CaseResult {
        let d = gen::mixed_radix(i, &[3, self.lens.len() as u64, self.keys.len() as u64]);
        let len = self.lens[d[1] as usize];
        let key = self.keys[d[2] as usize];
        let plain: Vec<u8> = match d[0] {
            0 => vec![0; len],
            1 => vec![0xFF; len],
            _ => (0..len).map(|x| (x * 7 + 1) as u8).collect(),
        };
        let mut r = CaseResult::new();
        r.nontrivial = len > 0;
        r.key = format!("b{i}");
        let builder = wow_mpq::ArchiveBuilder::new();
        let mut buf = plain.clone();
        builder.encrypt_data(&mut buf, key);
        // whole dwords must equal the reference cipher
        let mut refb = plain.clone();
        if key != 0 {
            mpqcrypt::encrypt_bytes_whole_dwords(&mut refb, key);
        }
        let w = len / 4 * 4;
        if buf[..w] != refb[..w] {
            r.viol("encrypt_data whole-dword part differs from reference cipher", format!("len={len} key={:#010x}", key));
        }
        if buf.len() != len {
            r.viol("encrypt_data changed the length", format!("len={len}"));
        }
        wow_mpq::decrypt_file_data(&mut buf, key);
        if buf != plain {
            r.viol("decrypt_file_data does not invert encrypt_data", format!("len={len} key={:#010x} tail={}", key, len % 4));
        }
        // the same buffer at every position inside an allocation (sub-slices starting 0..=3 bytes in: at
        // least three of them are not 4-byte aligned): cipher text and inverse must not depend on the address
        for off in 0..4usize {
            let mut area = vec![0xEEu8; off + len + 5];
            area[off..off + len].copy_from_slice(&plain);
            builder.encrypt_data(&mut area[off..off + len], key);
            if area[off..off + w] != refb[..w] {
                r.viol("encrypt_data whole-dword part differs from reference cipher for a buffer that starts inside an allocation", format!("len={len} key={:#010x} start offset {off}", key));
            }
            if area[..off].iter().any(|b| *b != 0xEE) || area[off + len..].iter().any(|b| *b != 0xEE) {
                r.viol("encrypt_data writes outside the buffer it was given", format!("len={len} start offset {off}"));
            }
            wow_mpq::decrypt_file_data(&mut area[off..off + len], key);
            if area[off..off + len] != plain[..] {
                r.viol("decrypt_file_data does not invert encrypt_data for a buffer that starts inside an allocation", format!("len={len} key={:#010x} start offset {off}", key));
            }
            if area[..off].iter().any(|b| *b != 0xEE) || area[off + len..].iter().any(|b| *b != 0xEE) {
                r.viol("decrypt_file_data writes outside the buffer it was given", format!("len={len} start offset {off}"));
            }
            // and decrypting reference cipher text at that position
            area[off..off + len].copy_from_slice(&refb);
            wow_mpq::decrypt_file_data(&mut area[off..off + len], key);
            if area[off..off + w] != plain[..w] {
                r.viol("decrypt_file_data does not decrypt reference cipher text for a buffer that starts inside an allocation", format!("len={len} key={:#010x} start offset {off}", key));
            }
        }
        // u32 API on the same data when aligned
        if len % 4 == 0 {
            let mut w32: Vec<u32> = plain.chunks(4).map(|c| u32::from_le_bytes([c[0], c[1], c[2], c[3]])).collect();
            let orig = w32.clone();
            crypto::encrypt_block(&mut w32, key);
            crypto::decrypt_block(&mut w32, key);
            if w32 != orig {
                r.viol("decrypt_block does not invert encrypt_block", format!("len={len} key={:#010x}", key));
            }
        }
        r
    }
}

const ALPHA: [u8; 3] = [b'a', b'/', b'Q'];
const BLK: u64 = 6561;
struct Het {
    cases: Vec<(u32, u64)>, // (len, block)
}
impl Het {
    fn new(maxlen: u32) -> Het {
        let mut cases = vec![];
        for l in 0..=maxlen {
            let total = 3u64.pow(l);
            let nb = (total + BLK - 1) / BLK;
            for b in 0..nb {
                cases.push((l, b));
            }
        }
        Het { cases }
    }
}
fn het_ref(folded: &[u8], bits: u32) -> (u64, u8) {
    let (pc, pb) = lookup3::hashlittle2(folded, 2, 1);
    let full = ((pb as u64) << 32) | pc as u64;
    if bits >= 64 {
        (full, (full >> 56) as u8)
    } else {
        let m = (full & ((1u64 << bits) - 1)) | (1u64 << (bits - 1));
        (m, ((m >> (bits - 8)) & 0xFF) as u8)
    }
}
impl Space for Het {
    fn len(&self) -> u64 {
        self.cases.len() as u64
    }
    fn describe(&self, i: u64) -> Value {
        let (l, b) = self.cases[i as usize];
        json!({"names": format!("all names of length {l} over {{a,/,Q}}, block {b} of {BLK}"), "bits": [8, 16, 32, 48, 64]})
    }
    fn run(&self, i: u64) -> CaseResult {
        let (l, b) = self.cases[i as usize];
        let mut r = CaseResult::new();
        r.nontrivial = true;
        r.key = format!("j{i}");
        let total = 3u64.pow(l);
        let lo = b * BLK;
        let hi = (lo + BLK).min(total);
        let (mut up_only, mut lo_only, mut n) = (0u64, 0u64, 0u64);
        let mut name = vec![0u8; l as usize];
        for x in lo..hi {
            let mut y = x;
            for p in 0..l as usize {
                name[p] = ALPHA[(y % 3) as usize];
                y /= 3;
            }
            let s = std::str::from_utf8(&name).unwrap();
            let fu: Vec<u8> = name.iter().map(|&c| mpqcrypt::fold_upper(c)).collect();
            let fl: Vec<u8> = name.iter().map(|&c| mpqcrypt::fold_lower(c)).collect();
            for bits in [8u32, 16, 32, 48, 64] {
                let got = crypto::het_hash(s, bits);
                let wu = het_ref(&fu, bits);
                let wl = het_ref(&fl, bits);
                n += 1;
                if got == wu && got == wl {
                } else if got == wu {
                    up_only += 1;
                } else if got == wl {
                    lo_only += 1;
                } else {
                    r.viol("het_hash differs from reference lookup3 of the folded name", format!("name={:?} bits={bits} got={:x?} want(upper)={:x?} want(lower)={:x?}", s, got, wu, wl));
                    break;
                }
            }
            if !r.viols.is_empty() {
                break;
            }
            // one-at-a-time hash: fold invariance only (no published 64-bit reference)
            let alt: String = s.chars().map(|c| match c { 'a' => 'A', 'Q' => 'q', '/' => '\\', o => o }).collect();
            if crypto::jenkins_hash(&alt) != crypto::jenkins_hash(s) {
                r.viol("jenkins_hash not invariant under ASCII case / slash direction", format!("{:?} vs {:?}", s, alt));
                break;
            }
            let (h48, _) = crypto::calculate_het_hashes(s, 48);
            if h48 != crypto::het_hash(&alt, 48).0 {
                r.viol("calculate_het_hashes not fold-invariant / disagrees with het_hash", format!("{:?}", s));
                break;
            }
        }
        if up_only > 0 && lo_only > 0 {
            r.viol("het_hash folds case inconsistently (some names upper, some lower)", format!("len={l} block={b}"));
        }
        r.count("het_evaluations", n);
        r.count("het_matches_upper_fold_only", up_only);
        r.count("het_matches_lower_fold_only", lo_only);
        r
    }
}

/// names of EVERY length 0..=L in a handful of deterministic fill patterns: the name hash (4 types), its fold
/// invariance, and the extended-table hash at EVERY width 8..=64, against the references.  Covers every tail
/// length of the 12-byte lookup3 blocks behind any number of full blocks.
struct LongNames {
    maxlen: usize,
}
const PATTERNS: [&str; 6] = ["a", "Dir\\Sub/File.ext", "zZ/\\", "\u{fc}\u{f1}\u{e9}\u{20ac}", "0123456789abcdefghijklmnopqrstuvwxyz~`{|}[]^_@", "(x)"];
fn pattern_name(pat: usize, len: usize) -> String {
    // cycle the pattern's characters until the BYTE length reaches len (a multi-byte character that would
    // overshoot is replaced by '.' filler)
    let mut s = String::new();
    let chars: Vec<char> = PATTERNS[pat].chars().collect();
    let mut k = 0;
    while s.len() < len {
        let c = chars[k % chars.len()];
        k += 1;
        if s.len() + c.len_utf8() <= len {
            s.push(c);
        } else {
            s.push('.');
        }
    }
    s
}
impl Space for LongNames {
    fn len(&self) -> u64 {
        ((self.maxlen + 1) * PATTERNS.len()) as u64
    }
    fn describe(&self, i: u64) -> Value {
        json!({"name_length": i as usize / PATTERNS.len(), "pattern": PATTERNS[i as usize % PATTERNS.len()], "het_bits": "8..=64"})
    }
    fn run(&self, i: u64) -> CaseResult {
        let (len, pat) = (i as usize / PATTERNS.len(), i as usize % PATTERNS.len());
        let mut r = CaseResult::new();
        r.nontrivial = len > 0;
        r.key = format!("ln{i}");
        let s = pattern_name(pat, len);
        check_name(&s, &mut r);
        let fu: Vec<u8> = s.bytes().map(mpqcrypt::fold_upper).collect();
        let fl: Vec<u8> = s.bytes().map(mpqcrypt::fold_lower).collect();
        let (mut up_only, mut lo_only, mut n) = (0u64, 0u64, 0u64);
        for bits in 8u32..=64 {
            let got = crypto::het_hash(&s, bits);
            let (wu, wl) = (het_ref(&fu, bits), het_ref(&fl, bits));
            n += 1;
            if got == wu && got == wl {
            } else if got == wu {
                up_only += 1;
            } else if got == wl {
                lo_only += 1;
            } else {
                r.viol("het_hash differs from reference lookup3 of the folded name", format!("name={:?} bits={bits} got={:x?} want(upper)={:x?} want(lower)={:x?}", s, got, wu, wl));
                break;
            }
        }
        r.count("het_evaluations", n);
        r.count("het_matches_upper_fold_only", up_only);
        r.count("het_matches_lower_fold_only", lo_only);
        r
    }
}

fn build(name: &str, _arg: &str, tier: Tier) -> Box<dyn Space> {
    match name {
        "hash2" => Box::new(Hash2),
        "table" => Box::new(Table),
        "keys" => match tier {
            // quick: 2^30 keys (1024 evenly spaced runs of 2^20 consecutive keys); thorough: every one of the 2^32 keys
            Tier::Quick => Box::new(Keys { blocks: 1024, per: 1 << 20, stride_mode: false }),
            Tier::Thorough => Box::new(Keys { blocks: 4096, per: 1 << 20, stride_mode: false }),
        },
        "bytes" => {
            let mut keys = vec![0u32, 1, 0xFF, 0x100, 0x7FFF_FFFF, 0x8000_0000, 0xFFFF_FFFF];
            for n in ["(hash table)", "(block table)", "(listfile)", "file.txt"] {
                keys.push(mpqcrypt::hash_name(n.as_bytes(), 3));
            }
            let mut lens: Vec<usize> = (0..=17).collect();
            lens.extend([31, 32, 33, 511, 512, 513, 4095, 4096, 4097]);
            Box::new(Bytes { keys, lens })
        }
        "het" => Box::new(Het::new(tier.pick(12, 15))),
        "longnames" => Box::new(LongNames { maxlen: tier.pick(600, 5000) }),
        _ => panic!("space {name}"),
    }
}

fn main() {
    let Mode::Supervisor(mut c) = start("C04", "exploration", build) else { return };
    c.rule = "every string of <=2 chars over U+0000..U+07FF x 4 hash types vs refimpl (case = one first char); all 1280 table entries; keys x fixed 3-dword buffer; key pool x byte lengths 0..17 (+sector-ish) x 3 contents through encrypt_data/decrypt_file_data, each also as a sub-slice starting 0..3 bytes inside an allocation (unaligned addresses, guard bytes on both sides); all names of length 0..L over {a,/,Q} (L = 12 quick / 15 thorough) x 5 HET widths vs independent lookup3; space longnames: names of EVERY byte length 0..600 (thorough ..5000) in 6 fill patterns (letters, path with both separators, mixed case, non-ASCII, punctuation) x 4 hash types + fold invariance + EVERY HET width 8..=64. A case is non-trivial when it hashes/encrypts at least one non-empty input; distinct by case index.".into();
    c.assume("hash_string takes &str: bytes 0xC0,0xC1,0xF5..0xFF can never reach it from safe code; the fold table entries for them are unobservable and not judged");
    c.assume("HET fold: either upper- or lower-case folding is accepted provided it is the same for every name (the property fixes only that the name is folded)");
    c.assume("reference: /verif/harness/refimpl (crypt table from the seed recurrence, name hash, block cipher, lookup3) shares no code with /repo");
    for s in ["table", "hash2", "keys", "bytes", "het", "longnames"] {
        c.run_space(s, "");
    }
    let up = c.agg.counters.get("het_matches_upper_fold_only").copied().unwrap_or(0);
    let lo = c.agg.counters.get("het_matches_lower_fold_only").copied().unwrap_or(0);
    if up > 0 && lo > 0 {
        c.agg.viols.push(FoundViol { space: "het".into(), arg: "".into(), index: 0, desc: json!("global"), symptom: "het_hash folds case inconsistently (some names upper, some lower)".into(), detail: format!("upper-only {up}, lower-only {lo}") });
    }
    c.extra_cov.insert("key_domain".into(), json!(if c.tier == Tier::Thorough { "all 2^32 keys" } else { "2^30 keys: 1024 evenly spaced runs of 2^20 consecutive keys" }));
    c.finish();
}
