#[path = "../seed.rs"] mod seed;
#[path = "../seeds_adt.rs"] mod seeds_adt;
fn main() { let s = seeds_adt::seeds(); for x in &s { println!("{} {} {} bytes", x.fmt, x.name, x.bytes.len()); } match seeds_adt::selftest() { Ok(()) => println!("selftest ok"), Err(e) => { println!("selftest FAILED: {e}"); std::process::exit(1) } } }
