#[path = "../seed.rs"] mod seed;
#[path = "../seeds_m2.rs"] mod seeds_m2;
fn main() { let s = seeds_m2::seeds(); for x in &s { println!("{} {} {} bytes", x.fmt, x.name, x.bytes.len()); } if std::env::args().any(|a| a == "-v") { print!("{}", seeds_m2::report()); } match seeds_m2::selftest() { Ok(()) => println!("selftest ok"), Err(e) => { println!("selftest FAILED: {e}"); std::process::exit(1) } } }
