#[path = "../seed.rs"] mod seed;
#[path = "../seeds_wmo.rs"] mod seeds_wmo;
fn main() { let s = seeds_wmo::seeds(); for x in &s { println!("{} {} {} bytes", x.fmt, x.name, x.bytes.len()); } if std::env::args().any(|a| a == "-v") { print!("{}", seeds_wmo::report()); } match seeds_wmo::selftest() { Ok(()) => println!("selftest ok"), Err(e) => { println!("selftest FAILED: {e}"); std::process::exit(1) } } }
