//! Seeds, deviation sites and the bounded deviation space (prefixes, boundary values at 32-bit
//! field positions, chunk delete / duplicate / swap, pairs of header-level fields).
use refimpl::mpqcrypt;
use serde_json::{json, Value};

/// a plaintext view onto an encrypted MPQ table: decrypt [start, start+len) with `key`, patch, re-encrypt
#[derive(Clone, Debug)]
pub struct EncRegion {
    pub start: usize,
    pub len: usize,
    pub key: u32,
}

#[derive(Clone, Debug)]
pub struct Site {
    /// absolute file offset of the 32-bit little-endian field
    pub off: usize,
    /// stable name: structure + field or structure + offset
    pub name: String,
    pub enc: Option<usize>,
    /// header-level site (takes part in the 2-deviation space)
    pub header: bool,
}

#[derive(Clone, Debug)]
pub struct Chunk {
    pub off: usize,
    /// 8 + payload size (clamped to the file)
    pub total: usize,
    pub magic: String,
    /// index of the enclosing chunk (MCNK / MOGP / MD21 children), if any
    pub parent: Option<usize>,
}

#[derive(Clone, Debug, Default)]
pub struct Seed {
    pub fmt: String,
    pub name: String,
    pub bytes: Vec<u8>,
    pub sites: Vec<Site>,
    pub enc: Vec<EncRegion>,
    pub chunks: Vec<Chunk>,
    /// format-specific selector (DBC schema number, WDT version index, BLP externals, ...)
    pub aux: u32,
    pub extra: Vec<Vec<u8>>,
    /// thorough-only seed whose header layout repeats that of a primary seed (another version / content
    /// variant of the same writer): takes part in every 0/1-deviation class, but its all-pairs class is
    /// bounded by fewer header-level sites
    pub tier2: bool,
    /// number of trailing entries of `sites` located by a sub-structure map that was added later (MH2O
    /// instances): the quick tier keeps them out of its strided 1-field class (they carry the byte classes)
    pub extra_sites: usize,
}

pub const VALS: [&str; 10] = ["0", "1", "2^31-1", "2^31", "2^32-1", "field-1", "field+1", "file_len", "file_len-1", "file_len+1"];
/// the thorough ladder: VALS, then the boundaries of 8- and 16-bit wide sub-fields (low half, high half),
/// and "rest" = number of bytes that follow the field in the file (the largest size/count x 1 that still fits) and one more
pub const VALS_T: [&str; 23] = [
    "0", "1", "2^31-1", "2^31", "2^32-1", "field-1", "field+1", "file_len", "file_len-1", "file_len+1", "2", "255", "256", "2^15", "2^16-1", "2^16", "2^16-1<<16", "2^30", "rest", "rest+1", "2^20",
    "2^24", "2^26",
];
/// number of leading VALS_T entries every format takes in thorough; the remaining ones (counts between the
/// library's entry limits and the 32-bit multiplication overflow) are taken by the formats with table counts (mpq)
pub const VALS_T_COMMON: usize = 20;
/// value set of the 3-deviation class: thorough {0, 2^26, 2^32-1, file_len, field+1, 2^31}, quick {2^26, 2^32-1, file_len}
pub const VALS3_T: [usize; 6] = [0, 22, 4, 7, 6, 3];
pub const VALS3_Q: [usize; 3] = [22, 4, 7];
/// value subset of the 2-deviation space
pub const VALS2: [usize; 6] = [0, 4, 2, 3, 6, 7];
/// value subset of the 2-deviation space over neighbouring header-level fields (thorough)
/// thorough: a seed's located sites beyond this many take the quick ladder (10 values) instead of VALS_T
pub const FAR_SITES: usize = 2048;
pub const VALS2N: [usize; 8] = [0, 1, 2, 3, 4, 6, 7, 15];

pub fn value(vi: usize, orig: u32, file_len: usize, site_off: usize) -> u32 {
    match vi {
        10 => 2,
        11 => 255,
        12 => 256,
        13 => 0x8000,
        14 => 0xFFFF,
        15 => 0x1_0000,
        16 => 0xFFFF_0000,
        17 => 0x4000_0000,
        18 => file_len.saturating_sub(site_off + 4) as u32,
        19 => (file_len.saturating_sub(site_off + 4) as u32).wrapping_add(1),
        20 => 1 << 20,
        21 => 1 << 24,
        22 => 1 << 26,
        0 => 0,
        1 => 1,
        2 => 0x7FFF_FFFF,
        3 => 0x8000_0000,
        4 => 0xFFFF_FFFF,
        5 => orig.wrapping_sub(1),
        6 => orig.wrapping_add(1),
        7 => file_len as u32,
        8 => (file_len as u32).wrapping_sub(1),
        _ => (file_len as u32).wrapping_add(1),
    }
}

#[derive(Clone, Debug, PartialEq)]
pub enum Dev {
    None,
    Prefix(usize),
    Field { site: usize, val: usize },
    ChunkDel(usize),
    ChunkDup(usize),
    ChunkSwap(usize),
    Field2 { a: usize, va: usize, b: usize, vb: usize },
    /// thorough: payload of chunk k resized consistently (own size field and the enclosing chunks follow)
    ChunkResize(usize, usize),
    /// thorough: two siblings (not adjacent) exchanged
    ChunkSwap2(usize, usize),
    /// thorough: two siblings deleted
    ChunkDel2(usize, usize),
    /// thorough: bytes appended behind the end of the file
    Append(usize),
    /// three header fields deviate together (sites, value indices)
    Field3 { s: [usize; 3], v: [usize; 3] },
    /// one byte of the dword at a site
    Byte { site: usize, byte: usize, val: usize },
    /// two bytes of the dword at a site
    Byte2 { site: usize, b1: usize, v1: usize, b2: usize, v2: usize },
}

/// values of the byte-granular classes (b = the byte's own value)
pub const BVALS: [&str; 10] = ["0", "1", "7", "8", "9", "255", "b+1", "b-1", "127", "128"];
/// one byte of a packed 4 x u8 rectangle (offsets / extents on the 8x8 tile grid with its 9x9 vertices)
pub const BV_RECT1: [usize; 8] = [0, 1, 2, 3, 4, 5, 6, 7];
/// two bytes of such a rectangle together
pub const BV_RECT2: [usize; 4] = [0, 3, 4, 5];
/// one byte of a header-level dword {0x00, 0x01, 0x7F, 0x80, 0xFF, b+1}
pub const BV_HDR: [usize; 6] = [0, 1, 8, 9, 5, 6];
pub fn byte_value(vi: usize, orig: u8) -> u8 {
    match vi {
        0 => 0,
        1 => 1,
        2 => 7,
        3 => 8,
        4 => 9,
        5 => 255,
        6 => orig.wrapping_add(1),
        7 => orig.wrapping_sub(1),
        8 => 127,
        _ => 128,
    }
}

/// consistent payload resizes of a chunk
pub const RESIZES: [&str; 8] = ["-1", "-2", "-3", "-4", "+1", "+4", "empty", "half"];
/// trailing data: (fill, length); fill "head" = copy of the first bytes of the file
pub const APPENDS: [(&str, usize); 8] = [("00", 1), ("00", 4), ("FF", 4), ("00", 8), ("FF", 8), ("00", 4096), ("FF", 4096), ("head", 64)];

pub fn rd32(b: &[u8], o: usize) -> u32 {
    if o + 4 <= b.len() {
        u32::from_le_bytes([b[o], b[o + 1], b[o + 2], b[o + 3]])
    } else {
        0
    }
}
pub fn wr32(b: &mut [u8], o: usize, v: u32) {
    if o + 4 <= b.len() {
        b[o..o + 4].copy_from_slice(&v.to_le_bytes());
    }
}

impl Seed {
    /// current plaintext value of a site
    pub fn site_value(&self, bytes: &[u8], s: &Site) -> u32 {
        match s.enc {
            None => rd32(bytes, s.off),
            Some(e) => {
                let r = &self.enc[e];
                let mut plain = bytes[r.start..r.start + r.len].to_vec();
                mpqcrypt::decrypt_bytes_whole_dwords(&mut plain, r.key);
                rd32(&plain, s.off - r.start)
            }
        }
    }
    fn set_site(&self, bytes: &mut [u8], s: &Site, v: u32) {
        match s.enc {
            None => wr32(bytes, s.off, v),
            Some(e) => {
                let r = &self.enc[e];
                let mut plain = bytes[r.start..r.start + r.len].to_vec();
                mpqcrypt::decrypt_bytes_whole_dwords(&mut plain, r.key);
                wr32(&mut plain, s.off - r.start, v);
                mpqcrypt::encrypt_bytes_whole_dwords(&mut plain, r.key);
                bytes[r.start..r.start + r.len].copy_from_slice(&plain);
            }
        }
    }

    fn fix_parents(&self, out: &mut [u8], mut parent: Option<usize>, delta: i64) {
        // the enclosing chunks keep describing their (changed) content
        while let Some(p) = parent {
            let c = &self.chunks[p];
            let old = rd32(&self.bytes, c.off + 4) as i64;
            wr32(out, c.off + 4, (old + delta) as u32);
            parent = c.parent;
        }
    }

    /// The deviated input; `None` if it equals the seed (the case is then trivial).
    pub fn apply(&self, d: &Dev) -> Option<Vec<u8>> {
        let b = &self.bytes;
        match d {
            Dev::None => Some(b.clone()),
            Dev::Prefix(n) => {
                if *n >= b.len() {
                    None
                } else {
                    Some(b[..*n].to_vec())
                }
            }
            Dev::Field { site, val } => {
                let s = &self.sites[*site];
                let orig = self.site_value(b, s);
                let v = value(*val, orig, b.len(), s.off);
                if v == orig {
                    return None;
                }
                let mut out = b.clone();
                self.set_site(&mut out, s, v);
                Some(out)
            }
            Dev::Field2 { a, va, b: sb, vb } => {
                let (s1, s2) = (&self.sites[*a], &self.sites[*sb]);
                let (o1, o2) = (self.site_value(b, s1), self.site_value(b, s2));
                let (v1, v2) = (value(*va, o1, b.len(), s1.off), value(*vb, o2, b.len(), s2.off));
                if v1 == o1 || v2 == o2 {
                    // a pair with an unchanged member is a 1-deviation case, already enumerated
                    return None;
                }
                let mut out = b.clone();
                self.set_site(&mut out, s1, v1);
                self.set_site(&mut out, s2, v2);
                Some(out)
            }
            Dev::ChunkDel(k) => {
                let c = &self.chunks[*k];
                let mut out = Vec::with_capacity(b.len());
                out.extend_from_slice(&b[..c.off]);
                out.extend_from_slice(&b[c.off + c.total..]);
                self.fix_parents(&mut out, c.parent, -(c.total as i64));
                Some(out)
            }
            Dev::ChunkDup(k) => {
                let c = &self.chunks[*k];
                let mut out = Vec::with_capacity(b.len() + c.total);
                out.extend_from_slice(&b[..c.off + c.total]);
                out.extend_from_slice(&b[c.off..c.off + c.total]);
                out.extend_from_slice(&b[c.off + c.total..]);
                self.fix_parents(&mut out, c.parent, c.total as i64);
                Some(out)
            }
            Dev::ChunkSwap(k) => {
                // swap with the next sibling
                let c = &self.chunks[*k];
                let next = self.chunks.iter().find(|n| n.parent == c.parent && n.off == c.off + c.total)?;
                let mut out = Vec::with_capacity(b.len());
                out.extend_from_slice(&b[..c.off]);
                out.extend_from_slice(&b[next.off..next.off + next.total]);
                out.extend_from_slice(&b[c.off..c.off + c.total]);
                out.extend_from_slice(&b[next.off + next.total..]);
                if out == *b {
                    return None;
                }
                Some(out)
            }
            Dev::ChunkResize(k, mode) => {
                let c = &self.chunks[*k];
                let old = c.total - 8;
                let new = match RESIZES[*mode] {
                    "-1" => old.checked_sub(1)?,
                    "-2" => old.checked_sub(2)?,
                    "-3" => old.checked_sub(3)?,
                    "-4" => old.checked_sub(4)?,
                    "+1" => old + 1,
                    "+4" => old + 4,
                    "empty" => 0,
                    _ => old / 2,
                };
                if new == old || (RESIZES[*mode] == "half" && old < 10) {
                    // shrinking a payload of < 10 bytes to its half is one of the -1..-4 / empty cases
                    return None;
                }
                let mut out = Vec::with_capacity(b.len() + 4);
                out.extend_from_slice(&b[..c.off + 8 + new.min(old)]);
                out.extend(std::iter::repeat(0u8).take(new.saturating_sub(old)));
                out.extend_from_slice(&b[c.off + c.total..]);
                wr32(&mut out, c.off + 4, new as u32);
                self.fix_parents(&mut out, c.parent, new as i64 - old as i64);
                Some(out)
            }
            Dev::ChunkSwap2(x, y) => {
                let (c, d) = (&self.chunks[*x], &self.chunks[*y]);
                if c.parent != d.parent || c.off + c.total > d.off {
                    return None;
                }
                let mut out = Vec::with_capacity(b.len());
                out.extend_from_slice(&b[..c.off]);
                out.extend_from_slice(&b[d.off..d.off + d.total]);
                out.extend_from_slice(&b[c.off + c.total..d.off]);
                out.extend_from_slice(&b[c.off..c.off + c.total]);
                out.extend_from_slice(&b[d.off + d.total..]);
                if out == *b {
                    return None;
                }
                Some(out)
            }
            Dev::ChunkDel2(x, y) => {
                let (c, d) = (&self.chunks[*x], &self.chunks[*y]);
                if c.parent != d.parent || c.off + c.total > d.off {
                    return None;
                }
                let mut out = Vec::with_capacity(b.len());
                out.extend_from_slice(&b[..c.off]);
                out.extend_from_slice(&b[c.off + c.total..d.off]);
                out.extend_from_slice(&b[d.off + d.total..]);
                self.fix_parents(&mut out, c.parent, -((c.total + d.total) as i64));
                Some(out)
            }
            Dev::Field3 { s, v } => {
                let mut out = b.clone();
                for k in 0..3 {
                    let site = &self.sites[s[k]];
                    let orig = self.site_value(b, site);
                    let val = value(v[k], orig, b.len(), site.off);
                    if val == orig {
                        // a triple with an unchanged member is a 1- or 2-deviation case
                        return None;
                    }
                    self.set_site(&mut out, site, val);
                }
                Some(out)
            }
            Dev::Byte { site, byte, val } => {
                let st = &self.sites[*site];
                let mut d = self.site_value(b, st).to_le_bytes();
                let nv = byte_value(*val, d[*byte]);
                if nv == d[*byte] {
                    return None;
                }
                d[*byte] = nv;
                let mut out = b.clone();
                self.set_site(&mut out, st, u32::from_le_bytes(d));
                Some(out)
            }
            Dev::Byte2 { site, b1, v1, b2, v2 } => {
                let st = &self.sites[*site];
                let mut d = self.site_value(b, st).to_le_bytes();
                let (n1, n2) = (byte_value(*v1, d[*b1]), byte_value(*v2, d[*b2]));
                if n1 == d[*b1] || n2 == d[*b2] {
                    // a pair with an unchanged member is a single-byte case
                    return None;
                }
                d[*b1] = n1;
                d[*b2] = n2;
                let mut out = b.clone();
                self.set_site(&mut out, st, u32::from_le_bytes(d));
                Some(out)
            }
            Dev::Append(k) => {
                let (fill, n) = APPENDS[*k];
                let mut out = b.clone();
                match fill {
                    "00" => out.extend(std::iter::repeat(0u8).take(n)),
                    "FF" => out.extend(std::iter::repeat(0xFFu8).take(n)),
                    _ => out.extend_from_slice(&b[..n.min(b.len())]),
                }
                if out.len() == b.len() {
                    return None;
                }
                Some(out)
            }
        }
    }

    pub fn describe_dev(&self, d: &Dev) -> Value {
        let site = |i: usize| {
            let s = &self.sites[i];
            format!("{}@{:#x}", s.name, s.off)
        };
        match d {
            Dev::None => json!({"kind": "seed"}),
            Dev::Prefix(n) => json!({"kind": "prefix", "len": n, "of": self.bytes.len()}),
            Dev::Field { site: s, val } => json!({"kind": "field", "site": site(*s), "value": VALS_T[*val], "orig": self.site_value(&self.bytes, &self.sites[*s])}),
            Dev::Field2 { a, va, b, vb } => json!({"kind": "field2", "site": site(*a), "value": VALS_T[*va], "site2": site(*b), "value2": VALS_T[*vb]}),
            Dev::ChunkDel(k) => json!({"kind": "chunk_delete", "chunk": self.chunk_name(*k)}),
            Dev::ChunkDup(k) => json!({"kind": "chunk_duplicate", "chunk": self.chunk_name(*k)}),
            Dev::ChunkSwap(k) => json!({"kind": "chunk_swap_with_next", "chunk": self.chunk_name(*k)}),
            Dev::ChunkResize(k, m) => json!({"kind": "chunk_resize", "chunk": self.chunk_name(*k), "payload": RESIZES[*m], "of": self.chunks[*k].total - 8}),
            Dev::ChunkSwap2(x, y) => json!({"kind": "chunk_swap", "chunk": self.chunk_name(*x), "chunk2": self.chunk_name(*y)}),
            Dev::ChunkDel2(x, y) => json!({"kind": "chunk_delete2", "chunk": self.chunk_name(*x), "chunk2": self.chunk_name(*y)}),
            Dev::Field3 { s, v } => json!({"kind": "field3", "site": site(s[0]), "value": VALS_T[v[0]], "site2": site(s[1]), "value2": VALS_T[v[1]], "site3": site(s[2]), "value3": VALS_T[v[2]]}),
            Dev::Byte { site: st, byte, val } => json!({"kind": "byte", "site": site(*st), "byte": byte, "value": BVALS[*val], "orig": self.site_value(&self.bytes, &self.sites[*st])}),
            Dev::Byte2 { site: st, b1, v1, b2, v2 } => json!({"kind": "byte2", "site": site(*st), "byte": b1, "value": BVALS[*v1], "byte2": b2, "value2": BVALS[*v2], "orig": self.site_value(&self.bytes, &self.sites[*st])}),
            Dev::Append(k) => json!({"kind": "append", "fill": APPENDS[*k].0, "len": APPENDS[*k].1, "to": self.bytes.len()}),
        }
    }
    pub fn chunk_name(&self, k: usize) -> String {
        let c = &self.chunks[k];
        // ordinal among equally named siblings
        let ord = self.chunks[..k].iter().filter(|x| x.magic == c.magic && x.parent == c.parent).count();
        match c.parent {
            Some(p) => format!("{}/{}[{}]", self.chunk_name(p), c.magic, ord),
            None => format!("{}[{}]", c.magic, ord),
        }
    }
}

// ------------------------------------------------------------------ prefix ladders

/// seeds above this size (one: the 256-chunk terrain tile) do not get every truncation point
pub const HUGE_SEED: usize = 256 << 10;

/// thorough: every length (every truncation point of the seed); for a seed above HUGE_SEED every length
/// within the first 64 KiB and the last 4 KiB and every 7th in between (7 is coprime to the 4/8-byte
/// alignment of the chunk stream: every chunk header is cut at least once, at every offset class).
/// quick: every length up to 160, every 11th up to 4 KiB, every 997th beyond, the last 16.
pub fn prefix_lengths(len: usize, thorough: bool) -> Vec<usize> {
    let mut v = vec![];
    if thorough {
        if len > HUGE_SEED {
            v.extend(0..(64 << 10));
            v.extend(((64 << 10)..len).step_by(7));
            v.extend(len - 4096..len);
        } else {
            v.extend(0..len);
        }
    } else {
        v.extend(0..len.min(160));
        v.extend((160..len.min(4096)).step_by(11));
        v.extend((4096..len).step_by(997));
        v.extend(len.saturating_sub(16)..len);
    }
    v.sort();
    v.dedup();
    v
}

// ------------------------------------------------------------------ the enumerated space of one seed

#[derive(Clone, Debug)]
pub struct SeedSpace {
    pub prefixes: Vec<usize>,
    /// site indices enumerated in the 1-deviation field class (strided in quick)
    pub field_sites: Vec<usize>,
    pub vals: Vec<usize>,
    /// thorough: the sites from position `far_from` of `field_sites` on take the values `vals_far` (the
    /// quick ladder); only a seed with more than FAR_SITES located sites has such sites
    pub far_from: usize,
    pub vals_far: Vec<usize>,
    pub chunk_ops: Vec<Dev>,
    /// header-level site indices of the 2-deviation class (empty in quick)
    pub pair_sites: Vec<usize>,
    /// thorough: pairs of neighbouring header-level sites that are not both in `pair_sites` (x VALS2N grid)
    pub near_pairs: Vec<(usize, usize)>,
    /// value grid of the neighbour pairs (VALS2N for a primary seed, VALS2 for a tier2 seed)
    pub near_vals: Vec<usize>,
    /// thorough: number of trailing-data cases
    pub appends: usize,
    /// sites of the 3-deviation class (all triples x triple_vals^3); empty for most seeds
    pub triple_sites: Vec<usize>,
    pub triple_vals: Vec<usize>,
    /// sites that hold a packed 4 x u8 rectangle: every byte x BV_RECT1 and every byte pair x BV_RECT2^2
    pub rect_sites: Vec<usize>,
    /// header-level sites whose single bytes take BV_HDR
    pub byte_sites: Vec<usize>,
}

impl SeedSpace {
    pub fn pairs(&self) -> u64 {
        let n = self.pair_sites.len() as u64;
        n * n.saturating_sub(1) / 2
    }
    pub fn len(&self) -> u64 {
        1 + self.prefixes.len() as u64
            + self.field_cases()
            + self.chunk_ops.len() as u64
            + self.pairs() * (VALS2.len() * VALS2.len()) as u64
            + self.near_cases()
            + self.appends as u64
            + self.triple_cases()
            + self.rect_cases()
            + self.byte_cases()
    }
    pub const RECT_PER_SITE: u64 = (4 * BV_RECT1.len() + 6 * BV_RECT2.len() * BV_RECT2.len()) as u64;
    pub fn rect_cases(&self) -> u64 {
        self.rect_sites.len() as u64 * Self::RECT_PER_SITE
    }
    pub fn byte_cases(&self) -> u64 {
        (self.byte_sites.len() * 4 * BV_HDR.len()) as u64
    }
    pub fn triples(&self) -> u64 {
        let n = self.triple_sites.len() as u64;
        if n < 3 { 0 } else { n * (n - 1) * (n - 2) / 6 }
    }
    pub fn triple_cases(&self) -> u64 {
        self.triples() * (self.triple_vals.len() as u64).pow(3)
    }
    pub fn field_cases(&self) -> u64 {
        let near = self.far_from.min(self.field_sites.len());
        (near * self.vals.len() + (self.field_sites.len() - near) * self.vals_far.len()) as u64
    }
    pub fn near_cases(&self) -> u64 {
        self.near_pairs.len() as u64 * (self.near_vals.len() * self.near_vals.len()) as u64
    }
    pub fn dev(&self, mut i: u64) -> Dev {
        if i == 0 {
            return Dev::None;
        }
        i -= 1;
        if i < self.prefixes.len() as u64 {
            return Dev::Prefix(self.prefixes[i as usize]);
        }
        i -= self.prefixes.len() as u64;
        let nf = self.field_cases();
        if i < nf {
            // value varies fastest
            let near = self.far_from.min(self.field_sites.len());
            let n_near = (near * self.vals.len()) as u64;
            if i < n_near {
                let s = (i / self.vals.len() as u64) as usize;
                let v = (i % self.vals.len() as u64) as usize;
                return Dev::Field { site: self.field_sites[s], val: self.vals[v] };
            }
            let j = i - n_near;
            let s = near + (j / self.vals_far.len() as u64) as usize;
            let v = (j % self.vals_far.len() as u64) as usize;
            return Dev::Field { site: self.field_sites[s], val: self.vals_far[v] };
        }
        i -= nf;
        if i < self.chunk_ops.len() as u64 {
            return self.chunk_ops[i as usize].clone();
        }
        i -= self.chunk_ops.len() as u64;
        let vv = (VALS2.len() * VALS2.len()) as u64;
        if i >= self.pairs() * vv {
            i -= self.pairs() * vv;
            if i < self.near_cases() {
                let nn = self.near_vals.len() as u64;
                let (a, b) = self.near_pairs[(i / (nn * nn)) as usize];
                let vi = i % (nn * nn);
                return Dev::Field2 { a, va: self.near_vals[(vi / nn) as usize], b, vb: self.near_vals[(vi % nn) as usize] };
            }
            i -= self.near_cases();
            if i < self.appends as u64 {
                return Dev::Append(i as usize);
            }
            i -= self.appends as u64;
            if i >= self.triple_cases() {
                i -= self.triple_cases();
                if i < self.rect_cases() {
                    let site = self.rect_sites[(i / Self::RECT_PER_SITE) as usize];
                    let j = (i % Self::RECT_PER_SITE) as usize;
                    let singles = 4 * BV_RECT1.len();
                    if j < singles {
                        return Dev::Byte { site, byte: j / BV_RECT1.len(), val: BV_RECT1[j % BV_RECT1.len()] };
                    }
                    let j = j - singles;
                    let nn = BV_RECT2.len() * BV_RECT2.len();
                    const PAIRS: [(usize, usize); 6] = [(0, 1), (0, 2), (0, 3), (1, 2), (1, 3), (2, 3)];
                    let (b1, b2) = PAIRS[j / nn];
                    return Dev::Byte2 { site, b1, v1: BV_RECT2[j % nn / BV_RECT2.len()], b2, v2: BV_RECT2[j % BV_RECT2.len()] };
                }
                i -= self.rect_cases();
                let per = (4 * BV_HDR.len()) as u64;
                let j = (i % per) as usize;
                return Dev::Byte { site: self.byte_sites[(i / per) as usize], byte: j / BV_HDR.len(), val: BV_HDR[j % BV_HDR.len()] };
            }
            let k = self.triple_vals.len() as u64;
            let (mut t, vi) = (i / (k * k * k), i % (k * k * k));
            let n = self.triple_sites.len();
            for a in 0..n {
                for b in a + 1..n {
                    let rest = (n - b - 1) as u64;
                    if t < rest {
                        let c = b + 1 + t as usize;
                        return Dev::Field3 {
                            s: [self.triple_sites[a], self.triple_sites[b], self.triple_sites[c]],
                            v: [self.triple_vals[(vi / (k * k)) as usize], self.triple_vals[(vi / k % k) as usize], self.triple_vals[(vi % k) as usize]],
                        };
                    }
                    t -= rest;
                }
            }
            unreachable!("triple index beyond the class");
        }
        let pair = i / vv;
        let vi = i % vv;
        // decode pair index -> (a < b)
        let n = self.pair_sites.len() as u64;
        let mut a = 0u64;
        let mut rem = pair;
        while rem >= n - 1 - a {
            rem -= n - 1 - a;
            a += 1;
        }
        let b = a + 1 + rem;
        Dev::Field2 {
            a: self.pair_sites[a as usize],
            va: VALS2[(vi / VALS2.len() as u64) as usize],
            b: self.pair_sites[b as usize],
            vb: VALS2[(vi % VALS2.len() as u64) as usize],
        }
    }
}

/// evenly strided subset of at most `max` elements (always keeps the first and last)
pub fn stride<T: Clone>(v: &[T], max: usize) -> Vec<T> {
    if v.len() <= max || max == 0 {
        return v.to_vec();
    }
    let mut out = vec![];
    for k in 0..max {
        let i = k * (v.len() - 1) / (max - 1).max(1);
        out.push(v[i].clone());
    }
    out
}

// ------------------------------------------------------------------ independent chunk walker

/// Walk `magic[4] size[u32le] payload` records in [start, end). Stops at the first record that
/// does not fit. Written from the chunked-file description in /repo/docs (IFF-style chunks).
pub fn walk_chunks(b: &[u8], start: usize, end: usize, parent: Option<usize>, out: &mut Vec<Chunk>) {
    let mut o = start;
    while o + 8 <= end {
        let size = rd32(b, o + 4) as usize;
        if o + 8 + size > end {
            break;
        }
        let raw = &b[o..o + 4];
        let magic: String = raw.iter().map(|&c| if c.is_ascii_graphic() { c as char } else { '?' }).collect();
        out.push(Chunk { off: o, total: 8 + size, magic, parent });
        o += 8 + size;
    }
}

/// sites of a chunk: magic, size, and the 32-bit positions of the first `head` payload bytes
pub fn chunk_sites(seed_bytes: &[u8], c: &Chunk, name: &str, head: usize, header: bool, out: &mut Vec<Site>) {
    out.push(Site { off: c.off, name: format!("{name}.magic"), enc: None, header });
    out.push(Site { off: c.off + 4, name: format!("{name}.size"), enc: None, header });
    let n = (c.total - 8).min(head);
    let mut o = 0;
    while o + 4 <= n {
        if c.off + 8 + o + 4 <= seed_bytes.len() {
            out.push(Site { off: c.off + 8 + o, name: format!("{name}+{:#x}", o), enc: None, header });
        }
        o += 4;
    }
}

// ------------------------------------------------------------------ seed (de)serialisation

fn put_u64(o: &mut Vec<u8>, v: u64) {
    o.extend_from_slice(&v.to_le_bytes());
}
fn put_bytes(o: &mut Vec<u8>, b: &[u8]) {
    put_u64(o, b.len() as u64);
    o.extend_from_slice(b);
}
struct Rd<'a>(&'a [u8], usize);
impl Rd<'_> {
    fn u64(&mut self) -> u64 {
        let v = u64::from_le_bytes(self.0[self.1..self.1 + 8].try_into().unwrap());
        self.1 += 8;
        v
    }
    fn bytes(&mut self) -> Vec<u8> {
        let n = self.u64() as usize;
        let v = self.0[self.1..self.1 + n].to_vec();
        self.1 += n;
        v
    }
    fn string(&mut self) -> String {
        String::from_utf8(self.bytes()).unwrap()
    }
}

/// seeds are generated in a short-lived child process (see `seeds_in_child`) and shipped as bytes
pub fn encode_seeds(v: &[Seed]) -> Vec<u8> {
    let mut o = vec![];
    put_u64(&mut o, v.len() as u64);
    for s in v {
        put_bytes(&mut o, s.fmt.as_bytes());
        put_bytes(&mut o, s.name.as_bytes());
        put_bytes(&mut o, &s.bytes);
        put_u64(&mut o, s.aux as u64);
        put_u64(&mut o, s.tier2 as u64);
        put_u64(&mut o, s.extra_sites as u64);
        put_u64(&mut o, s.sites.len() as u64);
        for x in &s.sites {
            put_u64(&mut o, x.off as u64);
            put_bytes(&mut o, x.name.as_bytes());
            put_u64(&mut o, x.enc.map(|e| e as u64 + 1).unwrap_or(0));
            put_u64(&mut o, x.header as u64);
        }
        put_u64(&mut o, s.enc.len() as u64);
        for e in &s.enc {
            put_u64(&mut o, e.start as u64);
            put_u64(&mut o, e.len as u64);
            put_u64(&mut o, e.key as u64);
        }
        put_u64(&mut o, s.chunks.len() as u64);
        for c in &s.chunks {
            put_u64(&mut o, c.off as u64);
            put_u64(&mut o, c.total as u64);
            put_bytes(&mut o, c.magic.as_bytes());
            put_u64(&mut o, c.parent.map(|p| p as u64 + 1).unwrap_or(0));
        }
        put_u64(&mut o, s.extra.len() as u64);
        for e in &s.extra {
            put_bytes(&mut o, e);
        }
    }
    o
}
pub fn decode_seeds(b: &[u8]) -> Vec<Seed> {
    let mut r = Rd(b, 0);
    let n = r.u64();
    let mut v = vec![];
    for _ in 0..n {
        let mut s = Seed { fmt: r.string(), name: r.string(), bytes: r.bytes(), aux: r.u64() as u32, ..Default::default() };
        s.tier2 = r.u64() != 0;
        s.extra_sites = r.u64() as usize;
        for _ in 0..r.u64() {
            let off = r.u64() as usize;
            let name = r.string();
            let e = r.u64();
            let header = r.u64() != 0;
            s.sites.push(Site { off, name, enc: if e == 0 { None } else { Some(e as usize - 1) }, header });
        }
        for _ in 0..r.u64() {
            s.enc.push(EncRegion { start: r.u64() as usize, len: r.u64() as usize, key: r.u64() as u32 });
        }
        for _ in 0..r.u64() {
            let off = r.u64() as usize;
            let total = r.u64() as usize;
            let magic = r.string();
            let p = r.u64();
            s.chunks.push(Chunk { off, total, magic, parent: if p == 0 { None } else { Some(p as usize - 1) } });
        }
        for _ in 0..r.u64() {
            s.extra.push(r.bytes());
        }
        v.push(s);
    }
    v
}
