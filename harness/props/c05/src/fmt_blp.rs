//! BLP0/1/2: seeds from image_to_blp + encode_blp/encode_blp0, flat header sites, entry points.
use crate::core::*;
use crate::sandbox::Recorder;
use crate::{flat_seed, Format};
use image::{DynamicImage, RgbaImage};
use wow_blp::convert::{blp_to_image, image_to_blp, AlphaBits, Blp2Format, BlpOldFormat, BlpTarget, DxtAlgorithm, FilterType};
use wow_blp::encode::{encode_blp, encode_blp0};
use wow_blp::parser::{load_blp_from_buf, parse_blp, parse_blp_with_externals};

fn img(w: u32, h: u32) -> DynamicImage {
    DynamicImage::ImageRgba8(RgbaImage::from_fn(w, h, |x, y| image::Rgba([(x * 37 + 5) as u8, (y * 91 + 3) as u8, ((x + y) * 13) as u8, if (x + y) % 3 == 0 { 0 } else { 255 - (x * 7) as u8 }])))
}

pub struct Blp;
impl Format for Blp {
    fn name(&self) -> &'static str {
        "blp"
    }
    fn measures_consumption(&self) -> bool {
        false
    }
    fn seeds(&self) -> Vec<Seed> {
        let alg = DxtAlgorithm::RangeFit;
        let defs: Vec<(&str, u32, u32, bool, BlpTarget)> = vec![
            ("blp1_raw1_a8_8x8_mips", 8, 8, true, BlpTarget::Blp1(BlpOldFormat::Raw1 { alpha_bits: AlphaBits::Bit8 })),
            ("blp1_raw1_a1_16x4_mips", 16, 4, true, BlpTarget::Blp1(BlpOldFormat::Raw1 { alpha_bits: AlphaBits::Bit1 })),
            ("blp1_raw1_a0_4x4_nomips", 4, 4, false, BlpTarget::Blp1(BlpOldFormat::Raw1 { alpha_bits: AlphaBits::NoAlpha })),
            ("blp1_jpeg_alpha_8x8_mips", 8, 8, true, BlpTarget::Blp1(BlpOldFormat::Jpeg { has_alpha: true })),
            ("blp2_raw1_a4_8x8_mips", 8, 8, true, BlpTarget::Blp2(Blp2Format::Raw1 { alpha_bits: AlphaBits::Bit4 })),
            ("blp2_raw3_8x4_mips", 8, 4, true, BlpTarget::Blp2(Blp2Format::Raw3)),
            ("blp2_jpeg_8x8_nomips", 8, 8, false, BlpTarget::Blp2(Blp2Format::Jpeg { has_alpha: false })),
            ("blp2_dxt1_a_16x16_mips", 16, 16, true, BlpTarget::Blp2(Blp2Format::Dxt1 { has_alpha: true, compress_algorithm: alg })),
            ("blp2_dxt3_8x8_mips", 8, 8, true, BlpTarget::Blp2(Blp2Format::Dxt3 { has_alpha: true, compress_algorithm: alg })),
            ("blp2_dxt5_5x5_mips", 5, 5, true, BlpTarget::Blp2(Blp2Format::Dxt5 { has_alpha: true, compress_algorithm: alg })),
            ("blp0_raw1_a8_8x8_mips", 8, 8, true, BlpTarget::Blp0(BlpOldFormat::Raw1 { alpha_bits: AlphaBits::Bit8 })),
            ("blp0_jpeg_4x4_mips", 4, 4, true, BlpTarget::Blp0(BlpOldFormat::Jpeg { has_alpha: true })),
        ];
        let mut out = vec![];
        for (name, w, h, mips, tgt) in defs {
            let is0 = matches!(tgt, BlpTarget::Blp0(_));
            let t = image_to_blp(img(w, h), mips, tgt, FilterType::Nearest).unwrap_or_else(|e| panic!("image_to_blp {name}: {e}"));
            let (bytes, ext) = if is0 {
                let e = encode_blp0(&t).unwrap_or_else(|e| panic!("encode_blp0 {name}: {e}"));
                (e.blp_bytes, e.blp_mipmaps)
            } else {
                (encode_blp(&t).unwrap_or_else(|e| panic!("encode_blp {name}: {e}")), vec![])
            };
            let mut s = flat_seed("blp", name, bytes, is0 as u32, 168);
            s.extra = ext;
            out.push(s);
        }
        if crate::thorough() {
            // the remaining (version, encoding, alpha depth) combinations of the converter, extreme and
            // non-square dimensions, deeper mip chains; a combination the converter refuses yields no seed
            let more: Vec<(&str, u32, u32, bool, BlpTarget)> = vec![
                ("blp1_raw1_a4_8x8_mips", 8, 8, true, BlpTarget::Blp1(BlpOldFormat::Raw1 { alpha_bits: AlphaBits::Bit4 })),
                ("blp1_raw1_a8_1x1_nomips", 1, 1, false, BlpTarget::Blp1(BlpOldFormat::Raw1 { alpha_bits: AlphaBits::Bit8 })),
                ("blp1_jpeg_noalpha_8x8_nomips", 8, 8, false, BlpTarget::Blp1(BlpOldFormat::Jpeg { has_alpha: false })),
                ("blp1_jpeg_alpha_32x8_mips", 32, 8, true, BlpTarget::Blp1(BlpOldFormat::Jpeg { has_alpha: true })),
                ("blp2_raw1_a0_8x8_mips", 8, 8, true, BlpTarget::Blp2(Blp2Format::Raw1 { alpha_bits: AlphaBits::NoAlpha })),
                ("blp2_raw1_a1_16x8_mips", 16, 8, true, BlpTarget::Blp2(Blp2Format::Raw1 { alpha_bits: AlphaBits::Bit1 })),
                ("blp2_raw1_a8_32x32_mips", 32, 32, true, BlpTarget::Blp2(Blp2Format::Raw1 { alpha_bits: AlphaBits::Bit8 })),
                ("blp2_raw3_1x1_mips", 1, 1, true, BlpTarget::Blp2(Blp2Format::Raw3)),
                ("blp2_jpeg_alpha_16x16_mips", 16, 16, true, BlpTarget::Blp2(Blp2Format::Jpeg { has_alpha: true })),
                ("blp2_dxt1_noalpha_8x8_mips", 8, 8, true, BlpTarget::Blp2(Blp2Format::Dxt1 { has_alpha: false, compress_algorithm: alg })),
                ("blp2_dxt3_noalpha_4x4_nomips", 4, 4, false, BlpTarget::Blp2(Blp2Format::Dxt3 { has_alpha: false, compress_algorithm: alg })),
                ("blp2_dxt5_noalpha_64x16_mips", 64, 16, true, BlpTarget::Blp2(Blp2Format::Dxt5 { has_alpha: false, compress_algorithm: alg })),
                ("blp2_dxt1_a_1x1_mips", 1, 1, true, BlpTarget::Blp2(Blp2Format::Dxt1 { has_alpha: true, compress_algorithm: alg })),
                ("blp0_raw1_a1_8x8_nomips", 8, 8, false, BlpTarget::Blp0(BlpOldFormat::Raw1 { alpha_bits: AlphaBits::Bit1 })),
                ("blp0_jpeg_noalpha_16x16_mips", 16, 16, true, BlpTarget::Blp0(BlpOldFormat::Jpeg { has_alpha: false })),
            ];
            for (name, w, h, mips, tgt) in more {
                let is0 = matches!(tgt, BlpTarget::Blp0(_));
                let made = std::panic::catch_unwind(|| {
                    let t = image_to_blp(img(w, h), mips, tgt, FilterType::Nearest).ok()?;
                    if is0 {
                        let e = encode_blp0(&t).ok()?;
                        Some((e.blp_bytes, e.blp_mipmaps))
                    } else {
                        Some((encode_blp(&t).ok()?, vec![]))
                    }
                });
                let Ok(Some((bytes, ext))) = made else { continue };
                // a seed is a file the first entry point accepts
                let ok = if is0 { parse_blp_with_externals(&bytes, |i| Ok(ext.get(i).map(|v| v.as_slice()))).is_ok() } else { parse_blp(&bytes).is_ok() };
                if !ok {
                    continue;
                }
                let mut s = flat_seed("blp", name, bytes, is0 as u32, 168);
                s.extra = ext;
                s.tier2 = true;
                out.push(s);
            }
        }
        out
    }
    fn run(&self, seed: &Seed, input: &[u8], rec: &mut Recorder, _scratch: &std::path::Path) {
        let ext = &seed.extra;
        let parsed = if seed.aux == 1 {
            // BLP0: mip levels live in external files, handed over by the callback
            let p = rec.call("blp::parse_blp_with_externals", || parse_blp_with_externals(input, |i| Ok(ext.get(i).map(|v| v.as_slice()))));
            let _ = rec.leaf("blp::parse_blp", || parse_blp(input));
            p
        } else {
            let _ = rec.leaf("blp::parse_blp_with_externals", || parse_blp_with_externals(input, |i| Ok(ext.get(i).map(|v| v.as_slice()))));
            rec.call("blp::parse_blp", || parse_blp(input))
        };
        let _ = rec.leaf("blp::load_blp_from_buf", || load_blp_from_buf(input));
        if let Some(im) = parsed {
            rec.leaf_plain("BlpImage::mipmap_info", || {
                let _ = im.image_count();
                let _ = im.mipmap_info();
                let _ = im.best_mipmap_for_size(64);
                let _ = im.header.mipmaps_count();
                let _ = im.header.internal_mipmaps();
            });
            // level 0, level 1, the last level and one past the end
            let n = im.image_count().min(17);
            let mut lv = vec![0, 1, n.saturating_sub(1), n];
            lv.sort();
            lv.dedup();
            for lvl in lv {
                let ep = if lvl == 0 { "blp::blp_to_image[level 0]" } else { "blp::blp_to_image[level >= 1]" };
                let _ = rec.leaf(ep, || blp_to_image(&im, lvl));
            }
            if crate::thorough() {
                // every level in between, and the raw JPEG stream of every level
                for lvl in 2..n.saturating_sub(1) {
                    let _ = rec.leaf("blp::blp_to_image[level >= 1]", || blp_to_image(&im, lvl));
                }
                if let Some(j) = im.content_jpeg() {
                    rec.leaf_plain("BlpJpeg::full_jpeg", || (0..=n).filter_map(|i| j.full_jpeg(i)).map(|v| v.len()).sum::<usize>());
                }
            }
        }
        if crate::heavy() {
            // the path-based loader: the file plus, for BLP0, its mip level files next to it
            let path = _scratch.join("t.blp");
            if std::fs::write(&path, input).is_ok() {
                for (i, e) in ext.iter().enumerate().take(16) {
                    let _ = std::fs::write(_scratch.join(format!("t.b{i:02}")), e);
                }
                let _ = rec.leaf("blp::load_blp", || wow_blp::parser::load_blp(&path));
                let _ = std::fs::remove_file(&path);
                for i in 0..ext.len().min(16) {
                    let _ = std::fs::remove_file(_scratch.join(format!("t.b{i:02}")));
                }
            }
        }
    }
}
