//! DBC (WDBC / WDB2 / WDB5 containers): seeds, flat header sites, eager / lazy / mmap / parallel paths.
use crate::core::*;
use crate::sandbox::Recorder;
use crate::{flat_seed, CountingCursor, Format};
use std::io::Cursor;
use std::sync::Arc;
use wow_cdbc::{DbcParser, DbcWriter, FieldType, LazyDbcParser, MmapDbcFile, Schema, SchemaDiscoverer, SchemaField, StringBlock, Value};

fn schema(k: u32) -> Schema {
    let mut s = Schema::new("T");
    match k {
        0 => {
            s.add_field(SchemaField::new("id", FieldType::UInt32));
            s.add_field(SchemaField::new("name", FieldType::String));
            s.add_field(SchemaField::new("value", FieldType::Float32));
            s.add_field(SchemaField::new("flags", FieldType::Int32));
            s.add_field(SchemaField::new_array("arr", FieldType::UInt32, 2));
            s.set_key_field_index(0);
        }
        1 => {
            s.add_field(SchemaField::new("id", FieldType::UInt32));
            s.add_field(SchemaField::new("a", FieldType::UInt8));
            s.add_field(SchemaField::new("b", FieldType::Int8));
            s.add_field(SchemaField::new("c", FieldType::UInt16));
            s.add_field(SchemaField::new("on", FieldType::Bool));
            s.add_field(SchemaField::new("title", FieldType::String));
            s.set_key_field_index(0);
        }
        _ => {
            s.add_field(SchemaField::new("name", FieldType::String));
        }
    }
    s
}
/// (record size, header field count) of schema k
fn shape(k: u32) -> (usize, u32) {
    match k {
        0 => (24, 6),
        1 => (16, 6),
        _ => (4, 1),
    }
}

/// byte-level WDBC / WDB2 / WDB5 emitter (from the container description in /repo/docs)
fn emit(container: &str, k: u32, n: usize) -> Vec<u8> {
    let strings = ["", "alpha", "Beta\u{fc}", "a longer string with spaces", "z"];
    let mut sb: Vec<u8> = vec![0];
    let mut offs = vec![0u32];
    for s in &strings[1..] {
        offs.push(sb.len() as u32);
        sb.extend_from_slice(s.as_bytes());
        sb.push(0);
    }
    let (rs, fc) = shape(k);
    let mut recs = vec![];
    for i in 0..n {
        let id = (i as u32 + 1) * 10;
        match k {
            0 => {
                recs.extend(id.to_le_bytes());
                recs.extend(offs[i % offs.len()].to_le_bytes());
                recs.extend((1.5f32 * i as f32).to_le_bytes());
                recs.extend((-(i as i32)).to_le_bytes());
                recs.extend((i as u32).to_le_bytes());
                recs.extend(0xFFFF_FFFFu32.to_le_bytes());
            }
            1 => {
                recs.extend(id.to_le_bytes());
                recs.push(i as u8);
                recs.push((-(i as i8)) as u8);
                recs.extend((i as u16 * 257).to_le_bytes());
                recs.extend(((i % 2) as u32).to_le_bytes());
                recs.extend(offs[(i + 1) % offs.len()].to_le_bytes());
            }
            _ => recs.extend(offs[(i + 2) % offs.len()].to_le_bytes()),
        }
    }
    assert_eq!(recs.len(), rs * n);
    let mut out = vec![];
    let hdr5 = |out: &mut Vec<u8>, magic: &[u8; 4]| {
        out.extend_from_slice(magic);
        out.extend((n as u32).to_le_bytes());
        out.extend(fc.to_le_bytes());
        out.extend((rs as u32).to_le_bytes());
        out.extend((sb.len() as u32).to_le_bytes());
    };
    match container {
        "WDBC" => hdr5(&mut out, b"WDBC"),
        "WDB2_basic" => {
            hdr5(&mut out, b"WDB2");
            out.extend(0x1234_5678u32.to_le_bytes()); // table hash
            out.extend(12000u32.to_le_bytes()); // build <= 12880: 28-byte header
        }
        "WDB2_ext" | "WDB2_ext_index" => {
            hdr5(&mut out, b"WDB2");
            out.extend(0x1234_5678u32.to_le_bytes());
            out.extend(15595u32.to_le_bytes()); // build > 12880: extended header
            out.extend(0u32.to_le_bytes()); // timestamp
            let (min, max) = if container == "WDB2_ext_index" { (10i32, 10 * n.max(1) as i32) } else { (0, 0) };
            out.extend(min.to_le_bytes());
            out.extend(max.to_le_bytes());
            out.extend(0i32.to_le_bytes()); // locale
            out.extend(0u32.to_le_bytes()); // copy table size
            if max != 0 {
                // index array (4 bytes) + string-length array (2 bytes) per id in min..=max
                let cnt = (max - min + 1) as usize;
                out.extend(std::iter::repeat(0u8).take(cnt * 6));
            }
        }
        _ => {
            // WDB5: 48-byte header
            hdr5(&mut out, b"WDB5");
            out.extend(0x1234_5678u32.to_le_bytes()); // table hash
            out.extend(0x9ABC_DEF0u32.to_le_bytes()); // layout hash
            out.extend(10i32.to_le_bytes()); // min id
            out.extend((10 * n.max(1) as i32).to_le_bytes()); // max id
            out.extend(0u32.to_le_bytes()); // locale
            out.extend(0u32.to_le_bytes()); // copy table size
            out.extend(0u16.to_le_bytes()); // flags
            out.extend(0u16.to_le_bytes()); // id index
        }
    }
    out.extend(recs);
    out.extend(sb);
    out
}

pub struct Dbc;
impl Format for Dbc {
    fn name(&self) -> &'static str {
        "dbc"
    }
    fn seeds(&self) -> Vec<Seed> {
        let mut out = vec![];
        let defs: [(&str, &str, u32, usize); 10] = [
            ("wdbc_s0_n0", "WDBC", 0, 0),
            ("wdbc_s0_n1", "WDBC", 0, 1),
            ("wdbc_s0_n7", "WDBC", 0, 7),
            ("wdbc_s1_n5", "WDBC", 1, 5),
            ("wdbc_s2_n40", "WDBC", 2, 40),
            ("wdb2_basic_s0_n3", "WDB2_basic", 0, 3),
            ("wdb2_ext_s0_n3", "WDB2_ext", 0, 3),
            ("wdb2_ext_index_s1_n4", "WDB2_ext_index", 1, 4),
            ("wdb5_s0_n3", "WDB5", 0, 3),
            ("wdb5_s2_n9", "WDB5", 2, 9),
        ];
        let mut defs: Vec<(&str, &str, u32, usize, bool)> = defs.iter().map(|d| (d.0, d.1, d.2, d.3, false)).collect();
        if crate::thorough() {
            // larger tables (record counts around the 8-bit boundaries, longer index ranges)
            defs.extend([
                ("wdbc_s0_n100", "WDBC", 0, 100, true),
                ("wdbc_s1_n128", "WDBC", 1, 128, true),
                ("wdbc_s2_n257", "WDBC", 2, 257, true),
                ("wdb2_ext_index_s0_n20", "WDB2_ext_index", 0, 20, true),
                ("wdb5_s1_n40", "WDB5", 1, 40, true),
            ]);
        }
        for (name, cont, k, n, tier2) in defs {
            let mut bytes = emit(cont, k, n);
            let mut nm = name.to_string();
            if cont == "WDBC" {
                // the seed proper is what the crate's own writer makes of the table
                let rs = DbcParser::parse_bytes(&bytes).and_then(|p| p.with_schema(schema(k))).and_then(|p| p.parse_records());
                if let Ok(rs) = rs {
                    let mut cur = Cursor::new(Vec::new());
                    if DbcWriter::new(&mut cur).with_schema(schema(k)).write_records(&rs).is_ok() {
                        bytes = cur.into_inner();
                        nm.push_str("_written");
                    }
                }
            }
            let mut sd = flat_seed("dbc", &nm, bytes, k, 48);
            sd.tier2 = tier2;
            out.push(sd);
        }
        out
    }
    fn run(&self, seed: &Seed, input: &[u8], rec: &mut Recorder, scratch: &std::path::Path) {
        let mut cc = CountingCursor::new(input);
        let p0 = rec.call("DbcParser::parse", || DbcParser::parse(&mut cc));
        rec.max_consumed = rec.max_consumed.max(cc.max_end);
        let p1 = rec.call("DbcParser::parse_bytes", || DbcParser::parse_bytes(input));
        if crate::thorough() {
            // the header readers of every container generation on the raw bytes
            let _ = rec.leaf("DbcVersion::detect", || wow_cdbc::DbcVersion::detect(&mut Cursor::new(input)));
            let _ = rec.leaf("DbcHeader::parse", || wow_cdbc::DbcHeader::parse(&mut Cursor::new(input)));
            let _ = rec.leaf("Wdb2Header::parse", || wow_cdbc::Wdb2Header::parse(&mut Cursor::new(input)));
            let _ = rec.leaf("Wdb5Header::parse", || wow_cdbc::Wdb5Header::parse(&mut Cursor::new(input)));
        }
        drop(p0);
        let mut sblock: Option<Arc<StringBlock>> = None;
        if let Some(p) = p1 {
            let hdr = p.header().clone();
            if let Some(rs) = rec.call("DbcParser::parse_records[no schema]", || p.parse_records()) {
                sblock = Some(Arc::new(rs.string_block().clone()));
            }
            let withs = rec.call("DbcParser::with_schema", || DbcParser::parse_bytes(input).and_then(|q| q.with_schema(schema(seed.aux))));
            if let Some(ps) = &withs {
                if let Some(mut rs) = rec.call("DbcParser::parse_records[schema]", || ps.parse_records()) {
                    rec.leaf_plain("RecordSet::get_string", || {
                        let mut n = 0;
                        for r in rs.records().iter().take(2000) {
                            for v in r.values() {
                                if let Value::StringRef(sr) = v {
                                    let _ = rs.get_string(*sr);
                                    n += 1;
                                }
                            }
                        }
                        n
                    });
                    let _ = rec.leaf("RecordSet::create_sorted_key_map", || rs.create_sorted_key_map());
                    rec.leaf_plain("RecordSet::get_record_by_key", || {
                        let _ = rs.get_record_by_key(10);
                        let _ = rs.get_record_by_key_binary_search(10);
                        let _ = rs.get_record(0);
                    });
                    rec.call_plain("RecordSet::enable_string_caching", || rs.enable_string_caching());
                    if sblock.is_none() {
                        sblock = Some(Arc::new(rs.string_block().clone()));
                    }
                }
            }
            if sblock.is_none() {
                let mut c = Cursor::new(input);
                if let Some(sb) = rec.call("StringBlock::parse", || StringBlock::parse(&mut c, hdr.string_block_offset(), hdr.string_block_size)) {
                    sblock = Some(Arc::new(sb));
                }
            }
            if let Some(sb) = &sblock {
                for (tag, sch) in [("no schema", None), ("schema", withs.as_ref().and_then(|q| q.schema()))] {
                    if tag == "schema" && sch.is_none() {
                        continue;
                    }
                    let lazy = LazyDbcParser::new(p.data(), &hdr, sch, Arc::clone(sb));
                    let _ = rec.leaf(&format!("LazyDbcParser::record_iterator[{tag}]"), || {
                        // bounded walk: the iterator of a conforming implementation ends or errs
                        let mut n = 0u32;
                        for x in lazy.record_iterator() {
                            x?;
                            n += 1;
                            if n >= 20_000 {
                                break;
                            }
                        }
                        Ok::<u32, wow_cdbc::Error>(n)
                    });
                    for (which, idx) in [("first", 0u32), ("last", hdr.record_count.wrapping_sub(1)), ("count", hdr.record_count)] {
                        let _ = rec.leaf(&format!("LazyDbcParser::get_record[{tag}]"), || lazy.get_record(idx));
                        let _ = which;
                    }
                    let _ = rec.leaf(&format!("parse_records_parallel[{tag}]"), || wow_cdbc::parse_records_parallel(p.data(), &hdr, sch, Arc::clone(sb)));
                }
                if crate::thorough() {
                    rec.leaf_plain("CachedStringBlock::get_string", || {
                        let c = wow_cdbc::CachedStringBlock::from_string_block(sb);
                        let mut n = 0usize;
                        for off in [0u32, 1, 2, hdr.string_block_size.wrapping_sub(1), hdr.string_block_size, 0x7FFF_FFFF, 0xFFFF_FFFF] {
                            n += c.get_string(wow_cdbc::StringRef::new(off)).map(|s| s.len()).unwrap_or(0);
                            n += sb.get_string(wow_cdbc::StringRef::new(off)).map(|s| s.len()).unwrap_or(0);
                        }
                        n
                    });
                }
                let _ = rec.leaf("SchemaDiscoverer::discover", || SchemaDiscoverer::new(&hdr, p.data(), sb).discover());
                let _ = rec.leaf("SchemaDiscoverer::generate_schema", || SchemaDiscoverer::new(&hdr, p.data(), sb).with_max_records(50).generate_schema("T"));
            }
        }
        // memory-mapped path
        let path = scratch.join("t.dbc");
        if std::fs::write(&path, input).is_ok() {
            if let Some(mm) = rec.call("MmapDbcFile::open", || MmapDbcFile::open(&path)) {
                let _ = rec.leaf("MmapDbcFile::parser.parse_records", || mm.parser().parse_records());
                let _ = rec.leaf("MmapDbcFile::parser_with_schema.parse_records", || mm.parser_with_schema(schema(seed.aux)).and_then(|q| q.parse_records()));
                let _ = rec.leaf("MmapDbcFile::string_block", || mm.string_block());
            }
            let _ = std::fs::remove_file(&path);
        }
    }
}
