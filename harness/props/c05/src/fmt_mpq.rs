//! MPQ archives (+ PTCH patch blobs and raw codec streams): seeds from the real ArchiveBuilder
//! (via mpqx) and from the independent `mpqref` writer, an independent structure map (header,
//! user-data header, hash / block / hi-block tables, HET / BET tables incl. the plaintext inside
//! the encrypted tables, first dwords of every stored file), and the entry points.
use crate::core::*;
use crate::sandbox::Recorder;
use crate::{flat_seed, Format};
use md5::{Digest, Md5};
use refimpl::mpqcrypt::{self, hash_name};
use refimpl::mpqref::{self, WFile, WOptions, F_PATCH, F_SINGLE, M_BZIP2, M_ZLIB};
use std::path::Path;
use vcore::{gen, Scratch};
use wow_mpq::patch::{apply_patch, PatchFile};
use wow_mpq::{Archive, MutableArchive, PatchChain};

// ------------------------------------------------------------------ structure map

const HDR_FIELDS: [(usize, &str); 29] = [
    (0x00, "magic"),
    (0x04, "header_size"),
    (0x08, "archive_size"),
    (0x0C, "format_version+block_size_shift"),
    (0x10, "hash_table_pos"),
    (0x14, "block_table_pos"),
    (0x18, "hash_table_entries"),
    (0x1C, "block_table_entries"),
    (0x20, "hi_block_table_pos.lo"),
    (0x24, "hi_block_table_pos.hi"),
    (0x28, "hash_pos_hi16+block_pos_hi16"),
    (0x2C, "archive_size64.lo"),
    (0x30, "archive_size64.hi"),
    (0x34, "bet_table_pos.lo"),
    (0x38, "bet_table_pos.hi"),
    (0x3C, "het_table_pos.lo"),
    (0x40, "het_table_pos.hi"),
    (0x44, "hash_table_size64.lo"),
    (0x48, "hash_table_size64.hi"),
    (0x4C, "block_table_size64.lo"),
    (0x50, "block_table_size64.hi"),
    (0x54, "hi_block_table_size64.lo"),
    (0x58, "hi_block_table_size64.hi"),
    (0x5C, "het_table_size64.lo"),
    (0x60, "het_table_size64.hi"),
    (0x64, "bet_table_size64.lo"),
    (0x68, "bet_table_size64.hi"),
    (0x6C, "raw_chunk_size"),
    (0x70, "md5_block_table[0]"),
];
const HET_FIELDS: [&str; 8] = ["table_size", "max_file_count", "hash_table_size", "hash_entry_size", "total_index_size", "index_size_extra", "index_size", "block_table_size"];
const BET_FIELDS: [&str; 19] = [
    "table_size",
    "file_count",
    "unknown_08",
    "table_entry_size",
    "bit_index_file_pos",
    "bit_index_file_size",
    "bit_index_cmp_size",
    "bit_index_flag_index",
    "bit_index_unknown",
    "bit_count_file_pos",
    "bit_count_file_size",
    "bit_count_cmp_size",
    "bit_count_flag_index",
    "bit_count_unknown",
    "total_bet_hash_size",
    "bet_hash_size_extra",
    "bet_hash_size",
    "bet_hash_array_size",
    "flag_count",
];

fn rd64(b: &[u8], o: usize) -> u64 {
    rd32(b, o) as u64 | (rd32(b, o + 4) as u64) << 32
}

/// Locate the structures of an MPQ file (independent of /repo; from the MPQ format description).
pub fn mpq_map(s: &mut Seed) {
    let b = s.bytes.clone();
    let mut sites: Vec<Site> = vec![];
    let mut enc: Vec<EncRegion> = vec![];
    let plain = |off: usize, name: String, header: bool| Site { off, name, enc: None, header };
    // header search on 512-byte boundaries, following a user-data header
    let mut off = 0usize;
    let mut hdr = None;
    while off + 32 <= b.len() {
        if &b[off..off + 4] == b"MPQ\x1a" {
            hdr = Some(off);
            break;
        }
        if &b[off..off + 4] == b"MPQ\x1b" {
            for (k, n) in ["magic", "user_data_size", "header_offset", "user_data_header_size"].iter().enumerate() {
                sites.push(plain(off + 4 * k, format!("userdata.{n}"), true));
            }
            let ho = rd32(&b, off + 8) as usize;
            if off + ho + 32 <= b.len() && &b[off + ho..off + ho + 4] == b"MPQ\x1a" {
                hdr = Some(off + ho);
            }
            break;
        }
        off += 512;
    }
    let Some(h) = hdr else {
        s.sites = sites;
        return;
    };
    let hsize = (rd32(&b, h + 4) as usize).min(208).min(b.len() - h);
    for (o, n) in HDR_FIELDS {
        if o + 4 <= hsize {
            sites.push(plain(h + o, format!("header.{n}"), true));
        }
    }
    for (k, n) in ["md5_hash_table", "md5_hi_block_table", "md5_bet_table", "md5_het_table", "md5_header"].iter().enumerate() {
        let o = 0x80 + 16 * k;
        if o + 4 <= hsize {
            sites.push(plain(h + o, format!("header.{n}[0]"), false));
        }
    }
    let v2 = hsize >= 44;
    let hash_pos = rd32(&b, h + 0x10) as u64 | if v2 { ((rd32(&b, h + 0x28) & 0xFFFF) as u64) << 32 } else { 0 };
    let block_pos = rd32(&b, h + 0x14) as u64 | if v2 { ((rd32(&b, h + 0x28) >> 16) as u64) << 32 } else { 0 };
    let hash_n = rd32(&b, h + 0x18) as usize;
    let block_n = rd32(&b, h + 0x1C) as usize;
    let v4 = hsize >= 208;
    // classic block table (decrypted first: the hash map needs the block count sanity check)
    let mut blocks: Vec<[u32; 4]> = vec![];
    let bt = h + block_pos as usize;
    let bt_plain_len = block_n * 16;
    let bt_uncompressed = !v4 || rd64(&b, h + 0x4C) as usize == bt_plain_len;
    if block_n > 0 && block_pos > 0 && bt + bt_plain_len <= b.len() && bt_uncompressed {
        let mut p = b[bt..bt + bt_plain_len].to_vec();
        mpqcrypt::decrypt_bytes_whole_dwords(&mut p, hash_name(b"(block table)", 3));
        for i in 0..block_n {
            blocks.push([rd32(&p, 16 * i), rd32(&p, 16 * i + 4), rd32(&p, 16 * i + 8), rd32(&p, 16 * i + 12)]);
        }
        // sane = every entry flagged EXISTS lies inside the file
        let sane = blocks.iter().all(|e| e[3] & 0x8000_0000 == 0 || h as u64 + e[0] as u64 + e[1] as u64 <= b.len() as u64);
        if sane {
            enc.push(EncRegion { start: bt, len: bt_plain_len, key: hash_name(b"(block table)", 3) });
            let r = enc.len() - 1;
            for i in 0..block_n.min(24) {
                for (k, n) in ["file_pos", "compressed_size", "file_size", "flags"].iter().enumerate() {
                    sites.push(Site { off: bt + 16 * i + 4 * k, name: format!("block_table[{i}].{n}"), enc: Some(r), header: i < 2 });
                }
            }
        } else {
            blocks.clear();
        }
    }
    // classic hash table
    let ht = h + hash_pos as usize;
    let ht_plain_len = hash_n * 16;
    let ht_uncompressed = !v4 || rd64(&b, h + 0x44) as usize == ht_plain_len;
    if hash_n > 0 && hash_pos > 0 && ht + ht_plain_len <= b.len() && ht_uncompressed {
        let mut p = b[ht..ht + ht_plain_len].to_vec();
        mpqcrypt::decrypt_bytes_whole_dwords(&mut p, hash_name(b"(hash table)", 3));
        let idx = |i: usize| rd32(&p, 16 * i + 12);
        let sane = (0..hash_n).all(|i| idx(i) >= 0xFFFF_FFFE || (idx(i) as usize) < block_n.max(1));
        if sane {
            enc.push(EncRegion { start: ht, len: ht_plain_len, key: hash_name(b"(hash table)", 3) });
            let r = enc.len() - 1;
            let occupied: Vec<usize> = (0..hash_n).filter(|&i| idx(i) < 0xFFFF_FFFE).collect();
            let empty: Vec<usize> = (0..hash_n).filter(|&i| idx(i) >= 0xFFFF_FFFE).take(2).collect();
            let mut chosen: Vec<usize> = occupied.into_iter().take(12).chain(empty).collect();
            chosen.sort();
            for (n, &i) in chosen.iter().enumerate() {
                for (k, f) in ["name_a", "name_b", "locale+platform", "block_index"].iter().enumerate() {
                    sites.push(Site { off: ht + 16 * i + 4 * k, name: format!("hash_table[{i}].{f}"), enc: Some(r), header: n < 1 });
                }
            }
        }
    }
    // hi-block table (plain u16 per block)
    if v2 {
        let hb = rd64(&b, h + 0x20) as usize;
        if hb != 0 && h + hb + block_n * 2 <= b.len() {
            let mut o = 0;
            while o + 4 <= block_n * 2 {
                sites.push(plain(h + hb + o, format!("hi_block_table+{o:#x}"), false));
                o += 4;
            }
        }
    }
    // HET / BET (extended header in the clear, body encrypted with the table keys)
    if hsize >= 68 {
        for (which, pos_off, sz_off, sig, key_name, fields) in [
            ("het", 0x3Cusize, 0x5Cusize, b"HET\x1a", &b"(hash table)"[..], &HET_FIELDS[..]),
            ("bet", 0x34, 0x64, b"BET\x1a", &b"(block table)"[..], &BET_FIELDS[..]),
        ] {
            let pos = rd64(&b, h + pos_off) as usize;
            if pos == 0 || h + pos + 12 > b.len() || &b[h + pos..h + pos + 4] != sig {
                continue;
            }
            let t = h + pos;
            for (k, n) in ["signature", "version", "data_size"].iter().enumerate() {
                sites.push(plain(t + 4 * k, format!("{which}.ext.{n}"), true));
            }
            let data_size = rd32(&b, t + 8) as usize;
            let stored = if v4 { (rd64(&b, h + sz_off) as usize).saturating_sub(12) } else { data_size };
            let len = stored / 4 * 4;
            if len < fields.len() * 4 || t + 12 + len > b.len() || stored < data_size {
                // compressed table: only the outer fields are sites
                continue;
            }
            let key = hash_name(key_name, 3);
            let mut p = b[t + 12..t + 12 + len].to_vec();
            mpqcrypt::decrypt_bytes_whole_dwords(&mut p, key);
            // plausibility of the decrypted header: table_size describes the table
            let ts = rd32(&p, 0) as usize;
            if ts != data_size && ts != data_size + 12 {
                continue;
            }
            enc.push(EncRegion { start: t + 12, len, key });
            let r = enc.len() - 1;
            for (k, n) in fields.iter().enumerate() {
                sites.push(Site { off: t + 12 + 4 * k, name: format!("{which}.{n}"), enc: Some(r), header: true });
            }
            let mut o = fields.len() * 4;
            let mut extra = 0;
            while o + 4 <= len && extra < 8 {
                sites.push(Site { off: t + 12 + o, name: format!("{which}.body+{:#x}", o - fields.len() * 4), enc: Some(r), header: false });
                o += 4;
                extra += 1;
            }
        }
    }
    // stored file data: sector offset table / compression byte / patch info live in the first dwords
    for (i, e) in blocks.iter().enumerate().take(24) {
        if e[3] & 0x8000_0000 == 0 {
            continue;
        }
        let p = h + e[0] as usize;
        let n = (e[1] as usize).min(32);
        let mut o = 0;
        while o + 4 <= n && p + o + 4 <= b.len() {
            sites.push(plain(p + o, format!("file[{i}].stored+{o:#x}"), false));
            o += 4;
        }
    }
    s.sites = sites;
    s.enc = enc;
}

// ------------------------------------------------------------------ seeds

const NAMES: [&str; 3] = ["a.txt", "Dir\\b.bin", "Data\\Sub\\c.dat"];

fn contents() -> Vec<Vec<u8>> {
    vec![gen::content("period251", 100, 512, 1), gen::content("sparse", 1300, 512, 2), gen::content("half", 2100, 512, 3)]
}

fn built(sc: &Scratch, name: &str, c: mpqx::Config) -> Seed {
    let path = sc.path("seed.mpq");
    let _ = std::fs::remove_file(&path);
    let mut b = c.builder();
    for (n, d) in NAMES.iter().zip(contents()) {
        b = c.add(b, n, d);
    }
    b.build(&path).unwrap_or_else(|e| panic!("ArchiveBuilder {name}: {e}"));
    let bytes = std::fs::read(&path).expect("read built archive");
    let mut s = Seed { fmt: "mpq".into(), name: name.into(), bytes, ..Default::default() };
    mpq_map(&mut s);
    s
}

/// an archive with `n` small files (names in several directories)
fn built_many(sc: &Scratch, name: &str, c: mpqx::Config, n: usize) -> Seed {
    let path = sc.path("seed.mpq");
    let _ = std::fs::remove_file(&path);
    let mut b = c.builder();
    for (nm, d) in NAMES.iter().zip(contents()) {
        b = c.add(b, nm, d);
    }
    for k in 0..n.saturating_sub(NAMES.len()) {
        let nm = format!("{}File{:03}.{}", ["", "Dir\\", "Data\\Sub\\"][k % 3], k, ["txt", "blp", "m2"][k % 3]);
        b = c.add(b, &nm, gen::content("period251", 20 + 13 * k, 512, k as u64));
    }
    b.build(&path).unwrap_or_else(|e| panic!("ArchiveBuilder {name}: {e}"));
    let bytes = std::fs::read(&path).expect("read built archive");
    let mut s = Seed { fmt: "mpq".into(), name: name.into(), bytes, ..Default::default() };
    mpq_map(&mut s);
    s
}

fn md5(d: &[u8]) -> [u8; 16] {
    let mut h = Md5::new();
    h.update(d);
    h.finalize().into()
}

/// RLE of the PTCH BSD0 payload: 0x80|(n-1) + n literal bytes; (n-1) = run of n zero bytes
fn rle(d: &[u8]) -> Vec<u8> {
    let mut out = (d.len() as u32).to_le_bytes().to_vec();
    let mut i = 0;
    while i < d.len() {
        if d[i] == 0 {
            let mut n = 0;
            while i + n < d.len() && d[i + n] == 0 && n < 128 {
                n += 1;
            }
            out.push((n - 1) as u8);
            i += n;
        } else {
            let mut n = 0;
            while i + n < d.len() && d[i + n] != 0 && n < 128 {
                n += 1;
            }
            out.push(0x80 | (n - 1) as u8);
            out.extend_from_slice(&d[i..i + n]);
            i += n;
        }
    }
    out
}

/// PTCH blob (from the patch-file description in /repo/docs): PTCH header, MD5_ block, XFRM block
pub fn ptch(kind: &str, base: &[u8], new: &[u8]) -> Vec<u8> {
    let (ty, payload, patch_data_size): (&[u8; 4], Vec<u8>, u32) = match kind {
        "COPY" => (b"COPY", new.to_vec(), new.len() as u32),
        _ => {
            // bsdiff40: one control triple: add min(len) bytes as differences, then the rest as extra
            let add = base.len().min(new.len());
            let mut bs = b"BSDIFF40".to_vec();
            bs.extend(12u64.to_le_bytes());
            bs.extend((add as u64).to_le_bytes());
            bs.extend((new.len() as u64).to_le_bytes());
            bs.extend((add as u32).to_le_bytes());
            bs.extend(((new.len() - add) as u32).to_le_bytes());
            bs.extend(0u32.to_le_bytes());
            bs.extend((0..add).map(|i| new[i].wrapping_sub(base[i])));
            bs.extend_from_slice(&new[add..]);
            let n = bs.len() as u32;
            (b"BSD0", rle(&bs), n)
        }
    };
    let mut out = b"PTCH".to_vec();
    out.extend(patch_data_size.to_le_bytes());
    out.extend((base.len() as u32).to_le_bytes());
    out.extend((new.len() as u32).to_le_bytes());
    out.extend_from_slice(b"MD5_");
    out.extend(40u32.to_le_bytes());
    out.extend(md5(base));
    out.extend(md5(new));
    out.extend_from_slice(b"XFRM");
    out.extend((12 + payload.len() as u32).to_le_bytes());
    out.extend_from_slice(ty);
    out.extend(payload);
    out
}

fn base_file() -> Vec<u8> {
    gen::content("period251", 300, 512, 9)
}
fn new_file() -> Vec<u8> {
    let mut v = base_file();
    for i in (0..v.len()).step_by(7) {
        v[i] = v[i].wrapping_add(3);
    }
    v.extend_from_slice(b"tail added by the patch");
    v
}

fn reference(name: &str, files: &[WFile], opt: &WOptions) -> Seed {
    let bytes = mpqref::write(files, opt).unwrap_or_else(|e| panic!("mpqref::write {name}: {e}"));
    let mut s = Seed { fmt: "mpq".into(), name: name.into(), bytes, ..Default::default() };
    mpq_map(&mut s);
    s
}

pub struct Mpq;
impl Format for Mpq {
    fn name(&self) -> &'static str {
        "mpq"
    }
    fn measures_consumption(&self) -> bool {
        false
    }
    /// 3-deviation class.  quick: the 7 size/position/count fields of the classic header of one V2 seed;
    /// thorough: the first 8 (V1), 11 (V2) or 17 (V4) header dwords of the listed primary seeds.
    fn triple_sites(&self, seed: &Seed, thorough: bool) -> Vec<usize> {
        let by_names = |names: &[&str]| -> Vec<usize> { names.iter().filter_map(|n| seed.sites.iter().position(|s| s.name == format!("header.{n}"))).collect() };
        let first = |n: usize| -> Vec<usize> { by_names(&HDR_FIELDS.iter().take(n).map(|f| f.1).collect::<Vec<_>>()) };
        if !thorough {
            return if seed.name == "v2_bzip2_encrypted_shift1" {
                by_names(&["archive_size", "hash_table_pos", "block_table_pos", "hash_table_entries", "block_table_entries", "hi_block_table_pos.lo", "hi_block_table_pos.hi"])
            } else {
                vec![]
            };
        }
        match seed.name.as_str() {
            "v1_plain_store_shift3_listfile" | "v1_zlib_sectored_shift0_listfile" | "v1_zlib_encrypted_fixkey_shift0" | "v1_zlib_crc_attrs_full_shift0" | "ref_v1_userdata_prefix_zlib_sectored" => first(8),
            "v2_bzip2_encrypted_shift1" | "v2_sparse_nolistfile_attrs_crc32" | "v2_lzma_crc_shift0" | "ref_v2_deleted_slots_hash4_bzip2_single_unit_encrypted" => first(11),
            "v4_zlib_sectored_crc_attrs_full" => first(17),
            _ => vec![],
        }
    }
    fn seeds(&self) -> Vec<Seed> {
        let sc = Scratch::new("c05-mpqseed");
        let cfg = |version, shift, comp, crypto, crc, attrs, listfile, tcomp| mpqx::Config { version, shift, comp, crypto, crc, attrs, listfile, tcomp };
        let mut v = vec![
            built(&sc, "v1_plain_store_shift3_listfile", cfg(0, 3, 0, 0, false, 0, true, false)),
            built(&sc, "v1_zlib_sectored_shift0_listfile", cfg(0, 0, 1, 0, false, 0, true, false)),
            built(&sc, "v1_zlib_encrypted_fixkey_shift0", cfg(0, 0, 1, 2, false, 0, true, false)),
            built(&sc, "v1_zlib_crc_attrs_full_shift0", cfg(0, 0, 1, 0, true, 2, true, false)),
            built(&sc, "v2_bzip2_encrypted_shift1", cfg(1, 1, 2, 1, false, 0, true, false)),
            built(&sc, "v2_sparse_nolistfile_attrs_crc32", cfg(1, 0, 4, 0, false, 1, false, false)),
            built(&sc, "v2_lzma_crc_shift0", cfg(1, 0, 3, 0, true, 0, true, false)),
            built(&sc, "v3_store_hetbet_listfile", cfg(2, 3, 0, 0, false, 0, true, false)),
            built(&sc, "v3_zlib_encrypted_crc_attrs_full", cfg(2, 0, 1, 1, true, 2, true, false)),
            built(&sc, "v4_store_listfile", cfg(3, 3, 0, 0, false, 0, true, false)),
            built(&sc, "v4_zlib_sectored_crc_attrs_full", cfg(3, 0, 1, 0, true, 2, true, false)),
            built(&sc, "v4_pkware_compressed_tables", cfg(3, 0, 5, 0, false, 0, true, true)),
        ];
        if crate::thorough() {
            // further builder configurations (codecs, table compression, crypto x version), an archive with many
            // entries, and archives nested behind a user-data header or embedded at a 512-byte boundary
            // a configuration the builder refuses yields no seed
            let tryb = |f: &dyn Fn() -> Seed| std::panic::catch_unwind(std::panic::AssertUnwindSafe(f)).ok();
            let mut more: Vec<Seed> = [
                tryb(&|| built(&sc, "v1_pkware_shift0", cfg(0, 0, 5, 0, false, 0, true, false))),
                tryb(&|| built(&sc, "v1_adpcm_mono_zlib_crc", cfg(0, 0, 6, 0, true, 0, true, false))),
                tryb(&|| built(&sc, "v2_adpcm_stereo_zlib_encrypted_nolistfile", cfg(1, 0, 7, 1, false, 0, false, false))),
                tryb(&|| built(&sc, "v3_bzip2_fixkey_attrs_crc32", cfg(2, 1, 2, 2, false, 1, true, false))),
                tryb(&|| built(&sc, "v3_sparse_crc_nolistfile", cfg(2, 0, 4, 0, true, 0, false, false))),
                tryb(&|| built(&sc, "v4_lzma_encrypted_fixkey_compressed_tables", cfg(3, 0, 3, 2, false, 2, true, true))),
                tryb(&|| built(&sc, "v4_bzip2_shift1_nolistfile_attrs_crc32", cfg(3, 1, 2, 0, true, 1, false, false))),
                tryb(&|| built_many(&sc, "v1_zlib_40_files", cfg(0, 0, 1, 0, false, 2, true, false), 40)),
                tryb(&|| built_many(&sc, "v4_zlib_40_files", cfg(3, 0, 1, 0, true, 2, true, false), 40)),
            ]
            .into_iter()
            .flatten()
            .collect();
            for (name, c) in [
                ("nested_userdata_v2_bzip2_encrypted", cfg(1, 1, 2, 1, false, 0, true, false)),
                ("nested_userdata_v3_zlib_crc_attrs", cfg(2, 0, 1, 0, true, 2, true, false)),
                ("nested_userdata_v4_zlib_crc_attrs", cfg(3, 0, 1, 0, true, 2, true, false)),
            ] {
                let inner = built(&sc, name, c);
                // user-data header: magic, user data size, offset of the MPQ header, size of this header; then user data
                let mut b = b"MPQ\x1b".to_vec();
                b.extend(64u32.to_le_bytes());
                b.extend(1024u32.to_le_bytes());
                b.extend(16u32.to_le_bytes());
                b.extend((0..64u8).map(|k| k.wrapping_mul(37)));
                b.resize(1024, 0);
                b.extend_from_slice(&inner.bytes);
                let mut s = Seed { fmt: "mpq".into(), name: name.into(), bytes: b, ..Default::default() };
                mpq_map(&mut s);
                more.push(s);
            }
            for (name, c, at) in [("embedded_at_0x200_v1_zlib", cfg(0, 0, 1, 0, false, 0, true, false), 512usize), ("embedded_at_0x600_v4_store", cfg(3, 3, 0, 0, false, 0, true, false), 1536)] {
                let inner = built(&sc, name, c);
                // leading bytes that are no MPQ header (an executable stub in real files)
                let mut b: Vec<u8> = (0..at).map(|k| (k as u8).wrapping_mul(29).wrapping_add(7)).collect();
                b[..2].copy_from_slice(b"MZ");
                b.extend_from_slice(&inner.bytes);
                let mut s = Seed { fmt: "mpq".into(), name: name.into(), bytes: b, ..Default::default() };
                mpq_map(&mut s);
                more.push(s);
            }
            for mut s in more {
                s.tier2 = true;
                v.push(s);
            }
        }
        let c = contents();
        let wf = |n: &str, d: &[u8], method: u8, encrypt: bool, fix_key: bool, single_unit: bool| WFile { name: n.as_bytes().to_vec(), data: d.to_vec(), method, encrypt, fix_key, single_unit, raw_flags: 0, in_listfile: true };
        v.push(reference(
            "ref_v1_userdata_prefix_zlib_sectored",
            &[wf(NAMES[0], &c[0], M_ZLIB, false, false, false), wf(NAMES[1], &c[1], M_ZLIB, false, false, false)],
            &WOptions { version: 0, shift: 0, hash_size: 16, listfile: true, userdata_prefix: 512, deleted_slots: vec![], reuse_deleted: true },
        ));
        v.push(reference(
            "ref_v2_deleted_slots_hash4_bzip2_single_unit_encrypted",
            &[wf(NAMES[0], &c[0], M_BZIP2, true, false, true), wf(NAMES[2], &c[2], M_BZIP2, true, true, true)],
            &WOptions { version: 1, shift: 1, hash_size: 4, listfile: true, userdata_prefix: 0, deleted_slots: vec![0, 3], reuse_deleted: true },
        ));
        v.push(reference(
            "ref_v1_store_sectored_encrypted_fixkey",
            &[wf(NAMES[1], &c[1], 0, true, true, false), wf(NAMES[2], &c[2], M_ZLIB, true, false, false)],
            &WOptions { version: 0, shift: 0, hash_size: 8, listfile: true, userdata_prefix: 0, deleted_slots: vec![], reuse_deleted: true },
        ));
        // patch archive: the entry is flagged PATCH_FILE; stored = TPatchInfo (28 bytes) + PTCH blob
        for kind in ["COPY", "BSD0"] {
            let blob = ptch(kind, &base_file(), &new_file());
            let mut stored = 28u32.to_le_bytes().to_vec();
            stored.extend(0u32.to_le_bytes());
            stored.extend((blob.len() as u32).to_le_bytes());
            stored.extend(md5(&blob));
            stored.extend_from_slice(&blob);
            let mut pf = wf("patched.bin", &stored, 0, false, false, true);
            pf.raw_flags = F_PATCH | F_SINGLE;
            let mut s = reference(
                &format!("ref_v1_patch_entry_{}", kind.to_lowercase()),
                &[pf, wf(NAMES[0], &c[0], M_ZLIB, false, false, false)],
                &WOptions { version: 0, shift: 3, hash_size: 8, listfile: true, userdata_prefix: 0, deleted_slots: vec![], reuse_deleted: true },
            );
            // the base archive the patch chain starts from
            let base = mpqref::write(&[wf("patched.bin", &base_file(), M_ZLIB, false, false, false)], &WOptions { version: 0, shift: 3, hash_size: 8, listfile: true, userdata_prefix: 0, deleted_slots: vec![], reuse_deleted: true })
                .expect("base archive");
            s.extra = vec![base];
            s.aux = 1;
            v.push(s);
        }
        v
    }
    fn run(&self, seed: &Seed, input: &[u8], rec: &mut Recorder, scratch: &Path) {
        let path = scratch.join("case.mpq");
        std::fs::write(&path, input).expect("scratch write");
        let mut names: Vec<String> = NAMES.iter().map(|s| s.to_string()).collect();
        names.extend(["patched.bin", "(listfile)", "(attributes)", "(signature)", "Absent\\nope.bin"].iter().map(|s| s.to_string()));
        if let Some(mut a) = rec.call("Archive::open", || Archive::open(&path)) {
            let _ = rec.leaf("Archive::get_info", || a.get_info());
            let mut listed: Vec<wow_mpq::archive::FileEntry> = vec![];
            if let Some(l) = rec.call("Archive::list", || a.list()) {
                for e in l.iter().take(40) {
                    if !names.contains(&e.name) {
                        names.push(e.name.clone());
                    }
                }
            }
            if let Some(l) = rec.call("Archive::list_all", || a.list_all()) {
                listed = l;
            }
            let _ = rec.leaf("Archive::list_with_hashes", || a.list_with_hashes());
            let _ = rec.leaf("Archive::list_all_with_hashes", || a.list_all_with_hashes());
            for n in &names {
                let _ = rec.leaf("Archive::find_file", || a.find_file(n));
                if let Some(d) = rec.leaf("Archive::read_file", || a.read_file(n)) {
                    rec.note("mpq_files_read_ok", 1);
                    rec.note("mpq_bytes_read", d.len() as u64);
                }
            }
            // every listed entry on the unmodified seed and in the thorough 1-deviation classes, else the first
            let all = input == &seed.bytes[..] || (crate::thorough() && !crate::LIGHT.load(std::sync::atomic::Ordering::Relaxed));
            for e in listed.iter().take(if all { 8 } else { 1 }) {
                if let Some((hi, bi)) = e.table_indices {
                    let _ = rec.leaf("Archive::read_file_by_indices", || a.read_file_by_indices(hi, bi));
                }
            }
            let _ = rec.call("Archive::load_attributes", || a.load_attributes());
            rec.leaf_plain("Archive::get_file_attributes", || {
                for i in 0..8 {
                    let _ = a.get_file_attributes(i);
                }
            });
            let _ = rec.leaf("Archive::verify_signature", || a.verify_signature());
            if crate::thorough() {
                // the lookup paths over the parsed tables (bit-unpacking of HET/BET entries, hash probing)
                rec.leaf_plain("HetTable::find_file / BetTable::get_file_info / HashTable::find_file", || {
                    let mut n = 0u32;
                    if let Some(h) = a.het_table() {
                        for nm in names.iter().take(6) {
                            n += h.find_file(nm).is_some() as u32;
                            n += h.find_file_with_collision_info(nm).1.len() as u32;
                        }
                    }
                    if let Some(b) = a.bet_table() {
                        for i in (0..10).chain([0x7FFF_FFFF, 0xFFFF_FFFF]) {
                            n += b.get_file_info(i).is_some() as u32;
                            n += b.get_file_hash(i).is_some() as u32;
                        }
                        n += b.verify_file_hash(0, &names[0]) as u32;
                    }
                    if let Some(h) = a.hash_table() {
                        for nm in names.iter().take(6) {
                            n += h.find_file(nm, 0).is_some() as u32;
                        }
                    }
                    if let Some(h) = a.hi_block_table() {
                        for i in 0..10 {
                            n += h.get_file_pos_high(i) as u32;
                        }
                    }
                    n
                });
            }
        }
        if crate::thorough() {
            // header location and header parse on a reader
            let _ = rec.leaf("header::find_header", || wow_mpq::header::find_header(&mut std::io::Cursor::new(input)));
            let _ = rec.leaf("MpqHeader::read", || wow_mpq::MpqHeader::read(&mut std::io::Cursor::new(input)));
        }
        // tables loaded on demand
        if let Some(mut a) = rec.call("OpenOptions::open[load_tables=false]", || wow_mpq::OpenOptions::new().load_tables(false).open(&path)) {
            let _ = rec.leaf("Archive::load_tables", || a.load_tables());
        }
        // patch chain: base archive (where the seed has one) below the case archive
        {
            let mut chain = PatchChain::new();
            if seed.aux == 1 {
                let bpath = scratch.join("base.mpq");
                std::fs::write(&bpath, &seed.extra[0]).expect("scratch write");
                let _ = rec.call("PatchChain::add_archive[base]", || chain.add_archive(&bpath, 0));
            }
            if rec.call("PatchChain::add_archive", || chain.add_archive(&path, 100)).is_some() {
                let _ = rec.leaf("PatchChain::list", || chain.list());
                for n in names.iter().take(5) {
                    let _ = rec.leaf("PatchChain::read_file", || chain.read_file(n));
                }
                if crate::thorough() {
                    rec.leaf_plain("PatchChain::extract_files / get_chain_info", || {
                        let nm: Vec<&str> = names.iter().take(5).map(|s| s.as_str()).collect();
                        chain.extract_files(&nm).len() + chain.get_chain_info().len()
                    });
                }
            }
        }
        // the modification API parses the archive on open as well
        if let Some(mut m) = rec.call("MutableArchive::open", || MutableArchive::open(&path)) {
            let _ = rec.leaf("MutableArchive::list", || m.list());
            for n in names.iter().take(2) {
                let _ = rec.leaf("MutableArchive::read_file", || m.read_file(n));
            }
            if crate::thorough() {
                for n in names.iter().take(2) {
                    let _ = rec.leaf("MutableArchive::find_file", || m.find_file(n));
                }
                let _ = rec.leaf("MutableArchive::load_attributes", || m.load_attributes());
                let _ = rec.leaf("MutableArchive::verify_signature", || m.verify_signature());
            }
            rec.leaf_plain("MutableArchive::drop", || drop(m));
        }
        // thorough, 1-deviation classes: the whole-archive consumers (each opens the archive itself)
        if crate::heavy() {
            if let Some(pa) = rec.call("ParallelArchive::open", || wow_mpq::single_archive_parallel::ParallelArchive::open(&path)) {
                let nm: Vec<&str> = names.iter().take(4).map(|s| s.as_str()).collect();
                let _ = rec.leaf("ParallelArchive::extract_files_parallel", || pa.extract_files_parallel(&nm));
                let _ = rec.leaf("ParallelArchive::read_file_with_new_handle", || pa.read_file_with_new_handle(nm[0]));
            }
            let _ = rec.leaf("rebuild_archive[list_only]", || {
                let opt = wow_mpq::RebuildOptions { list_only: true, ..Default::default() };
                wow_mpq::rebuild_archive(&path, &scratch.join("rebuilt.mpq"), opt, None)
            });
            let _ = std::fs::remove_file(scratch.join("rebuilt.mpq"));
            let _ = rec.leaf("compare_archives[with itself, content]", || wow_mpq::compare_archives(&path, &path, true, true, false, false, None));
        }
        let _ = std::fs::remove_file(&path);
    }
}

// ------------------------------------------------------------------ PTCH blobs

pub struct Ptch;
impl Format for Ptch {
    fn name(&self) -> &'static str {
        "ptch"
    }
    fn measures_consumption(&self) -> bool {
        false
    }
    fn seeds(&self) -> Vec<Seed> {
        let mut v = vec![];
        for (name, kind, base, new) in [
            ("copy_300_to_323", "COPY", base_file(), new_file()),
            ("bsd0_300_to_323", "BSD0", base_file(), new_file()),
            ("bsd0_shrinking", "BSD0", new_file(), base_file()),
            ("copy_empty_base", "COPY", vec![], b"brand new".to_vec()),
        ] {
            let mut s = flat_seed("ptch", name, ptch(kind, &base, &new), 0, 64 + 48);
            s.extra = vec![base];
            v.push(s);
        }
        if crate::thorough() {
            // larger payloads (RLE runs of every length class, multi-kilobyte diff / extra blocks)
            let big = gen::content("half", 4000, 512, 11);
            let mut big2 = big.clone();
            for i in (0..big2.len()).step_by(5) {
                big2[i] = big2[i].wrapping_mul(3).wrapping_add(1);
            }
            big2.extend(gen::content("period251", 700, 512, 12));
            for (name, kind, base, new) in [("bsd0_4000_to_4700", "BSD0", big.clone(), big2.clone()), ("copy_4000_to_4700", "COPY", big.clone(), big2.clone()), ("bsd0_4700_to_300", "BSD0", big2, base_file())] {
                let mut s = flat_seed("ptch", name, ptch(kind, &base, &new), 0, 64 + 48);
                s.extra = vec![base];
                s.tier2 = true;
                v.push(s);
            }
        }
        v
    }
    fn run(&self, seed: &Seed, input: &[u8], rec: &mut Recorder, _scratch: &Path) {
        let base = &seed.extra[0];
        if crate::thorough() {
            let _ = rec.leaf("PatchHeader::parse", || wow_mpq::patch::PatchHeader::parse(&mut std::io::Cursor::new(input)));
        }
        if let Some(p) = rec.call("PatchFile::parse", || PatchFile::parse(input)) {
            let _ = rec.leaf("PatchFile::verify_base", || p.verify_base(base));
            if let Some(out) = rec.call("patch::apply_patch", || apply_patch(&p, base)) {
                let _ = rec.leaf("PatchFile::verify_patched", || p.verify_patched(&out));
            }
            // a patch whose recorded base digest is made to match: the transform itself is then reached
            let mut q = p.clone();
            q.header.md5_before = md5(base);
            let _ = rec.leaf("patch::apply_patch[base digest matches]", || apply_patch(&q, base));
        }
    }
}

// ------------------------------------------------------------------ raw codec streams

pub struct Codec;
const CODECS: [(&str, u8); 11] = [
    ("zlib", 0x02),
    ("bzip2", 0x10),
    ("lzma", 0x12),
    ("sparse", 0x20),
    ("pkware", 0x08),
    ("huffman", 0x01),
    ("sparse+zlib", 0x22),
    ("sparse+bzip2", 0x30),
    ("adpcm_mono+huffman", 0x41),
    ("adpcm_stereo+huffman", 0x81),
    ("adpcm_mono+zlib", 0x42),
];
impl Format for Codec {
    fn name(&self) -> &'static str {
        "codec"
    }
    fn measures_consumption(&self) -> bool {
        false
    }
    fn seeds(&self) -> Vec<Seed> {
        let mut v = vec![];
        for (name, m) in CODECS {
            let data = if m & 0xC0 != 0 {
                // 16-bit PCM-like samples
                (0..600u32).flat_map(|i| (((i * 97) % 2000) as i16 - 1000).to_le_bytes()).collect::<Vec<u8>>()
            } else {
                gen::content("sparse", 1200, 512, m as u64)
            };
            let c = match wow_mpq::compress(&data, m) {
                Ok(c) => c,
                Err(e) => {
                    if std::env::var("C05_VERBOSE").is_ok() {
                        eprintln!("codec seed {name}: compress refused: {e}");
                    }
                    continue;
                }
            };
            if c.len() >= data.len() || c.first() != Some(&m) {
                // the codec did not shrink the input: no method byte, nothing to decode
                if std::env::var("C05_VERBOSE").is_ok() {
                    eprintln!("codec seed {name}: {} -> {} bytes, first byte {:?}", data.len(), c.len(), c.first());
                }
                continue;
            }
            // accept only streams the decoder takes back
            if let Err(e) = wow_mpq::decompress(&c[1..], c[0], data.len()) {
                if std::env::var("C05_VERBOSE").is_ok() {
                    eprintln!("codec seed {name}: decompress refused: {e}");
                }
                continue;
            }
            let mut s = flat_seed("codec", name, c, data.len() as u32, 32);
            s.extra = vec![data];
            v.push(s);
        }
        if crate::thorough() {
            // codecs whose primary seed is missing (input did not shrink, no single-call compressor): other
            // contents, and method chains composed from the crate's single-method compressors
            let pcm: Vec<u8> = (0..600u32).flat_map(|i| (((i * 97) % 2000) as i16 - 1000).to_le_bytes()).collect();
            let rep = gen::content("period251", 1500, 512, 5);
            let big = gen::content("half", 6_000, 512, 6);
            let single = |data: &[u8], m: u8| -> Option<Vec<u8>> {
                let c = wow_mpq::compress(data, m).ok()?;
                (c.len() < data.len() && c.first() == Some(&m)).then_some(c)
            };
            let chain = |data: &[u8], first: u8, second: u8| -> Option<Vec<u8>> {
                // stored = second(first(data)); the decoder undoes `second` first
                let a = single(data, first)?;
                let b = single(&a[1..], second)?;
                let mut out = vec![first | second];
                out.extend_from_slice(&b[1..]);
                Some(out)
            };
            let more: Vec<(&str, Vec<u8>, Option<Vec<u8>>)> = vec![
                ("pkware_repetitive", rep.clone(), single(&rep, 0x08)),
                ("adpcm_stereo+zlib", pcm.clone(), single(&pcm, 0x82)),
                ("zlib_6k", big.clone(), single(&big, 0x02)),
                ("bzip2_6k", big.clone(), single(&big, 0x10)),
                ("lzma_6k", big.clone(), single(&big, 0x12)),
                ("sparse+zlib_composed", rep.clone(), chain(&gen::content("sparse", 3000, 512, 7), 0x20, 0x02).or_else(|| chain(&rep, 0x20, 0x02))),
                ("sparse+bzip2_composed", rep.clone(), chain(&gen::content("sparse", 3000, 512, 7), 0x20, 0x10)),
            ];
            for (name, data, c) in more {
                let Some(c) = c else { continue };
                // the data a composed chain was made from
                let data = if name.ends_with("_composed") && chain(&gen::content("sparse", 3000, 512, 7), 0x20, if name.contains("zlib") { 0x02 } else { 0x10 }).as_ref() == Some(&c) { gen::content("sparse", 3000, 512, 7) } else { data };
                if wow_mpq::decompress(&c[1..], c[0], data.len()).is_err() {
                    continue;
                }
                let mut s = flat_seed("codec", name, c, data.len() as u32, 32);
                s.extra = vec![data];
                s.tier2 = true;
                v.push(s);
            }
        }
        v
    }
    fn run(&self, seed: &Seed, input: &[u8], rec: &mut Recorder, _scratch: &Path) {
        if input.is_empty() {
            let _ = rec.leaf("compression::decompress[expected = seed size]", || wow_mpq::decompress(input, 0x02, seed.aux as usize));
            return;
        }
        let (m, body) = (input[0], &input[1..]);
        let _ = rec.leaf("compression::decompress[expected = seed size]", || wow_mpq::decompress(body, m, seed.aux as usize));
        let _ = rec.leaf("compression::decompress[expected = 2^31-1]", || wow_mpq::decompress(body, m, 0x7FFF_FFFF));
        let _ = rec.leaf("compression::decompress[expected = 0]", || wow_mpq::decompress(body, m, 0));
        if crate::thorough() {
            let _ = rec.leaf("compression::decompress[expected = seed size - 1]", || wow_mpq::decompress(body, m, (seed.aux as usize).saturating_sub(1)));
            let _ = rec.leaf("compression::decompress[expected = 2 x seed size]", || wow_mpq::decompress(body, m, seed.aux as usize * 2));
            // the RLE codec of the patch files, with and without its 4-byte size header
            let _ = rec.leaf("compression::rle::decompress[skip_header]", || wow_mpq::compression::rle::decompress(input, seed.aux as usize, true));
            let _ = rec.leaf("compression::rle::decompress", || wow_mpq::compression::rle::decompress(input, seed.aux as usize, false));
        }
    }
}
