//! M2 / skin / anim, WMO root / group, ADT: seeds from the seed modules (crate writers/builders
//! plus hand-emitted container kinds), structure-derived sites, entry points.
use crate::core::*;
use crate::sandbox::Recorder;
use crate::seed::RawSeed;
use crate::{chunked_seed, flat_seed, CountingCursor, Format};
use std::path::Path;

/// chunked container kinds get the chunk map, everything else the flat dword map
fn auto_seed(r: &RawSeed, fmt: &str, nested: &[(&str, usize)], flat_header: usize, head_q: usize, head_t: usize) -> Seed {
    let chunked = match fmt {
        "m2" => r.bytes.starts_with(b"MD21"),
        "skin" | "anim" => false,
        _ => true,
    };
    if chunked {
        // a nested container may or may not carry a fixed header before its sub-chunks (ADT split files)
        let mut best: Option<Seed> = None;
        for alt in [false, true] {
            let n: Vec<(&str, usize)> = nested.iter().map(|(m, h)| (*m, if alt { 0 } else { *h })).collect();
            let s = chunked_seed(fmt, &r.name, r.bytes.clone(), 0, &n, head_q, head_t);
            if best.as_ref().map(|b| s.chunks.len() > b.chunks.len()).unwrap_or(true) {
                best = Some(s);
            }
            if nested.iter().all(|(_, h)| *h == 0) {
                break;
            }
        }
        best.unwrap()
    } else {
        flat_seed(fmt, &r.name, r.bytes.clone(), 0, flat_header)
    }
}

fn tier2(mut s: Seed) -> Seed {
    s.tier2 = true;
    s
}

macro_rules! counted {
    ($rec:expr, $ep:expr, $input:expr, |$c:ident| $body:expr) => {
        counted!(call, $rec, $ep, $input, |$c| $body)
    };
    ($m:ident, $rec:expr, $ep:expr, $input:expr, |$c:ident| $body:expr) => {{
        let mut $c = CountingCursor::new($input);
        let r = $rec.$m($ep, || $body);
        $rec.max_consumed = $rec.max_consumed.max($c.max_end);
        r
    }};
}

// ------------------------------------------------------------------ M2

pub struct M2;
impl Format for M2 {
    fn name(&self) -> &'static str {
        "m2"
    }
    fn seeds(&self) -> Vec<Seed> {
        let mut v: Vec<Seed> = crate::seeds_m2::seeds().iter().filter(|r| r.fmt == "m2").map(|r| auto_seed(r, "m2", &[], 0x150, 0x150, 0x150)).collect();
        if crate::thorough() {
            v.extend(crate::seeds_m2::seeds_thorough_extra().iter().filter(|r| r.fmt == "m2").map(|r| tier2(auto_seed(r, "m2", &[], 0x150, 0x150, 0x150))));
        }
        v
    }
    fn run(&self, _seed: &Seed, input: &[u8], rec: &mut Recorder, _scratch: &Path) {
        use wow_m2::{parse_m2, M2Model};
        let fmt = counted!(rec, "m2::parse_m2", input, |c| parse_m2(&mut c));
        let _ = counted!(leaf, rec, "M2Model::parse", input, |c| M2Model::parse(&mut c));
        let _ = counted!(leaf, rec, "M2Header::parse", input, |c| wow_m2::header::M2Header::parse(&mut c));
        if let Some(f) = fmt {
            let model = f.model();
            let _ = rec.leaf("M2Model::parse_all_data", || model.parse_all_data(input));
            let _ = rec.leaf("M2Model::parse_all_embedded_skins", || model.parse_all_embedded_skins(input));
            let _ = rec.leaf("M2Model::parse_embedded_skin[0]", || model.parse_embedded_skin(input, 0));
            let _ = rec.leaf("m2::extract_embedded_skin_bytes[0]", || wow_m2::embedded_skin::extract_embedded_skin_bytes(input, 0));
            if crate::thorough() {
                // the lazy readers that resolve the track offsets of the parsed model against the file bytes
                use wow_m2::M2ModelAnimationExt;
                let _ = rec.leaf("M2Model::resolve_bone_animations", || model.resolve_bone_animations(input));
                let _ = rec.leaf("AnimationManagerBuilder::from_model", || wow_m2::AnimationManagerBuilder::from_model(model, input));
                for k in 1..4usize {
                    let _ = rec.leaf("M2Model::parse_embedded_skin[1..3]", || model.parse_embedded_skin(input, k));
                    let _ = rec.leaf("m2::extract_embedded_skin_bytes[1..3]", || wow_m2::embedded_skin::extract_embedded_skin_bytes(input, k));
                }
            }
        }
        if crate::thorough() {
            let _ = counted!(leaf, rec, "M2Model::parse_chunked", input, |c| M2Model::parse_chunked(&mut c));
        }
    }
}

pub struct Skin;
impl Format for Skin {
    fn name(&self) -> &'static str {
        "skin"
    }
    fn seeds(&self) -> Vec<Seed> {
        let mut v: Vec<Seed> = crate::seeds_m2::seeds().iter().filter(|r| r.fmt == "skin").map(|r| auto_seed(r, "skin", &[], 64, 64, 64)).collect();
        if crate::thorough() {
            v.extend(crate::seeds_m2::seeds_thorough_extra().iter().filter(|r| r.fmt == "skin").map(|r| tier2(auto_seed(r, "skin", &[], 64, 64, 64))));
        }
        v
    }
    fn run(&self, _seed: &Seed, input: &[u8], rec: &mut Recorder, _scratch: &Path) {
        use wow_m2::skin::{parse_embedded_skin, parse_skin, OldSkin, Skin as NewSkin, SkinFile};
        let _ = counted!(leaf, rec, "m2::parse_skin", input, |c| parse_skin(&mut c));
        let _ = counted!(leaf, rec, "SkinFile::parse", input, |c| SkinFile::parse(&mut c));
        let _ = counted!(leaf, rec, "Skin::parse", input, |c| NewSkin::parse(&mut c));
        let _ = counted!(leaf, rec, "OldSkin::parse", input, |c| OldSkin::parse(&mut c));
        let _ = counted!(leaf, rec, "m2::parse_embedded_skin[version 256]", input, |c| parse_embedded_skin(&mut c, 256));
        if crate::thorough() {
            use wow_m2::skin::{OldSkinHeader, SkinHeader, SkinHeaderT};
            let _ = counted!(leaf, rec, "m2::parse_embedded_skin[version 260]", input, |c| parse_embedded_skin(&mut c, 260));
            let _ = counted!(leaf, rec, "SkinHeader::parse", input, |c| <SkinHeader as SkinHeaderT>::parse(&mut c));
            let _ = counted!(leaf, rec, "OldSkinHeader::parse", input, |c| <OldSkinHeader as SkinHeaderT>::parse(&mut c));
            let _ = counted!(leaf, rec, "OldSkinHeader::parse_embedded", input, |c| OldSkinHeader::parse_embedded(&mut c));
        }
    }
}

pub struct Anim;
impl Format for Anim {
    fn name(&self) -> &'static str {
        "anim"
    }
    fn seeds(&self) -> Vec<Seed> {
        let mut v: Vec<Seed> = crate::seeds_m2::seeds().iter().filter(|r| r.fmt == "anim").map(|r| auto_seed(r, "anim", &[], 64, 48, 96)).collect();
        if crate::thorough() {
            v.extend(crate::seeds_m2::seeds_thorough_extra().iter().filter(|r| r.fmt == "anim").map(|r| tier2(auto_seed(r, "anim", &[], 64, 48, 96))));
        }
        v
    }
    fn run(&self, _seed: &Seed, input: &[u8], rec: &mut Recorder, _scratch: &Path) {
        use wow_m2::{AnimFile, AnimFormat};
        let parsed = counted!(rec, "AnimFile::parse", input, |c| AnimFile::parse(&mut c));
        let _ = counted!(leaf, rec, "AnimFile::parse_validated", input, |c| AnimFile::parse_validated(&mut c));
        let _ = counted!(leaf, rec, "AnimFile::parse_with_format[Legacy]", input, |c| AnimFile::parse_with_format(&mut c, AnimFormat::Legacy));
        let _ = counted!(leaf, rec, "AnimFile::parse_with_format[Modern]", input, |c| AnimFile::parse_with_format(&mut c, AnimFormat::Modern));
        if crate::thorough() {
            use wow_m2::anim::{AnimFormatDetector, AnimHeader, AnimParser};
            let _ = counted!(leaf, rec, "AnimFormatDetector::detect_format", input, |c| AnimFormatDetector::detect_format(&mut c));
            let _ = counted!(leaf, rec, "AnimHeader::parse", input, |c| AnimHeader::parse(&mut c));
            let _ = counted!(leaf, rec, "AnimParser::parse", input, |c| AnimParser::parse(&mut c));
        }
        if let Some(a) = parsed {
            rec.leaf_plain("AnimFile::memory_usage", || {
                let _ = a.memory_usage();
            });
        }
    }
}

// ------------------------------------------------------------------ WMO

fn wmo_entries(input: &[u8], rec: &mut Recorder, group: bool) {
    use wow_wmo::{discover_wmo_chunks, parse_wmo, parse_wmo_with_metadata, WmoGroupParser, WmoParser};
    let _ = counted!(leaf, rec, "wmo::parse_wmo", input, |c| parse_wmo(&mut c));
    let _ = counted!(leaf, rec, "wmo::parse_wmo_with_metadata", input, |c| parse_wmo_with_metadata(&mut c));
    let disc = counted!(rec, "wmo::discover_wmo_chunks", input, |c| discover_wmo_chunks(&mut c));
    let _ = counted!(leaf, rec, "WmoParser::parse_root", input, |c| WmoParser::new().parse_root(&mut c));
    let _ = counted!(leaf, rec, "WmoGroupParser::parse_group", input, |c| WmoGroupParser::new().parse_group(&mut c, 0));
    if let Some(d) = disc {
        if group {
            let _ = counted!(leaf, rec, "wmo::group_parser::parse_group_file", input, |c| wow_wmo::group_parser::parse_group_file(&mut c, d).map_err(|e| e.to_string()));
        } else {
            let _ = counted!(leaf, rec, "wmo::root_parser::parse_root_file", input, |c| wow_wmo::root_parser::parse_root_file(&mut c, d).map_err(|e| e.to_string()));
        }
    }
    // the other kind's parser on this file (a caller cannot know the kind of a hostile file)
    if let Some(d) = counted!(rec, "wmo::chunk_discovery::discover_chunks", input, |c| wow_wmo::chunk_discovery::discover_chunks(&mut c).map_err(|e| e.to_string())) {
        if group {
            let _ = counted!(leaf, rec, "wmo::root_parser::parse_root_file[on a group file]", input, |c| wow_wmo::root_parser::parse_root_file(&mut c, d).map_err(|e| e.to_string()));
        } else {
            let _ = counted!(leaf, rec, "wmo::group_parser::parse_group_file[on a root file]", input, |c| wow_wmo::group_parser::parse_group_file(&mut c, d).map_err(|e| e.to_string()));
        }
    }
}

pub struct WmoRoot;
impl Format for WmoRoot {
    fn name(&self) -> &'static str {
        "wmo_root"
    }
    fn seeds(&self) -> Vec<Seed> {
        let mut v: Vec<Seed> = crate::seeds_wmo::seeds().iter().filter(|r| r.fmt == "wmo_root").map(|r| auto_seed(r, "wmo_root", &[], 64, 64, 128)).collect();
        if crate::thorough() {
            v.extend(crate::seeds_wmo::seeds_thorough_extra().iter().filter(|r| r.fmt == "wmo_root").map(|r| tier2(auto_seed(r, "wmo_root", &[], 64, 64, 128))));
        }
        v
    }
    fn run(&self, _seed: &Seed, input: &[u8], rec: &mut Recorder, _scratch: &Path) {
        wmo_entries(input, rec, false);
    }
}

pub struct WmoGroup;
impl Format for WmoGroup {
    fn name(&self) -> &'static str {
        "wmo_group"
    }
    fn seeds(&self) -> Vec<Seed> {
        let mut v: Vec<Seed> = crate::seeds_wmo::seeds().iter().filter(|r| r.fmt == "wmo_group").map(|r| auto_seed(r, "wmo_group", &[("PGOM", 68)], 64, 48, 96)).collect();
        if crate::thorough() {
            v.extend(crate::seeds_wmo::seeds_thorough_extra().iter().filter(|r| r.fmt == "wmo_group").map(|r| tier2(auto_seed(r, "wmo_group", &[("PGOM", 68)], 64, 48, 96))));
        }
        v
    }
    fn run(&self, _seed: &Seed, input: &[u8], rec: &mut Recorder, _scratch: &Path) {
        wmo_entries(input, rec, true);
    }
}

// ------------------------------------------------------------------ ADT

/// Sub-structure map of the MH2O chunk (from the chunk description in /repo/docs): 256 headers
/// {offset_instances, layer_count, offset_attributes}, 24-byte instances {liquid_type u16, lvf u16, min f32,
/// max f32, x_offset u8, y_offset u8, width u8, height u8, offset_exists_bitmap u32, offset_vertex_data u32};
/// offsets relative to the chunk payload.  The dwords of every used header and of every instance become
/// (trailing, `extra_sites`) sites; the rectangle dword carries the byte-granular classes.
fn mh2o_sites(s: &mut Seed) {
    let Some(c) = s.chunks.iter().find(|c| c.parent.is_none() && c.magic == "O2HM").cloned() else { return };
    let (p, size) = (c.off + 8, c.total - 8);
    if size < 256 * 12 {
        return;
    }
    let mut extra = vec![];
    for ci in 0..256usize {
        let h = p + 12 * ci;
        let (ofs, n, attr) = (rd32(&s.bytes, h) as usize, rd32(&s.bytes, h + 4) as usize, rd32(&s.bytes, h + 8) as usize);
        if n == 0 && attr == 0 {
            continue;
        }
        for (k, f) in ["offset_instances", "layer_count", "offset_attributes"].iter().enumerate() {
            extra.push(Site { off: h + 4 * k, name: format!("O2HM[0].header[{ci}].{f}"), enc: None, header: false });
        }
        if n == 0 || n > 8 || ofs + 24 * n > size {
            continue;
        }
        for l in 0..n {
            let i = p + ofs + 24 * l;
            for (o, f) in [(0usize, "liquid_type+lvf"), (12, "rect(x,y,w,h)"), (16, "offset_exists_bitmap"), (20, "offset_vertex_data")] {
                extra.push(Site { off: i + o, name: format!("O2HM[0].entry[{ci}].instance[{l}].{f}"), enc: None, header: false });
            }
        }
    }
    // a position that is already a site (head of the chunk payload) stays where it is
    extra.retain(|e| !s.sites.iter().any(|x| x.off == e.off) || e.name.ends_with(".rect(x,y,w,h)"));
    s.extra_sites = extra.len();
    s.sites.extend(extra);
}

pub struct Adt;
impl Format for Adt {
    fn name(&self) -> &'static str {
        "adt"
    }
    fn seeds(&self) -> Vec<Seed> {
        crate::seeds_adt::seeds()
            .iter()
            .map(|r| {
                let mut s = auto_seed(r, "adt", &[("KNCM", 128)], 64, 32, 64);
                mh2o_sites(&mut s);
                s
            })
            .collect()
    }
    fn rect_sites(&self, seed: &Seed) -> Vec<usize> {
        (0..seed.sites.len()).filter(|&k| seed.sites[k].name.ends_with(".rect(x,y,w,h)")).collect()
    }
    fn run(&self, _seed: &Seed, input: &[u8], rec: &mut Recorder, _scratch: &Path) {
        use wow_adt::{discover_chunks, parse_adt, parse_adt_with_metadata};
        // (a plain call in thorough: the lazy readers below use its result)
        let parsed = if crate::thorough() { counted!(rec, "adt::parse_adt", input, |c| parse_adt(&mut c)) } else { counted!(leaf, rec, "adt::parse_adt", input, |c| parse_adt(&mut c)) };
        let _ = counted!(leaf, rec, "adt::parse_adt_with_metadata", input, |c| parse_adt_with_metadata(&mut c));
        let _ = counted!(leaf, rec, "adt::discover_chunks", input, |c| discover_chunks(&mut c));
        if crate::thorough() {
            // lazy decoding of the raw alpha-map bytes of the parsed terrain chunks (big / small / RLE)
            if let Some(wow_adt::ParsedAdt::Root(root)) = &parsed {
                rec.leaf_plain("CombinedAlphaMap::new", || {
                    let mut n = 0usize;
                    for ch in root.mcnk_chunks.iter().take(4) {
                        for (big, fix) in [(false, false), (true, false), (false, true)] {
                            n += wow_adt::CombinedAlphaMap::new(ch, big, fix).as_slice().len();
                        }
                    }
                    n
                });
            }
            // the path-based loader (root + split-file discovery next to it): the unmodified seed, and the
            // field / chunk-edit / trailing-data cases of inputs up to 64 KiB
            if crate::heavy() && input.len() <= (64 << 10) || _seed.bytes == input {
                let path = _scratch.join("Map_31_32.adt");
                if std::fs::write(&path, input).is_ok() {
                    if let Some(set) = rec.call("AdtSet::load_from_path", || wow_adt::AdtSet::load_from_path(&path)) {
                        let _ = rec.leaf("AdtSet::merge", || set.merge());
                    }
                    let _ = std::fs::remove_file(&path);
                }
            }
        }
    }
}
