//! WDT and WDL: seeds from the crates' writers, chunk-level sites, entry points.
use crate::core::*;
use crate::sandbox::Recorder;
use crate::{chunked_seed, CountingCursor, Format};
use std::io::Cursor;
use wow_wdl::parser::WdlParser;
use wow_wdl::types::{BoundingBox, HeightMapTile, HolesData, M2Placement, M2VisibilityInfo, ModelPlacement, Vec3d, WdlFile};
use wow_wdl::version::WdlVersion;
use wow_wdt::chunks::maid::MaidSection;
use wow_wdt::chunks::mphd::FileDataIds;
use wow_wdt::chunks::{MaidChunk, ModfChunk, ModfEntry, MphdFlags, MwmoChunk};
use wow_wdt::version::WowVersion;
use wow_wdt::{WdtFile, WdtReader, WdtWriter};

const WDT_VERSIONS: [(&str, WowVersion); 10] = [
    ("Classic", WowVersion::Classic),
    ("TBC", WowVersion::TBC),
    ("WotLK", WowVersion::WotLK),
    ("Cataclysm", WowVersion::Cataclysm),
    ("MoP", WowVersion::MoP),
    ("WoD", WowVersion::WoD),
    ("Legion", WowVersion::Legion),
    ("BfA", WowVersion::BfA),
    ("Shadowlands", WowVersion::Shadowlands),
    ("Dragonflight", WowVersion::Dragonflight),
];

fn wdt_build(vi: usize, flags: u32, tiles: &[(usize, usize)], wmo: bool, maid: bool) -> Vec<u8> {
    wdt_build_n(vi, flags, tiles, wmo as usize, maid)
}

/// `nwmo`: number of WMO file names / MODF placements (0 = none)
fn wdt_build_n(vi: usize, flags: u32, tiles: &[(usize, usize)], nwmo: usize, maid: bool) -> Vec<u8> {
    let wmo = nwmo > 0;
    let v = WDT_VERSIONS[vi].1;
    let mut w = WdtFile::new(v);
    w.mphd.flags = MphdFlags::from_bits_truncate(flags);
    if flags & 0x200 != 0 {
        w.mphd.set_file_data_ids(FileDataIds { lgt: 11, occ: 12, fogs: 13, mpv: 14, tex: 15, wdl: 16, pd4: 17 });
    } else {
        w.mphd.something = 7;
    }
    for (k, &(x, y)) in tiles.iter().enumerate() {
        if let Some(e) = w.main.get_mut(x, y) {
            e.flags = 1;
            e.area_id = 100 + k as u32;
        }
    }
    if maid {
        let mut m = MaidChunk::new();
        for (k, &(x, y)) in tiles.iter().enumerate() {
            for (s, sec) in MaidSection::all().iter().enumerate() {
                let _ = m.set(*sec, x, y, 1000 + (k * 8 + s) as u32);
            }
        }
        w.maid = Some(m);
    }
    if wmo {
        let mut c = MwmoChunk::new();
        c.add_filename("World\\wmo\\Dungeon\\Test\\Test.wmo".to_string());
        let mut m = ModfChunk::new();
        m.add_entry(ModfEntry {
            id: 0,
            unique_id: 0xABCD_0001,
            position: [1.0, 2.0, 3.0],
            rotation: [0.0, 90.0, 0.0],
            lower_bounds: [-10.0, -10.0, -10.0],
            upper_bounds: [10.0, 10.0, 10.0],
            flags: 0,
            doodad_set: 1,
            name_set: 2,
            scale: 1024,
        });
        for k in 1..nwmo {
            c.add_filename(format!("World\\wmo\\Dungeon\\Test\\Extra{k}.wmo"));
            m.add_entry(ModfEntry {
                id: k as u32,
                unique_id: 0xABCD_0001 + k as u32,
                position: [k as f32, 2.0, 3.0],
                rotation: [0.0, 45.0 * k as f32, 0.0],
                lower_bounds: [-1.0, -2.0, -3.0],
                upper_bounds: [1.0, 2.0, 3.0],
                flags: k as u16,
                doodad_set: 0,
                name_set: 0,
                scale: 512,
            });
        }
        w.mwmo = Some(c);
        w.modf = Some(m);
    } else if vi < 3 {
        // pre-Cataclysm terrain maps carry an empty MWMO
        w.mwmo = Some(MwmoChunk::new());
    }
    let mut buf = Vec::new();
    WdtWriter::new(&mut buf).write(&w).expect("WdtWriter on a well-formed map");
    buf
}

pub struct Wdt;
impl Format for Wdt {
    fn name(&self) -> &'static str {
        "wdt"
    }
    fn seeds(&self) -> Vec<Seed> {
        let t3 = [(0usize, 0usize), (31, 31), (63, 63)];
        let defs: Vec<(String, Vec<u8>, u32)> = vec![
            ("classic_terrain_3tiles".into(), wdt_build(0, 0, &t3, false, false), 0),
            ("wotlk_wmo_only".into(), wdt_build(2, 0x1, &[], true, false), 2),
            ("wotlk_terrain_flags".into(), wdt_build(2, 0x2 | 0x4 | 0x8, &t3, false, false), 2),
            ("cata_terrain".into(), wdt_build(3, 0x40, &t3, false, false), 3),
            ("legion_terrain".into(), wdt_build(6, 0x80 | 0x100, &[(5, 9)], false, false), 6),
            ("bfa_maid".into(), wdt_build(7, 0x200, &t3, false, true), 7),
            ("bfa_wmo_only_maid".into(), wdt_build(7, 0x1 | 0x200, &[(1, 1)], true, true), 7),
        ];
        let mut out: Vec<Seed> = defs.into_iter().map(|(n, b, aux)| chunked_seed("wdt", &n, b, aux, &[], 32, 64)).collect();
        if crate::thorough() {
            // the client versions no primary seed is written for, and larger element counts
            let all: Vec<(usize, usize)> = (0..64).flat_map(|y| (0..64).map(move |x| (x, y))).collect();
            let more: Vec<(&str, Vec<u8>, u32)> = vec![
                ("tbc_wmo_only_3modf", wdt_build_n(1, 0x1, &[], 3, false), 1),
                ("mop_terrain_all_4096_tiles", wdt_build_n(4, 0x2 | 0x4 | 0x8 | 0x40 | 0x80, &all, 0, false), 4),
                ("wod_terrain_1tile", wdt_build_n(5, 0x40 | 0x80, &[(32, 32)], 0, false), 5),
                ("shadowlands_terrain_nomaid", wdt_build_n(8, 0x40 | 0x80 | 0x100, &t3, 0, false), 8),
                ("dragonflight_wmo_only_2modf", wdt_build_n(9, 0x1 | 0x40, &[], 2, false), 9),
            ];
            for (n, b, aux) in more {
                let mut s = chunked_seed("wdt", n, b, aux, &[], 32, 64);
                s.tier2 = true;
                out.push(s);
            }
        }
        out
    }
    fn run(&self, seed: &Seed, input: &[u8], rec: &mut Recorder, _scratch: &std::path::Path) {
        // the reader is parameterised by the expected client version: the seed's own and the two ends
        let mut vs = vec![seed.aux as usize, 0, WDT_VERSIONS.len() - 1];
        vs.dedup();
        for (k, vi) in vs.iter().enumerate() {
            let ep = if k == 0 { "WdtReader::read".to_string() } else { format!("WdtReader::read[as {}]", WDT_VERSIONS[*vi].0) };
            let mut cc = CountingCursor::new(input);
            let r = rec.call(&ep, || WdtReader::new(&mut cc, WDT_VERSIONS[*vi].1).read());
            rec.max_consumed = rec.max_consumed.max(cc.max_end);
            if let Some(w) = r {
                rec.leaf_plain("WdtFile::validate", || {
                    let _ = w.validate();
                    let _ = w.count_existing_tiles();
                    let _ = w.is_wmo_only();
                    let _ = w.get_tile(0, 0);
                });
            }
        }
    }
}

// ------------------------------------------------------------------ WDL

const WDL_VERSIONS: [(&str, WdlVersion); 6] = [
    ("Vanilla", WdlVersion::Vanilla),
    ("Wotlk", WdlVersion::Wotlk),
    ("Cataclysm", WdlVersion::Cataclysm),
    ("Mop", WdlVersion::Mop),
    ("Wod", WdlVersion::Wod),
    ("Legion", WdlVersion::Legion),
];

fn v3(k: u32) -> Vec3d {
    Vec3d::new(k as f32, -(k as f32) * 0.5, 100.0 + k as f32)
}

fn wdl_build(vi: usize, tiles: &[(u32, u32)], holes: bool, wmo: bool, ml: bool) -> Vec<u8> {
    let v = WDL_VERSIONS[vi].1;
    let mut f = WdlFile::with_version(v);
    for (k, &(x, y)) in tiles.iter().enumerate() {
        let h: Vec<i16> = (0..545).map(|j| ((j * 7 + k * 13) % 2000) as i16 - 1000).collect();
        f.heightmap_tiles.insert((x, y), HeightMapTile { outer_values: h[..289].to_vec(), inner_values: h[289..].to_vec() });
        f.map_tile_offsets[(y * 64 + x) as usize] = 1;
        if holes {
            let mut m = [0u16; 16];
            m[k % 16] = 0xF0F0;
            f.holes_data.insert((x, y), HolesData { hole_masks: m });
        }
    }
    if wmo {
        f.wmo_filenames = vec!["World\\wmo\\A.wmo".to_string(), "World\\wmo\\Bcd.wmo".to_string()];
        f.wmo_indices = vec![0, 16];
        f.wmo_placements.push(ModelPlacement {
            id: 0,
            wmo_id: 77,
            position: v3(1),
            rotation: v3(2),
            bounds: BoundingBox::new(v3(3), v3(4)),
            flags: 1,
            doodad_set: 2,
            name_set: 3,
            padding: 0,
        });
    }
    if ml {
        let mk = |k: u32| M2Placement { id: k, m2_id: 900 + k, position: v3(k), rotation: v3(k + 1), scale: 1.5, flags: k };
        let mv = |k: u32| M2VisibilityInfo { bounds: BoundingBox::new(v3(k), v3(k + 2)), radius: 3.0 + k as f32 };
        f.m2_placements = vec![mk(1), mk(2)];
        f.m2_visibility = vec![mv(1), mv(2)];
        f.wmo_legion_placements = vec![mk(3)];
        f.wmo_legion_visibility = vec![mv(3)];
    }
    let mut cur = Cursor::new(Vec::new());
    WdlParser::with_version(v).write(&mut cur, &f).expect("WdlParser::write on a well-formed file");
    cur.into_inner()
}

pub struct Wdl;
impl Format for Wdl {
    fn name(&self) -> &'static str {
        "wdl"
    }
    fn seeds(&self) -> Vec<Seed> {
        let t3 = [(0u32, 0u32), (31, 32), (63, 63)];
        let defs: Vec<(String, Vec<u8>, u32)> = vec![
            ("vanilla_empty".into(), wdl_build(0, &[], false, false, false), 0),
            ("vanilla_3tiles_wmo".into(), wdl_build(0, &t3, false, true, false), 0),
            ("wotlk_3tiles_holes_wmo".into(), wdl_build(1, &t3, true, true, false), 1),
            ("cata_1tile_holes".into(), wdl_build(2, &[(7, 7)], true, false, false), 2),
            ("mop_3tiles_holes".into(), wdl_build(3, &t3, true, true, false), 3),
            ("legion_3tiles_ml".into(), wdl_build(5, &t3, true, false, true), 5),
        ];
        let mut out: Vec<Seed> = defs.into_iter().map(|(n, b, aux)| chunked_seed("wdl", &n, b, aux, &[], 48, 64)).collect();
        if crate::thorough() {
            let t9: Vec<(u32, u32)> = (0..9).map(|k| (k * 7 % 64, k * 11 % 64)).collect();
            let more: Vec<(&str, Vec<u8>, u32)> = vec![
                ("wod_3tiles_holes_wmo", wdl_build(4, &t3, true, true, false), 4),
                ("legion_3tiles_ml_wmo", wdl_build(5, &t3, true, true, true), 5),
                ("cata_9tiles_holes_wmo", wdl_build(2, &t9, true, true, false), 2),
            ];
            for (n, b, aux) in more {
                let mut s = chunked_seed("wdl", n, b, aux, &[], 48, 64);
                s.tier2 = true;
                out.push(s);
            }
        }
        out
    }
    fn run(&self, seed: &Seed, input: &[u8], rec: &mut Recorder, _scratch: &std::path::Path) {
        let mut vs = vec![usize::MAX, seed.aux as usize, 0, WDL_VERSIONS.len() - 1];
        vs.dedup();
        for vi in vs {
            let (ep, parser) = if vi == usize::MAX {
                ("WdlParser::parse".to_string(), WdlParser::new())
            } else {
                (format!("WdlParser::parse[with_version {}]", WDL_VERSIONS[vi].0), WdlParser::with_version(WDL_VERSIONS[vi].1))
            };
            let mut cc = CountingCursor::new(input);
            let r = rec.call(&ep, || parser.parse(&mut cc));
            rec.max_consumed = rec.max_consumed.max(cc.max_end);
            if let Some(f) = r {
                rec.leaf("wdl::validate_wdl_file", || wow_wdl::validation::validate_wdl_file(&f));
            }
        }
    }
}
