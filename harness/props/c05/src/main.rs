//! C05 — parsers are total: every public open/parse/list/read entry point of the MPQ, M2/skin/
//! anim, ADT, WMO, BLP, DBC, WDT and WDL crates returns a value or an error in bounded time, without
//! panicking, aborting, overflowing the stack or requesting memory out of proportion to the input.
//!
//! Bounded exhaustive exploration: per format a set of valid seed files (written by the crate's own
//! writer/builder) x every deviation of a finite alphabet (prefix lengths, boundary values at every
//! 32-bit field position of headers / chunk headers / tables incl. fields inside the encrypted MPQ
//! tables, chunk delete/duplicate/swap, pairs of header-level fields in thorough).  Monitors only.
use serde_json::{json, Value};
use std::io::{Read, Seek, SeekFrom};
use std::sync::OnceLock;
use vcore::*;

mod core;
mod fmt_blp;
mod fmt_dbc;
mod fmt_mpq;
mod fmt_tree;
mod fmt_wd;
mod sandbox;
mod seed;
mod seeds_adt;
mod seeds_m2;
mod seeds_wmo;

use crate::core::*;
use crate::sandbox::{Recorder, Sandbox};

#[global_allocator]
static A: vcore::alloc::Counting = vcore::alloc::Counting;

static THOROUGH: OnceLock<bool> = OnceLock::new();
/// set for the cases of the 2-deviation class: formats may run a lighter set of repeated leaf calls
pub static LIGHT: std::sync::atomic::AtomicBool = std::sync::atomic::AtomicBool::new(false);
/// set for the cases whose deviation is none / one header-level field / a chunk edit / trailing data: the formats
/// run their path-based whole-file consumers (thorough only) for these classes
pub static HEAVY: std::sync::atomic::AtomicBool = std::sync::atomic::AtomicBool::new(false);
pub fn heavy() -> bool {
    thorough() && HEAVY.load(std::sync::atomic::Ordering::Relaxed)
}
pub fn thorough() -> bool {
    *THOROUGH.get().unwrap_or(&false)
}

/// per-case time limit inside the sandbox (the engine's watchdog of 60 s stays the outer bound)
const CASE_SECS: u32 = 50;

// ------------------------------------------------------------------ counting reader

/// `Read + Seek` over the input that remembers the furthest byte handed to the parser
pub struct CountingCursor<'a> {
    data: &'a [u8],
    pos: u64,
    pub max_end: u64,
}
impl<'a> CountingCursor<'a> {
    pub fn new(data: &'a [u8]) -> Self {
        CountingCursor { data, pos: 0, max_end: 0 }
    }
}
impl Read for CountingCursor<'_> {
    fn read(&mut self, buf: &mut [u8]) -> std::io::Result<usize> {
        let len = self.data.len() as u64;
        let start = self.pos.min(len) as usize;
        let n = buf.len().min(self.data.len() - start);
        buf[..n].copy_from_slice(&self.data[start..start + n]);
        self.pos += n as u64;
        if n > 0 {
            self.max_end = self.max_end.max(self.pos);
        }
        Ok(n)
    }
}
impl Seek for CountingCursor<'_> {
    fn seek(&mut self, p: SeekFrom) -> std::io::Result<u64> {
        let (base, off) = match p {
            SeekFrom::Start(n) => {
                self.pos = n;
                return Ok(n);
            }
            SeekFrom::End(n) => (self.data.len() as u64, n),
            SeekFrom::Current(n) => (self.pos, n),
        };
        match base.checked_add_signed(off) {
            Some(n) => {
                self.pos = n;
                Ok(n)
            }
            None => Err(std::io::Error::new(std::io::ErrorKind::InvalidInput, "invalid seek to a negative or overflowing position")),
        }
    }
}

// ------------------------------------------------------------------ formats

pub trait Format: Sync {
    fn name(&self) -> &'static str;
    fn seeds(&self) -> Vec<Seed>;
    /// run every entry point of the format on `input` (inside the sandbox child)
    fn run(&self, seed: &Seed, input: &[u8], rec: &mut Recorder, scratch: &std::path::Path);
    /// sites of the 3-deviation class of a seed (indices into `seed.sites`); none for most formats / seeds
    fn triple_sites(&self, _seed: &Seed, _thorough: bool) -> Vec<usize> {
        vec![]
    }
    /// sites that hold a packed 4 x u8 rectangle (byte-granular classes); none for most formats
    fn rect_sites(&self, _seed: &Seed) -> Vec<usize> {
        vec![]
    }
    /// false where no entry point reads through a counting reader (path / slice APIs)
    fn measures_consumption(&self) -> bool {
        true
    }
}

/// Seed of an IFF-style chunked file: chunk map by the independent walker, sites = magic and size
/// of every chunk plus the 32-bit positions of the first `head` payload bytes.
/// `nested`: (magic as stored, header bytes before the sub-chunks).
pub fn chunked_seed(fmt: &str, name: &str, bytes: Vec<u8>, aux: u32, nested: &[(&str, usize)], head_q: usize, head_t: usize) -> Seed {
    let head = if thorough() { head_t } else { head_q };
    let mut chunks = vec![];
    walk_chunks(&bytes, 0, bytes.len(), None, &mut chunks);
    let top = chunks.len();
    for k in 0..top {
        if let Some((_, hl)) = nested.iter().find(|(m, _)| *m == chunks[k].magic) {
            let (s, e) = (chunks[k].off + 8 + hl, chunks[k].off + chunks[k].total);
            if s <= e {
                walk_chunks(&bytes, s, e, Some(k), &mut chunks);
            }
        }
    }
    let mut s = Seed { fmt: fmt.into(), name: name.into(), bytes, aux, ..Default::default() };
    s.chunks = chunks;
    let mut sites = vec![];
    for k in 0..s.chunks.len() {
        let c = s.chunks[k].clone();
        let nm = s.chunk_name(k);
        let is_nested = nested.iter().find(|(m, _)| *m == c.magic);
        // header-level: top-level size fields and the payload of the first two chunks; container headers
        let header = c.parent.is_none() && (k < 3 || is_nested.is_some());
        let h = match is_nested {
            Some((_, hl)) => (*hl).max(head),
            None => head,
        };
        chunk_sites(&s.bytes, &c, &nm, h, header, &mut sites);
        if c.parent.is_none() && !header {
            // size fields of all top-level chunks are header-level too
            let n = sites.len();
            for st in sites[n.saturating_sub(2 + h / 4)..].iter_mut() {
                if st.name.ends_with(".size") {
                    st.header = true;
                }
            }
        }
    }
    s.sites = sites;
    s
}

/// Seed of a non-chunked file: every 32-bit position of the first `header_len` bytes is a
/// header-level site, every further aligned position a table-level site (strided by the budget).
pub fn flat_seed(fmt: &str, name: &str, bytes: Vec<u8>, aux: u32, header_len: usize) -> Seed {
    let mut s = Seed { fmt: fmt.into(), name: name.into(), bytes, aux, ..Default::default() };
    let mut o = 0;
    while o + 4 <= s.bytes.len() {
        let header = o < header_len;
        s.sites.push(Site { off: o, name: if header { format!("header+{o:#x}") } else { format!("body+{o:#x}") }, enc: None, header });
        o += 4;
    }
    s
}

pub fn chunk_ops(s: &Seed, max: usize, deep: bool) -> Vec<Dev> {
    let idx: Vec<usize> = (0..s.chunks.len()).collect();
    let idx = stride(&idx, max);
    let mut v = vec![];
    for &k in &idx {
        v.push(Dev::ChunkDel(k));
    }
    for &k in &idx {
        v.push(Dev::ChunkDup(k));
    }
    for &k in &idx {
        v.push(Dev::ChunkSwap(k));
    }
    if deep {
        // consistent payload resizes of every chunk
        for &k in &idx {
            for m in 0..RESIZES.len() {
                v.push(Dev::ChunkResize(k, m));
            }
        }
        // exchange / joint deletion of any two siblings: per sibling group (top level, children of one
        // container) all pairs of at most GROUP members (strided if the group is larger)
        const GROUP: usize = 24;
        let mut parents: Vec<Option<usize>> = s.chunks.iter().map(|c| c.parent).collect();
        parents.sort();
        parents.dedup();
        for p in parents {
            let members: Vec<usize> = (0..s.chunks.len()).filter(|&k| s.chunks[k].parent == p).collect();
            let members = stride(&members, GROUP);
            for (x, &a) in members.iter().enumerate() {
                for (y, &b) in members.iter().enumerate().skip(x + 1) {
                    if y > x + 1 || members.len() != s.chunks.iter().filter(|c| c.parent == p).count() {
                        // adjacent siblings are the swap-with-next class
                        v.push(Dev::ChunkSwap2(a, b));
                    }
                    v.push(Dev::ChunkDel2(a, b));
                }
            }
        }
    }
    v
}

/// The writers of /repo may start thread pools (rayon inside the image / DBC code). A process that
/// has started one cannot fork children that use it, so the seeds are produced in a short-lived
/// child and shipped back through a pipe; the worker itself never calls into /repo.
fn seeds_in_child(fmt: &dyn Format) -> Vec<Seed> {
    if std::env::var("C05_NOFORK").is_ok() {
        return fmt.seeds();
    }
    let mut fds = [0i32; 2];
    assert!(unsafe { libc::pipe(fds.as_mut_ptr()) } == 0, "pipe");
    let pid = unsafe { libc::fork() };
    assert!(pid >= 0, "fork");
    if pid == 0 {
        unsafe { libc::close(fds[0]) };
        let ok = std::panic::catch_unwind(std::panic::AssertUnwindSafe(|| encode_seeds(&fmt.seeds())));
        let code = match ok {
            Ok(buf) => {
                let mut o = 0;
                while o < buf.len() {
                    let n = unsafe { libc::write(fds[1], buf[o..].as_ptr() as *const libc::c_void, buf.len() - o) };
                    if n <= 0 {
                        break;
                    }
                    o += n as usize;
                }
                if o == buf.len() { 0 } else { 3 }
            }
            Err(_) => 4,
        };
        unsafe { libc::_exit(code) };
    }
    unsafe { libc::close(fds[1]) };
    let mut buf = vec![];
    let mut tmp = vec![0u8; 1 << 16];
    loop {
        let n = unsafe { libc::read(fds[0], tmp.as_mut_ptr() as *mut libc::c_void, tmp.len()) };
        if n <= 0 {
            break;
        }
        buf.extend_from_slice(&tmp[..n as usize]);
    }
    unsafe { libc::close(fds[0]) };
    let mut status = 0;
    unsafe { libc::waitpid(pid, &mut status, 0) };
    if !(libc::WIFEXITED(status) && libc::WEXITSTATUS(status) == 0) {
        eprintln!("machinery: seed generation for format {} failed (status {status:#x})", fmt.name());
        std::process::exit(2);
    }
    decode_seeds(&buf)
}

fn all_formats() -> Vec<Box<dyn Format>> {
    vec![
        Box::new(fmt_wd::Wdt),
        Box::new(fmt_wd::Wdl),
        Box::new(fmt_dbc::Dbc),
        Box::new(fmt_blp::Blp),
        Box::new(fmt_tree::Skin),
        Box::new(fmt_tree::Anim),
        Box::new(fmt_tree::M2),
        Box::new(fmt_tree::WmoRoot),
        Box::new(fmt_tree::WmoGroup),
        Box::new(fmt_tree::Adt),
        Box::new(fmt_mpq::Ptch),
        Box::new(fmt_mpq::Codec),
        Box::new(fmt_mpq::Mpq),
    ]
}
const FORMAT_NAMES: [&str; 13] = ["wdt", "wdl", "dbc", "blp", "skin", "anim", "m2", "wmo_root", "wmo_group", "adt", "ptch", "codec", "mpq"];
/// seeds each format is expected to yield (a seed is dropped when the crate's writer refuses it or its
/// own parser no longer accepts it); fewer is reported in the evidence, none is a machinery failure
const EXPECTED_SEEDS: [usize; 13] = [7, 6, 10, 12, 8, 8, 14, 9, 8, 17, 4, 5, 17];
/// the same for thorough (primary + additional seeds)
const EXPECTED_SEEDS_T: [usize; 13] = [12, 9, 15, 27, 14, 11, 23, 16, 15, 17, 7, 10, 31];

// ------------------------------------------------------------------ panic site -> function cache

/// (file, line) of a panic inside /repo -> innermost /repo function.  A pure function of the
/// binary; learnt by re-running a panicking case once in a child that symbolizes a backtrace
/// (~0.4 s), shared between the worker processes through a file next to the executable.
struct SymCache {
    map: std::sync::Mutex<std::collections::HashMap<(String, u32), String>>,
    path: Option<std::path::PathBuf>,
}
impl SymCache {
    fn new() -> SymCache {
        let path = std::env::current_exe().ok().and_then(|exe| {
            let md = std::fs::metadata(&exe).ok()?;
            let mt = md.modified().ok()?.duration_since(std::time::UNIX_EPOCH).ok()?.as_nanos();
            let dir = exe.parent()?.to_path_buf();
            let stem = exe.file_name()?.to_string_lossy().to_string();
            let mine = format!("{stem}.symcache-{}-{}", md.len(), mt);
            if let Ok(rd) = std::fs::read_dir(&dir) {
                for e in rd.flatten() {
                    let n = e.file_name().to_string_lossy().to_string();
                    if n.starts_with(&format!("{stem}.symcache-")) && n != mine {
                        let _ = std::fs::remove_file(e.path());
                    }
                }
            }
            Some(dir.join(mine))
        });
        let c = SymCache { map: Default::default(), path };
        c.reload();
        c
    }
    fn reload(&self) {
        let Some(p) = &self.path else { return };
        let Ok(txt) = std::fs::read_to_string(p) else { return };
        let mut m = self.map.lock().unwrap();
        for l in txt.lines() {
            let f: Vec<&str> = l.split('\t').collect();
            if f.len() == 3 {
                if let Ok(n) = f[1].parse() {
                    m.insert((f[0].to_string(), n), f[2].to_string());
                }
            }
        }
    }
    fn get(&self, file: &str, line: u32) -> Option<String> {
        let k = (file.to_string(), line);
        if let Some(v) = self.map.lock().unwrap().get(&k) {
            return Some(v.clone());
        }
        self.reload();
        self.map.lock().unwrap().get(&k).cloned()
    }
    fn put(&self, file: &str, line: u32, func: &str) {
        self.map.lock().unwrap().insert((file.to_string(), line), func.to_string());
        if let Some(p) = &self.path {
            use std::io::Write;
            if let Ok(mut f) = std::fs::OpenOptions::new().create(true).append(true).open(p) {
                let _ = f.write_all(format!("{file}\t{line}\t{func}\n").as_bytes());
            }
        }
    }
}
fn in_repo(file: &str) -> bool {
    file.starts_with("file-formats/")
}
/// cache key of a panic site: source position inside /repo, else the call chain that reached it
fn panic_key(file: &str, line: u32, chain: &str) -> (String, u32) {
    if in_repo(file) {
        (file.to_string(), line)
    } else {
        (format!("pchain:{chain}"), 0)
    }
}

// ------------------------------------------------------------------ the space of one format

struct FormatSpace {
    fmt: Box<dyn Format>,
    seeds: Vec<Seed>,
    spaces: Vec<SeedSpace>,
    /// cumulative case counts
    cum: Vec<u64>,
    sandbox: OnceLock<(Scratch, Sandbox, Option<sandbox::SymServer>)>,
    syms: OnceLock<SymCache>,
}

/// thorough: header-level sites per seed whose pairs are all enumerated (strided if a seed has more)
const PAIR_SITES_T: usize = 40;
/// the same for the additional (tier2) seeds of thorough
const PAIR_SITES_T2: usize = 16;

/// header-level sites per seed (in file order) whose single bytes deviate: quick / thorough
const BYTE_SITES_Q: usize = 8;
const BYTE_SITES_T: usize = 400;

/// site / chunk-op budgets per seed
struct Budget {
    sites: usize,
    vals: Vec<usize>,
    chunk_ops: usize,
    pair_sites: usize,
    pair_seeds: usize,
    /// thorough: neighbour pairs (distance <= near_dist in the file-ordered list of header-level sites) among the first near_sites header-level sites
    near_dist: usize,
    near_sites: usize,
}

impl FormatSpace {
    fn new(fmt: Box<dyn Format>, tier: Tier) -> FormatSpace {
        let _ = THOROUGH.set(tier == Tier::Thorough);
        let mut seeds = seeds_in_child(&*fmt);
        seeds.sort_by_key(|s| s.bytes.len());
        let b = match tier {
            Tier::Quick => Budget { sites: 120, vals: (0..VALS.len()).collect(), chunk_ops: 24, pair_sites: 0, pair_seeds: 0, near_dist: 0, near_sites: 0 },
            Tier::Thorough => Budget { sites: usize::MAX / 4, vals: (0..if fmt.name() == "mpq" { VALS_T.len() } else { VALS_T_COMMON }).collect(), chunk_ops: 600, pair_sites: PAIR_SITES_T, pair_seeds: usize::MAX, near_dist: 3, near_sites: 160 },
        };
        // the seeds with the most header-level sites carry the 2-deviation class
        let mut by_hdr: Vec<usize> = (0..seeds.len()).collect();
        by_hdr.sort_by_key(|&i| std::cmp::Reverse(seeds[i].sites.iter().filter(|s| s.header).count().min(b.pair_sites.max(1)) * 1_000_000 + (1_000_000 - seeds[i].bytes.len().min(999_999))));
        let pair_seeds: Vec<usize> = by_hdr.into_iter().take(b.pair_seeds).collect();
        let mut spaces = vec![];
        for (i, s) in seeds.iter().enumerate() {
            // (quick: without the sites of the later sub-structure maps, so that its strided 1-field class stays as it was)
            let all: Vec<usize> = (0..s.sites.len() - if tier == Tier::Thorough { 0 } else { s.extra_sites.min(s.sites.len()) }).collect();
            // header-level sites are always kept; the rest is strided to the budget
            let hdr: Vec<usize> = all.iter().copied().filter(|&k| s.sites[k].header).collect();
            let rest: Vec<usize> = all.iter().copied().filter(|&k| !s.sites[k].header).collect();
            let hdr = stride(&hdr, b.sites);
            let mut field_sites = hdr.clone();
            field_sites.extend(stride(&rest, b.sites.saturating_sub(hdr.len().min(b.sites / 2))));
            field_sites.sort();
            field_sites.dedup();
            let pair_sites = if pair_seeds.contains(&i) { stride(&hdr, if s.tier2 { PAIR_SITES_T2.min(b.pair_sites) } else { b.pair_sites }) } else { vec![] };
            let mut near_pairs = vec![];
            let all_hdr: Vec<usize> = all.iter().copied().filter(|&k| s.sites[k].header).take(b.near_sites).collect();
            for (x, &a) in all_hdr.iter().enumerate() {
                for &c in all_hdr.iter().skip(x + 1).take(b.near_dist) {
                    if !(pair_sites.contains(&a) && pair_sites.contains(&c)) {
                        near_pairs.push((a, c));
                    }
                }
            }
            spaces.push(SeedSpace {
                prefixes: prefix_lengths(s.bytes.len(), tier == Tier::Thorough),
                field_sites,
                vals: b.vals.clone(),
                far_from: if tier == Tier::Thorough { FAR_SITES } else { usize::MAX },
                vals_far: (0..VALS.len()).collect(),
                chunk_ops: chunk_ops(s, b.chunk_ops, tier == Tier::Thorough),
                pair_sites,
                near_pairs,
                near_vals: if s.tier2 { VALS2.to_vec() } else { VALS2N.to_vec() },
                appends: if tier == Tier::Thorough { APPENDS.len() } else { 0 },
                triple_sites: fmt.triple_sites(s, tier == Tier::Thorough),
                triple_vals: if tier == Tier::Thorough { VALS3_T.to_vec() } else { VALS3_Q.to_vec() },
                rect_sites: fmt.rect_sites(s),
                byte_sites: (0..s.sites.len()).filter(|&k| s.sites[k].header).take(if tier == Tier::Thorough { BYTE_SITES_T } else { BYTE_SITES_Q }).collect(),
            });
        }
        let mut cum = vec![0u64];
        for sp in &spaces {
            cum.push(cum.last().unwrap() + sp.len());
        }
        FormatSpace { fmt, seeds, spaces, cum, sandbox: OnceLock::new(), syms: OnceLock::new() }
    }
    fn locate(&self, i: u64) -> (usize, Dev) {
        let k = match self.cum.binary_search(&i) {
            Ok(k) => k,
            Err(k) => k - 1,
        };
        let k = k.min(self.seeds.len().saturating_sub(1));
        (k, self.spaces[k].dev(i - self.cum[k]))
    }
    fn sb(&self) -> &(Scratch, Sandbox, Option<sandbox::SymServer>) {
        self.sandbox.get_or_init(|| {
            let sc = Scratch::new(&format!("c05-{}", self.fmt.name()));
            let sb = Sandbox::new(&sc.path("child-stderr.txt"), CASE_SECS);
            let srv = if sb.nofork {
                None
            } else {
                sandbox::SymServer::spawn(&|i, skip| {
                    let (k, d) = self.locate(i);
                    let s = &self.seeds[k];
                    set_class_flags(s, &d);
                    match s.apply(&d) {
                        Some(input) => sb.run(input.len(), true, skip, false, &|rec: &mut Recorder| case_body(&*self.fmt, s, &input, rec, &sc.0)),
                        None => Default::default(),
                    }
                })
            };
            (sc, sb, srv)
        })
    }
    fn axes(&self) -> Value {
        let mut v = self.axes_base();
        let triples = self.spaces.iter().map(|s| s.triple_cases()).sum::<u64>();
        {
            let m = v.as_object_mut().unwrap();
            m.insert("rect_byte_cases".into(), json!(self.spaces.iter().map(|s| s.rect_cases()).sum::<u64>()));
            m.insert("header_byte_cases".into(), json!(self.spaces.iter().map(|s| s.byte_cases()).sum::<u64>()));
        }
        if triples > 0 {
            let m = v.as_object_mut().unwrap();
            m.insert("triple_cases".into(), json!(triples));
            m.insert("triple_sites_per_seed".into(), json!(self.seeds.iter().zip(&self.spaces).filter(|(_, x)| !x.triple_sites.is_empty()).map(|(s, x)| format!("{}: {} sites, {} values", s.name, x.triple_sites.len(), x.triple_vals.len())).collect::<Vec<_>>()));
        }
        if thorough() {
            let m = v.as_object_mut().unwrap();
            m.insert("near_pair_cases".into(), json!(self.spaces.iter().map(|s| s.near_cases()).sum::<u64>()));
            m.insert("append_cases".into(), json!(self.spaces.iter().map(|s| s.appends as u64).sum::<u64>()));
            m.insert("pair_sites_max".into(), json!(self.spaces.iter().map(|s| s.pair_sites.len()).max().unwrap_or(0)));
        }
        v
    }
    fn axes_base(&self) -> Value {
        json!({
            "seeds": self.seeds.len(),
            "seed_names": self.seeds.iter().map(|s| format!("{} ({} B, {} sites, {} chunks)", s.name, s.bytes.len(), s.sites.len(), s.chunks.len())).collect::<Vec<_>>(),
            "prefix_cases": self.spaces.iter().map(|s| s.prefixes.len() as u64).sum::<u64>(),
            "field_sites_enumerated": self.spaces.iter().map(|s| s.field_sites.len() as u64).sum::<u64>(),
            "field_sites_located": self.seeds.iter().map(|s| s.sites.len() as u64).sum::<u64>(),
            "values_per_site": self.spaces.first().map(|s| s.vals.len()).unwrap_or(0),
            "chunk_edit_cases": self.spaces.iter().map(|s| s.chunk_ops.len() as u64).sum::<u64>(),
            "pair_cases": self.spaces.iter().map(|s| s.pairs() * (VALS2.len() * VALS2.len()) as u64).sum::<u64>(),
            "cases": self.cum.last().copied().unwrap_or(0),
        })
    }
}

/// deviation class switches read by the formats (set identically in the worker and in the symbolizer server)
fn set_class_flags(s: &Seed, d: &Dev) {
    LIGHT.store(matches!(d, Dev::Field2 { .. } | Dev::Field3 { .. }), std::sync::atomic::Ordering::Relaxed);
    let heavy = match d {
        Dev::Field2 { .. } | Dev::Field3 { .. } | Dev::Prefix(_) | Dev::Byte { .. } | Dev::Byte2 { .. } => false,
        Dev::Field { site, .. } => s.sites[*site].header,
        _ => true,
    };
    HEAVY.store(heavy, std::sync::atomic::Ordering::Relaxed);
}

/// The one function through which both the worker and the symbolizer server enter a case: the
/// address chains taken inside are cut at this frame, so they agree between the two.
#[inline(never)]
fn case_body(fmt: &dyn Format, seed: &Seed, input: &[u8], rec: &mut Recorder, scratch: &std::path::Path) {
    sandbox::mark_base();
    fmt.run(seed, input, rec, scratch);
    std::hint::black_box(());
}

impl Space for FormatSpace {
    fn len(&self) -> u64 {
        *self.cum.last().unwrap()
    }
    fn describe(&self, i: u64) -> Value {
        let (k, d) = self.locate(i);
        let s = &self.seeds[k];
        json!({"format": self.fmt.name(), "seed": s.name, "dev": s.describe_dev(&d)})
    }
    fn case_timeout(&self) -> u64 {
        60
    }
    fn run(&self, i: u64) -> CaseResult {
        let mut r = CaseResult::new();
        let (k, d) = self.locate(i);
        let s = &self.seeds[k];
        let Some(input) = s.apply(&d) else {
            r.outcome = "identical-to-seed".into();
            r.count("cases_identical_to_seed_skipped", 1);
            return r;
        };
        let (sc, sb, srv) = self.sb();
        set_class_flags(s, &d);
        let body = |rec: &mut Recorder| case_body(&*self.fmt, s, &input, rec, &sc.0);
        let name = self.fmt.name();
        let syms = self.syms.get_or_init(SymCache::new);
        // A child that dies (abort, signal, time limit) is re-run without the call that killed it, so
        // that the remaining entry points of the case are observed too (at most 2 deaths per case in quick, 4 in thorough).
        let mut skip: Vec<u32> = vec![];
        let mut deaths: Vec<sandbox::Death> = vec![];
        let mut rep;
        let mut earlier: Vec<sandbox::Report> = vec![];
        loop {
            rep = sb.run(input.len(), false, &skip, true, &body);
            for e in earlier.iter().rev() {
                rep.absorb_earlier(e);
            }
            let Some(d) = rep.death.clone() else { break };
            earlier = vec![rep.clone()];
            let hang = d.class.starts_with("hang");
            skip.push(d.call_no);
            deaths.push(d);
            if deaths.len() >= if thorough() { 4 } else { 2 } || hang || sb.nofork {
                break;
            }
            r.count("reruns_after_a_death", 1);
        }
        // name the function of every panic site inside /repo (learnt once per site, then cached)
        let known = |p: &sandbox::PanicRec| {
            let k = panic_key(&p.file, p.line, &p.chain);
            syms.get(&k.0, k.1).is_some()
        };
        if !sb.nofork && rep.panics.iter().any(|p| !known(p)) {
            // the symbolizing child replays every call of the case except those that killed a child
            let got = srv.as_ref().and_then(|x| x.resolve(i, &skip)).map(|x| x.0).unwrap_or_default();
            r.count("symbolizing_reruns", 1);
            for (file, line, func, chain) in &got {
                let k = panic_key(file, *line, chain);
                if syms.get(&k.0, k.1).is_none() {
                    syms.put(&k.0, k.1, func);
                }
            }
            for p in &rep.panics {
                if !known(p) {
                    let k = panic_key(&p.file, p.line, &p.chain);
                    syms.put(&k.0, k.1, "");
                }
            }
        }
        for (k, d) in deaths.iter().enumerate() {
            if std::env::var("C05_VERBOSE").is_ok() {
                eprintln!("   death in call #{} {}: {} chain=[{}]", d.call_no, d.ep, d.class, d.chain);
            }
            // name the function the process died in: keyed by the return-address chain of the abort
            let key = format!("chain:{}", d.chain);
            let mut func = String::new();
            if !d.chain.is_empty() && !sb.nofork {
                func = match syms.get(&key, 0) {
                    Some(f) => f,
                    None => {
                        let got = srv.as_ref().and_then(|x| x.resolve(i, &skip[..k])).and_then(|x| x.1);
                        r.count("symbolizing_reruns", 1);
                        // the replay is deterministic: same dying call = same death (the replay's own address
                        // chain differs in the harness frames, so it is not compared)
                        let f = got.filter(|x| x.0 == d.call_no).map(|x| x.1).unwrap_or_default();
                        syms.put(&key, 0, &f);
                        f
                    }
                };
            }
            let site = if func.is_empty() { String::new() } else { format!(" in {func}") };
            let sym = format!("{}: {}{}", d.ep, d.class, site);
            if !rep.viols.iter().any(|v| v.0 == sym) {
                rep.viols.push((sym, d.detail.clone()));
            }
        }
        for p in &rep.panics {
            let k = panic_key(&p.file, p.line, &p.chain);
            let func = syms.get(&k.0, k.1).unwrap_or_default();
            rep.viols.push((format!("{}: {}", p.ep, sandbox::panic_site(&p.file, &func, &p.msg)), format!("{}:{}: {}", p.file, p.line, p.msg)));
        }
        let mut out = String::new();
        let (mut calls, mut oks, mut errs) = (0u64, 0u64, 0u64);
        for e in &rep.eps {
            if std::env::var("C05_VERBOSE").is_ok() {
                eprintln!("   ep {:<50} ok={} err={} peak={} largest_request={}", e.ep, e.ok, e.err, e.peak, e.largest);
            }
            calls += e.ok + e.err;
            oks += e.ok;
            errs += e.err;
            out.push_str(&format!("{}:{};", e.ep, if e.ok > 0 && e.err > 0 { "ok+err" } else if e.ok > 0 { "ok" } else if e.err > 0 { "err" } else { "panic" }));
        }
        for (sym, det) in &rep.viols {
            r.viol(format!("[{name}] {sym}"), det.clone());
            out.push_str("V;");
        }
        r.count("entry_point_calls", calls + rep.viols.len() as u64);
        r.count("entry_point_ok", oks);
        r.count("entry_point_err", errs);
        for (k, n) in &rep.notes {
            r.count(k, *n);
        }
        r.err_return = oks == 0 && errs > 0 && rep.viols.is_empty();
        let reached = if self.fmt.measures_consumption() { rep.max_consumed > 8 } else { input.len() > 8 };
        r.nontrivial = reached;
        if !reached {
            r.count("cases_stopped_within_8_bytes", 1);
        }
        if d == Dev::None && rep.eps.first().map(|e| e.ok == 0).unwrap_or(true) {
            r.viol(format!("[{name}] harness: the unmodified seed is not accepted by the first entry point"), format!("seed {}: {}", s.name, out));
        }
        r.key = format!("{}/{}/{}", name, s.name, s.describe_dev(&d));
        r.outcome = format!("{name}|{out}");
        r
    }
}

fn build(name: &str, _arg: &str, tier: Tier) -> Box<dyn Space> {
    let _ = THOROUGH.set(tier == Tier::Thorough);
    for f in all_formats() {
        if f.name() == name {
            return Box::new(FormatSpace::new(f, tier));
        }
    }
    panic!("space {name}");
}

/// Stand-alone reproductions: `--repro` runs a built-in list of minimal cases (one per defect
/// family), `--repro <format> <substring>...` the first case of the format whose JSON descriptor
/// contains every substring.  Prints the deviated bytes and what each entry point did.
fn repro() {
    let a: Vec<String> = std::env::args().collect();
    let p = a.iter().position(|x| x == "--repro").unwrap();
    let tier = if a.iter().any(|x| x == "thorough") { Tier::Thorough } else { Tier::Quick };
    let rest: Vec<String> = a[p + 1..].iter().filter(|x| *x != "thorough").cloned().collect();
    let builtin: Vec<(&str, Vec<&str>)> = vec![
        ("dbc", vec!["wdbc_s0_n0", "\"kind\":\"seed\""]),
        ("dbc", vec!["wdbc_s0_n1", "header+0x4@", "2^31-1"]),
        ("dbc", vec!["wdb2_ext_index", "header+0x20@", "2^31-1"]),
        ("m2", vec!["vanilla_min", "\"kind\":\"seed\""]),
        ("m2", vec!["wotlk_min", "header+0x8@", "2^31-1"]),
        ("skin", vec!["skin_new_empty", "header+0x4@", "2^31-1"]),
        ("anim", vec!["anim_modern_1sec_0bones", "header+0x1c@", "\"value\":\"0\""]),
        ("blp", vec!["blp2_jpeg", "header+0xc@", "2^31-1"]),
        ("blp", vec!["blp2_jpeg", "header+0x54@", "2^32-1"]),
        ("wdl", vec!["vanilla_empty", "REVM[0].size", "2^31-1"]),
        ("wdt", vec!["bfa_maid", "DIAM[0].size", "\"value\":\"0\""]),
        ("wdt", vec!["classic_terrain", "OMWM[0].size", "2^31-1"]),
        ("wmo_root", vec!["XTOM[0].size", "2^31-1"]),
        ("wmo_group", vec!["PGOM[0].size", "\"value\":\"0\""]),
        ("adt", vec!["cata_split_root", "O2HM[0]+0x4@", "2^31-1"]),
        ("adt", vec!["vanilla_early_min", "KNCM[0]", ".size", "2^31-1"]),
        ("mpq", vec!["v3_store", "header.hash_table_pos@", "\"value\":\"0\""]),
        ("mpq", vec!["v4_store", "header.het_table_size64.lo", "2^31-1"]),
        ("mpq", vec!["v1_zlib_sectored", "block_table[1].file_size", "2^31-1"]),
        ("ptch", vec!["bsd0_300", "header+0x4@", "2^31-1"]),
    ];
    // named reproductions of the defects found by the thorough tier (deviation-class cases of its space)
    let named: Vec<(&str, &str, Vec<&str>)> = vec![
        ("m2-compquat-negate", "m2", vec!["wotlk_rich", "body+0x230@0x230", "\"value\":\"rest+1\""]),
        ("mpq-empty-crc-unit", "mpq", vec!["v1_adpcm_mono_zlib_crc", "block_table[0].compressed_size", "\"kind\":\"field\"", "\"value\":\"0\""]),
        ("mpq-table-pos-overflow", "mpq", vec!["nested_userdata_v4_zlib_crc_attrs", "field2", "header.bet_table_pos.lo", "header.bet_table_pos.hi", "\"value\":\"2^32-1\"", "\"value2\":\"2^32-1\""]),
        ("mpq-patch-sector-underflow", "mpq", vec!["ref_v1_patch_entry_bsd0", "block_table[0].flags", "\"value\":\"2^20\""]),
        ("mpq-block-count-triple", "mpq", vec!["v2_bzip2_encrypted_shift1", "field3", "header.archive_size", "\"value\":\"2^32-1\"", "header.block_table_entries", "\"value2\":\"2^26\"", "header.hi_block_table_pos.lo", "\"value3\":\"2^32-1\""]),
        ("blp-zune-jpeg-sof", "blp", vec!["blp2_jpeg_alpha_16x16_mips", "body+0x3d4@0x3d4", "\"value\":\"2^32-1\""]),
    ];
    if rest.len() == 1 && rest[0] == "m2-compquat-negate-direct" {
        // the smallest input of the defect class, straight at the public parser of the structure
        let bytes = [0x00u8, 0x80, 0, 0, 0, 0, 0, 0];
        let r = std::panic::catch_unwind(|| wow_m2::chunks::m2_track::M2CompQuat::parse(&mut std::io::Cursor::new(&bytes[..])).map(|q| (q.x, q.y, q.z, q.w)).map_err(|e| e.to_string()));
        println!("M2CompQuat::parse(00 80 00 00 00 00 00 00) -> {}", match r { Ok(v) => format!("{v:?}"), Err(_) => "PANIC".to_string() });
        return;
    }
    let tier = if rest.len() == 1 && named.iter().any(|n| n.0 == rest[0]) { Tier::Thorough } else { tier };
    let list: Vec<(String, Vec<String>)> = if let Some(n) = named.iter().find(|n| rest.len() == 1 && n.0 == rest[0]) {
        vec![(n.1.to_string(), n.2.iter().map(|x| x.to_string()).collect())]
    } else if rest.len() >= 1 {
        vec![(rest[0].clone(), rest[1..].to_vec())]
    } else {
        builtin.into_iter().map(|(f, v)| (f.to_string(), v.into_iter().map(|x| x.to_string()).collect())).collect()
    };
    for (fmt, subs) in list {
        let Some(f) = all_formats().into_iter().find(|f| f.name() == fmt) else {
            println!("unknown format {fmt}");
            continue;
        };
        let sp = FormatSpace::new(f, tier);
        let Some(i) = (0..sp.len()).find(|&i| {
            let d = sp.describe(i).to_string();
            subs.iter().all(|x| d.contains(x.as_str()))
        }) else {
            println!("== {fmt} {subs:?}: no such case in the {} tier space", tier.as_str());
            continue;
        };
        let (k, d) = sp.locate(i);
        let seed = &sp.seeds[k];
        println!("== {fmt} case #{i}: {}", sp.describe(i));
        if let Some(input) = seed.apply(&d) {
            if let Ok(p) = std::env::var("C05_DUMP") {
                let _ = std::fs::write(&p, &input);
                println!("   input written to {p}");
            }
            let diff: Vec<usize> = (0..input.len().min(seed.bytes.len())).filter(|&j| input[j] != seed.bytes[j]).collect();
            println!("   input: {} bytes (seed {} bytes); differing byte offsets: {:?}{}", input.len(), seed.bytes.len(), &diff[..diff.len().min(12)], if diff.len() > 12 { " ..." } else { "" });
            let lo = diff.first().copied().unwrap_or(0) / 16 * 16;
            let hi = (lo + 32).min(input.len());
            println!("   bytes[{lo:#x}..{hi:#x}] = {}", input[lo..hi].iter().map(|b| format!("{b:02x}")).collect::<Vec<_>>().join(" "));
        }
        let r = sp.run(i);
        println!("   outcome: {}", r.outcome);
        for v in &r.viols {
            println!("   VIOLATION {} :: {}", v.symptom, v.detail);
        }
        if r.viols.is_empty() {
            println!("   no violation");
        }
    }
}

fn arg_after(flag: &str) -> Option<String> {
    let a: Vec<String> = std::env::args().collect();
    a.iter().position(|x| x == flag).and_then(|p| a.get(p + 1).cloned())
}

fn main() {
    if std::env::args().any(|a| a == "--bench-sym") {
        let rss = || std::fs::read_to_string("/proc/self/status").unwrap().lines().find(|l| l.starts_with("VmRSS")).unwrap().to_string();
        println!("before: {}", rss());
        let t = std::time::Instant::now();
        sandbox::warm_symbolizer();
        println!("cold symbolization: {:?}; {}", t.elapsed(), rss());
        let t = std::time::Instant::now();
        sandbox::warm_symbolizer();
        println!("warm symbolization: {:?}; {}", t.elapsed(), rss());
        return;
    }
    if std::env::args().any(|a| a == "--selftest") {
        // the seed modules' own checks: every seed is accepted by the parsers of its format and reads back as built
        let mut bad = false;
        for (name, r) in [("m2/skin/anim", seeds_m2::selftest()), ("adt", seeds_adt::selftest()), ("wmo", seeds_wmo::selftest())] {
            match r {
                Ok(()) => println!("seed selftest {name}: ok"),
                Err(e) => {
                    println!("seed selftest {name}: FAILED: {e}");
                    bad = true;
                }
            }
        }
        if std::env::args().any(|a| a == "-v") {
            print!("{}", seeds_m2::report());
            print!("{}", seeds_wmo::report());
        }
        std::process::exit(if bad { 2 } else { 0 });
    }
    if std::env::args().any(|a| a == "--repro") {
        repro();
        return;
    }
    if std::env::args().any(|a| a == "--bench") {
        // CPU cost model (debug aid): sample every deviation class of every seed, measure user+sys CPU of
        // this process and its children per case, extrapolate to the class sizes
        let tier = if std::env::args().any(|a| a == "thorough") { Tier::Thorough } else { Tier::Quick };
        let _ = THOROUGH.set(tier == Tier::Thorough);
        let only = arg_after("--only-format");
        let per_class: u64 = arg_after("--samples").and_then(|x| x.parse().ok()).unwrap_or(16);
        let cpu = || {
            let mut t = 0.0;
            for who in [libc::RUSAGE_SELF, libc::RUSAGE_CHILDREN] {
                let mut ru: libc::rusage = unsafe { std::mem::zeroed() };
                unsafe { libc::getrusage(who, &mut ru) };
                t += ru.ru_utime.tv_sec as f64 + ru.ru_utime.tv_usec as f64 * 1e-6 + ru.ru_stime.tv_sec as f64 + ru.ru_stime.tv_usec as f64 * 1e-6;
            }
            t
        };
        let mut grand = 0.0;
        let mut grand_cases = 0u64;
        for f in all_formats() {
            if only.as_ref().map(|o| !o.split(',').any(|x| x == f.name())).unwrap_or(false) {
                continue;
            }
            let sp = FormatSpace::new(f, tier);
            let mut fmt_total = 0.0;
            let mut by_class: std::collections::BTreeMap<&str, (f64, u64)> = Default::default();
            for (k, x) in sp.spaces.iter().enumerate() {
                let base = sp.cum[k];
                let vv = (VALS2.len() * VALS2.len()) as u64;
                let classes: [(&str, u64); 10] = [
                    ("seed", 1),
                    ("prefix", x.prefixes.len() as u64),
                    ("field", x.field_cases()),
                    ("chunk", x.chunk_ops.len() as u64),
                    ("pair", x.pairs() * vv),
                    ("near", x.near_cases()),
                    ("append", x.appends as u64),
                    ("triple", x.triple_cases()),
                    ("rect", x.rect_cases()),
                    ("byte", x.byte_cases()),
                ];
                let mut off = 0u64;
                let mut seed_total = 0.0;
                for (name, n) in classes {
                    if n > 0 {
                        let m = per_class.min(n);
                        let t0 = cpu();
                        for j in 0..m {
                            let i = base + off + (j * (n - 1)) / m.max(2).saturating_sub(1).max(1);
                            let i = i.min(base + off + n - 1);
                            if std::panic::catch_unwind(std::panic::AssertUnwindSafe(|| sp.run(i))).is_err() {
                                println!("   PANIC in the harness at case #{i}: {}", sp.describe(i));
                            }
                        }
                        let avg = (cpu() - t0) / m as f64;
                        let e = by_class.entry(name).or_insert((0.0, 0));
                        e.0 += avg * n as f64;
                        e.1 += n;
                        seed_total += avg * n as f64;
                    }
                    off += n;
                }
                fmt_total += seed_total;
                if std::env::args().any(|a| a == "-v") {
                    println!("   {:<55} {:>8} cases  {:>8.1} cpu-s", sp.seeds[k].name, x.len(), seed_total);
                }
            }
            println!("{:<10} {:>9} cases {:>8.1} cpu-s   {}", sp.fmt.name(), sp.len(), fmt_total, by_class.iter().map(|(k, v)| format!("{k}: {} cases {:.0} s ({:.2} ms)", v.1, v.0, v.0 / v.1.max(1) as f64 * 1e3)).collect::<Vec<_>>().join("; "));
            grand += fmt_total;
            grand_cases += sp.len();
        }
        println!("total {grand_cases} cases, predicted {grand:.0} cpu-s = {:.1} min on 16 idle cores", grand / 16.0 / 60.0);
        return;
    }
    if std::env::args().any(|a| a == "--check-seeds") {
        // run the unmodified seed of every (format, seed) and say what each entry point did (debug aid)
        let tier = if std::env::args().any(|a| a == "thorough") { Tier::Thorough } else { Tier::Quick };
        let _ = THOROUGH.set(tier == Tier::Thorough);
        let only = arg_after("--only-format");
        let mut bad = 0;
        for f in all_formats() {
            if only.as_ref().map(|o| !o.split(',').any(|x| x == f.name())).unwrap_or(false) {
                continue;
            }
            let sp = FormatSpace::new(f, tier);
            for k in 0..sp.seeds.len() {
                let r = sp.run(sp.cum[k]);
                let first_ok = r.outcome.split('|').nth(1).and_then(|o| o.split(';').next()).map(|e| e.ends_with(":ok") || e.ends_with(":ok+err")).unwrap_or(false);
                println!("{:<10} {:<55} {:>7} B tier2={} first_ep_ok={} viols={}", sp.fmt.name(), sp.seeds[k].name, sp.seeds[k].bytes.len(), sp.seeds[k].tier2, first_ok, r.viols.len());
                if std::env::args().any(|a| a == "-v") || !r.viols.is_empty() {
                    println!("      {}", r.outcome);
                }
                for v in &r.viols {
                    bad += 1;
                    println!("      VIOLATION {} :: {}", v.symptom, v.detail);
                }
            }
        }
        std::process::exit(if bad > 0 { 1 } else { 0 });
    }
    if std::env::args().any(|a| a == "--seeds") {
        // list the seeds of every format (debug aid)
        let _ = THOROUGH.set(std::env::args().any(|a| a == "thorough"));
        for f in all_formats() {
            let sp = FormatSpace::new(f, if thorough() { Tier::Thorough } else { Tier::Quick });
            println!("{}: {}", sp.fmt.name(), serde_json::to_string_pretty(&sp.axes()).unwrap());
            if std::env::args().any(|a| a == "-v") {
                for (s, x) in sp.seeds.iter().zip(&sp.spaces) {
                    println!("   {:<50} {:>7} B  sites {:>5} (header-level {:>5})  chunks {:>5} (top-level {:>4})  pair sites {:>3}  cases {:>8}", s.name, s.bytes.len(), s.sites.len(), s.sites.iter().filter(|t| t.header).count(), s.chunks.len(), s.chunks.iter().filter(|c| c.parent.is_none()).count(), x.pair_sites.len(), x.len());
                }
            }
        }
        return;
    }
    let Mode::Supervisor(mut c) = start("C05", "exploration", build) else { return };
    let only: Option<Vec<String>> = arg_after("--only-format").or_else(|| std::env::var("C05_FORMATS").ok()).map(|s| s.split(',').map(|x| x.trim().to_string()).collect());
    let rule_quick = "One space per format (wdt, wdl, dbc, blp, skin, anim, m2, wmo_root, wmo_group, adt, ptch, codec, mpq; `--only-format a,b` or C05_FORMATS runs a subset). \
        Case = (seed file written by the crate's own writer/builder, deviation). Deviations: none (the seed); every prefix length (thorough: all < 4 KiB, then every 97th, last 64; \
        quick: all < 160, every 11th < 4 KiB, every 997th beyond, last 16); every located 32-bit field position (header dwords, magic/size/first payload dwords of every chunk incl. sub-chunks, \
        table entries, for MPQ also the plaintext dwords inside the encrypted hash/block/HET/BET tables: decrypt, patch, re-encrypt) x 10 values {0,1,2^31-1,2^31,2^32-1,field-1,field+1,file_len,file_len-1,file_len+1} \
        (quick: header-level sites all, the rest strided to 120 sites per seed; thorough: up to 1600 per seed); delete/duplicate/swap-with-next of every chunk (sizes of enclosing chunks kept consistent; quick strided to 24 chunks per seed); \
        thorough only: all pairs of <= 40 header-level sites (strided if a seed has more) x 6x6 values {0,2^32-1,2^31-1,2^31,field+1,file_len} for every seed. \
        3-field deviations (mpq): all 35 triples of the 7 size/position/count fields of the classic header (archive_size, hash_table_pos, block_table_pos, hash_table_entries, block_table_entries, hi_block_table_pos lo/hi) \
        of the V2 seed v2_bzip2_encrypted_shift1 x 3x3x3 values {2^26,2^32-1,file_len} (a count between the library's 10^6 entry limit and the 2^28 multiplication overflow, a position/size far beyond the file, the file length). \
        Every case runs all entry points of the format in a forked child under the monitors: no panic, no abort/signal, no stack overflow, return within 50 s (engine watchdog 60 s), \
        no single allocation request and no peak live heap above 256 MiB + 4096 x input_len (requests above the limit are refused by the counting allocator). \
        A dying child is re-run without the call that killed it (up to 2 deaths per case in quick, 4 in thorough) so that the other entry points of the case are still observed. \
        A case is non-trivial when a parser consumed more than 8 bytes of its input (counting reader; for the path/slice-only APIs of mpq, blp, ptch, codec: input longer than 8 bytes); cases whose deviation leaves the seed unchanged are skipped and counted. Distinct by (format, seed, deviation). \
        Symptom = entry point + failure class + site (panic: source file, innermost /repo function, message with digits collapsed; abort: innermost /repo function of the dying call chain).";
    let rule_thorough = "One space per format (wdt, wdl, dbc, blp, skin, anim, m2, wmo_root, wmo_group, adt, ptch, codec, mpq; `--only-format a,b` or C05_FORMATS runs a subset). \
        Case = (seed file, deviation). Seeds: the primary seeds of the quick tier (written by the crate's own writer/builder) plus the additional (tier2) seeds of this tier: every container / header version the writers emit \
        (WDT Classic..Dragonflight, WDL Vanilla..Legion, M2 MD20 256..310 and MD21 around Legion/Shadowlands/TWW payloads, skin/anim old+new layouts with up to 9 submeshes / sections / bones, WMO MVER 17..23 roots and groups, \
        every BLP version x encoding x alpha depth incl. 1x1 and non-square images, larger DBC tables (100..257 records), PTCH payloads of 4 KiB, codec streams of 6 KiB and the codecs whose primary seed is missing, \
        MPQ V1-V4 x further codec/crypto/CRC/attribute/table-compression configurations, 40-file archives, archives nested behind a user-data header (V2/V3/V4) and embedded at 0x200/0x600 behind foreign bytes). \
        Deviations, each class enumerated completely: none (the seed); EVERY prefix length 0..len-1 (every truncation point; the one seed above 256 KiB, a 256-chunk terrain tile: every length within its first 64 KiB and last 4 KiB, every 7th in between); trailing data (8 kinds: 1/4/8/4096 bytes of 00 or FF, a copy of the file head); \
        EVERY located 32-bit field position (all header dwords, magic/size/first payload dwords of every chunk incl. sub-chunks, all dwords of the non-chunked files, table entries, for MPQ also the plaintext dwords inside the \
        encrypted hash/block/HET/BET tables: decrypt, patch, re-encrypt; no striding; sites beyond the first 2048 of a seed, which one seed has, take the 10 values of the quick tier) x 20 values {0,1,2,255,256,2^15,2^16-1,2^16,2^16-1<<16,2^30,2^31-1,2^31,2^32-1,field-1,field+1,file_len-1,file_len,file_len+1,rest,rest+1} (rest = bytes that follow the field); \
        chunk edits for every chunk (strided only above 600 chunks per seed): delete, duplicate, swap-with-next, 8 consistent payload resizes {-1,-2,-3,-4,+1,+4,empty,half} (own size field and enclosing chunks follow), \
        and per sibling group (top level / children of one container, <= 24 members, strided if larger) every pair of siblings exchanged and every pair deleted; \
        2-field deviations: ALL pairs of <= 40 header-level sites of a primary seed (<= 16 of a tier2 seed; strided if a seed has more) x 6x6 values {0,2^32-1,2^31-1,2^31,field+1,file_len}, \
        plus every pair of header-level sites at distance <= 3 in file order (the count/offset/size couples of one structure) among the first 160 header-level sites that is not in the all-pairs set x 8x8 values {0,1,2^31-1,2^31,2^32-1,field+1,file_len,2^16} (tier2 seeds: the 6x6 grid). \
        3-field deviations (mpq): ALL triples of the first 8 (V1 seeds: 4 builder-written + the user-data one), 11 (the 4 V2 seeds) or 17 (V4 seed v4_zlib_sectored_crc_attrs_full) dwords of the MPQ header x 6x6x6 values {0,2^26,2^32-1,file_len,field+1,2^31}; \
        the mpq 1-field ladder additionally has {2^20,2^24,2^26} (counts between the library's entry limits and the 32-bit multiplication overflow), 23 values. \
        Every case runs all entry points of the format in a forked child under the monitors: no panic, no abort/signal, no stack overflow, return within 50 s (engine watchdog 60 s), \
        no single allocation request and no peak live heap above 256 MiB + 4096 x input_len (requests above the limit are refused by the counting allocator). \
        Entry points of this tier beyond those of quick: MPQ header::find_header, MpqHeader::read, HET/BET/hash/hi-block table lookups on the opened archive, PatchChain::extract_files/get_chain_info, MutableArchive::find_file/load_attributes/verify_signature, \
        and (seed, header-level field, chunk-edit and trailing-data cases) ParallelArchive::open/extract_files_parallel/read_file_with_new_handle, rebuild_archive[list_only], compare_archives; PatchHeader::parse; compression::rle::decompress and two more expected sizes; \
        M2Model::parse_chunked, resolve_bone_animations, AnimationManagerBuilder::from_model, embedded skins 1..3; SkinHeader/OldSkinHeader parsers; AnimFormatDetector/AnimHeader/AnimParser; CombinedAlphaMap::new on the parsed terrain chunks, AdtSet::load_from_path + merge (same classes, inputs <= 64 KiB); \
        blp_to_image of every level, BlpJpeg::full_jpeg, load_blp (with BLP0 mip files; same classes); DbcVersion::detect, DbcHeader/Wdb2Header/Wdb5Header::parse, CachedStringBlock. \
        A dying child is re-run without the call that killed it (up to 4 deaths per case) so that the other entry points of the case are still observed. \
        A case is non-trivial when a parser consumed more than 8 bytes of its input (counting reader; for the path/slice-only APIs of mpq, blp, ptch, codec: input longer than 8 bytes); cases whose deviation leaves the seed unchanged are skipped and counted. Distinct by (format, seed, deviation). \
        Symptom = entry point + failure class + site (panic: source file, innermost /repo function, message with digits collapsed; abort: innermost /repo function of the dying call chain).";
    c.rule = c.tier.pick(rule_quick, rule_thorough).into();
    c.assume("seed files are valid inputs: each is accepted by the first entry point of its format (checked: case 0 of every seed is the unmodified seed)");
    c.assume("a request above the limit is refused by the allocator (null), so the observed failure mode of such a request is an abort of the forked child; it is reported as an allocation-rule violation of the entry point that was running");
    c.assume("time limit 50 s per case inside the child (alarm), all entry points of the case together");
    let mut axes = serde_json::Map::new();
    let mut shortfall: Vec<String> = vec![];
    for name in FORMAT_NAMES {
        if let Some(o) = &only {
            if !o.iter().any(|x| x == name) {
                continue;
            }
        }
        let sp = FormatSpace::new(all_formats().into_iter().find(|f| f.name() == name).unwrap(), c.tier);
        let want = c.tier.pick(EXPECTED_SEEDS, EXPECTED_SEEDS_T)[FORMAT_NAMES.iter().position(|n| *n == name).unwrap()];
        if sp.seeds.is_empty() {
            c.machinery_errors.push(format!("format {name}: no valid seed could be produced"));
            continue;
        }
        if sp.seeds.len() < want {
            eprintln!("note: format {name}: {} of {want} expected seeds were produced", sp.seeds.len());
            shortfall.push(format!("{name}: {} of {want}", sp.seeds.len()));
        }
        axes.insert(name.to_string(), sp.axes());
        drop(sp);
        c.run_space(name, "");
    }
    c.extra_cov.insert("axes".into(), Value::Object(axes));
    if c.tier == Tier::Thorough {
        c.extra_cov.insert(
            "bounds".into(),
            json!({
                "prefix_lengths": "every length 0..len-1 of every seed",
                "values_per_field": {"all formats": VALS_T_COMMON, "mpq": VALS_T.len()},
                "field_triples_mpq": {"header_dwords": {"V1": 8, "V2": 11, "V4": 17}, "seeds": 10, "value_grid": [VALS3_T.len(), VALS3_T.len(), VALS3_T.len()]},
                "field_sites": "every located site of every seed (no stride); sites beyond the first 2048 of a seed take the 10 quick values",
                "huge_seed_prefixes": "seed > 256 KiB: every length in the first 64 KiB and last 4 KiB, every 7th in between",
                "chunk_edit_kinds": {"delete": 1, "duplicate": 1, "swap_with_next": 1, "payload_resize": RESIZES.len(), "sibling_pair_swap": "all pairs of <= 24 siblings per group", "sibling_pair_delete": "all pairs of <= 24 siblings per group"},
                "chunks_per_seed_max": 600,
                "all_pairs_header_sites": {"primary_seed": PAIR_SITES_T, "tier2_seed": PAIR_SITES_T2, "value_grid": [VALS2.len(), VALS2.len()]},
                "neighbour_pairs": {"distance": 3, "among_first_header_sites": 160, "value_grid": [VALS2N.len(), VALS2N.len()], "value_grid_tier2": [VALS2.len(), VALS2.len()]},
                "trailing_data_kinds": APPENDS.len(),
                "tier2_seeds": "additional thorough-only seeds: further writer versions / configurations / element counts / nested containers",
            }),
        );
    }
    if !shortfall.is_empty() {
        c.extra_cov.insert("seed_shortfall".into(), json!(shortfall));
    }
    if let Some(o) = &only {
        c.extra_cov.insert("only_formats".into(), json!(o));
    }
    if let Ok(path) = std::env::var("C05_SURVEY") {
        // symptom -> (count, lowest case) table for triage
        let mut m: std::collections::BTreeMap<String, (u64, u64, String, String, String)> = Default::default();
        for v in &c.agg.viols {
            let e = m.entry(v.symptom.clone()).or_insert((0, u64::MAX, String::new(), String::new(), String::new()));
            e.0 += 1;
            if v.index < e.1 {
                e.1 = v.index;
                e.2 = v.space.clone();
                e.3 = v.desc.to_string();
                e.4 = v.detail.clone();
            }
        }
        let mut s = String::new();
        for (sym, (n, idx, space, desc, det)) in &m {
            s.push_str(&format!("{n}\t{sym}\n\tfirst: {space} #{idx} {desc}\n\tdetail: {det}\n"));
        }
        let _ = std::fs::write(&path, s);
    }
    c.finish();
}
