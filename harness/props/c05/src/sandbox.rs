//! Process isolation for one case: the entry points run in a forked child so that an abort
//! (refused allocation, stack overflow, SIGSEGV) or a hang is observed by the parent and named
//! after the entry point that was running, instead of killing the engine's worker.
//!
//! Child: stdout -> /dev/null, stderr -> scratch file (the runtime's "memory allocation of N bytes
//! failed" / "has overflowed its stack" messages are read back by the parent), RLIMIT_CORE 0,
//! RLIMIT_AS backstop, alarm(secs).  Results travel through a MAP_SHARED region.
use std::sync::atomic::Ordering;
use std::sync::Mutex;
use vcore::alloc;

pub const BASE_LIMIT: usize = 256 << 20;
/// allocation rule of the plan: no single request and no peak live heap above this
pub fn limit(input_len: usize) -> usize {
    BASE_LIMIT + 4096 * input_len
}

const REGION: usize = 1 << 20;
const CUR_OFF: usize = 8;
const CUR_MAX: usize = 200;
const DATA_OFF: usize = 256;

#[derive(Clone, Debug, PartialEq)]
pub enum Status {
    Ok,
    Err,
    Panic,
}

#[derive(Clone, Debug)]
pub struct EpAgg {
    pub ep: String,
    pub ok: u64,
    pub err: u64,
    pub peak: usize,
    pub largest: usize,
}

/// one panic observed inside a monitored entry point
#[derive(Clone, Debug)]
pub struct PanicRec {
    pub ep: String,
    pub file: String,
    pub line: u32,
    pub msg: String,
    /// innermost /repo function (only filled in by a child that ran in symbolize mode)
    pub func: String,
}

#[derive(Clone, Debug, Default)]
pub struct Report {
    pub panics: Vec<PanicRec>,
    pub eps: Vec<EpAgg>,
    /// (symptom class, detail)
    pub viols: Vec<(String, String)>,
    pub notes: Vec<(String, u64)>,
    pub max_consumed: u64,
}

// ------------------------------------------------------------------ panic capture (process-global)

static FIRST_PANIC: Mutex<Option<(String, u32, String, String)>> = Mutex::new(None);
/// set in a child that re-runs a case to learn the function of a panic site (cold symbolization ~0.4 s)
static SYMBOLIZE: std::sync::atomic::AtomicBool = std::sync::atomic::AtomicBool::new(false);

const REPO_CRATES: [&str; 8] = ["wow_mpq::", "wow_m2::", "wow_adt::", "wow_wmo::", "wow_blp::", "wow_cdbc::", "wow_wdt::", "wow_wdl::"];

fn strip_file(f: &str) -> String {
    let f = f.strip_prefix("/repo/").unwrap_or(f);
    let f = match f.find("/registry/src/") {
        Some(p) => {
            let rest = &f[p + "/registry/src/".len()..];
            rest.split_once('/').map(|x| x.1).unwrap_or(rest)
        }
        None => f,
    };
    // std sources: /rustc/<hash>/library/...
    let f = match f.find("/library/") {
        Some(p) if f.starts_with("/rustc/") => &f[p + 1..],
        _ => f,
    };
    f.to_string()
}

/// innermost frame that belongs to a crate of /repo, as `crate::path::function`
fn repo_frame(bt: &str) -> String {
    for line in bt.lines() {
        let t = line.trim_start();
        let Some((num, name)) = t.split_once(": ") else { continue };
        if num.is_empty() || !num.bytes().all(|b| b.is_ascii_digit()) {
            continue;
        }
        // `<wow_m2::x::T as trait>::f` or `wow_m2::x::f`
        if REPO_CRATES.iter().any(|c| name.starts_with(c) || name.starts_with(&format!("<{c}")) || name.contains(&format!(" as {c}"))) {
            let mut n = name.trim().to_string();
            // closures: keep the enclosing function
            while let Some(s) = n.strip_suffix("::{{closure}}") {
                n = s.to_string();
            }
            return n;
        }
    }
    String::new()
}

pub fn install_hook() {
    std::panic::set_hook(Box::new(|info| {
        let msg = if let Some(s) = info.payload().downcast_ref::<&str>() {
            s.to_string()
        } else if let Some(s) = info.payload().downcast_ref::<String>() {
            s.clone()
        } else {
            "<non-string panic>".to_string()
        };
        let (file, line) = info.location().map(|l| (strip_file(l.file()), l.line())).unwrap_or_default();
        let mut g = match FIRST_PANIC.lock() {
            Ok(g) => g,
            Err(p) => p.into_inner(),
        };
        if g.is_none() {
            let func = if SYMBOLIZE.load(Ordering::Relaxed) {
                let cap = alloc::HARD_CAP.swap(usize::MAX, Ordering::Relaxed);
                let bt = std::backtrace::Backtrace::force_capture().to_string();
                alloc::HARD_CAP.store(cap, Ordering::Relaxed);
                repo_frame(&bt)
            } else {
                String::new()
            };
            *g = Some((file, line, msg, func));
        }
    }));
}

/// resolve one backtrace (benchmark aid: cold ~0.4 s and +130 MiB RSS, which is why the worker
/// itself never symbolizes: a big parent makes every fork slow)
pub fn warm_symbolizer() {
    let bt = std::backtrace::Backtrace::force_capture().to_string();
    std::hint::black_box(bt.len());
}

fn take_panic() -> Option<(String, u32, String, String)> {
    match FIRST_PANIC.lock() {
        Ok(mut g) => g.take(),
        Err(p) => p.into_inner().take(),
    }
}

/// class string of a panic: file, innermost /repo function, message with digits collapsed
pub fn panic_site(file: &str, func: &str, msg: &str) -> String {
    let c = vcore::panic_class(file, msg);
    // vcore gives "panic at <file>: <msg>"; splice the function in
    let rest = c.strip_prefix("panic at ").unwrap_or(&c);
    let (f, m) = rest.split_once(": ").unwrap_or((rest, ""));
    if func.is_empty() {
        format!("panic at {f}: {m}")
    } else {
        format!("panic at {f} in {func}: {m}")
    }
}

// ------------------------------------------------------------------ recorder (runs in the child)

pub struct Recorder {
    region: *mut u8,
    input_len: usize,
    panics: Vec<PanicRec>,
    eps: Vec<EpAgg>,
    viols: Vec<(String, String)>,
    notes: Vec<(String, u64)>,
    pub max_consumed: u64,
}

impl Recorder {
    fn set_current(&mut self, ep: &str) {
        if self.region.is_null() {
            return;
        }
        let b = ep.as_bytes();
        let n = b.len().min(CUR_MAX);
        unsafe {
            std::ptr::copy_nonoverlapping(b.as_ptr(), self.region.add(CUR_OFF), n);
            std::ptr::write_volatile(self.region.add(4) as *mut u32, n as u32);
        }
    }
    fn agg(&mut self, ep: &str) -> &mut EpAgg {
        if let Some(i) = self.eps.iter().position(|e| e.ep == ep) {
            return &mut self.eps[i];
        }
        self.eps.push(EpAgg { ep: ep.to_string(), ok: 0, err: 0, peak: 0, largest: 0 });
        self.eps.last_mut().unwrap()
    }
    pub fn note(&mut self, k: &str, n: u64) {
        for c in self.notes.iter_mut() {
            if c.0 == k {
                c.1 += n;
                return;
            }
        }
        self.notes.push((k.to_string(), n));
    }
    fn viol(&mut self, s: String, d: String) {
        if self.viols.len() < 48 && !self.viols.iter().any(|v| v.0 == s) {
            self.viols.push((s, d));
        }
    }

    /// Run one entry point under all monitors.  `Ok(v)` of the subject is handed back.
    pub fn call<T, E: std::fmt::Display>(&mut self, ep: &str, f: impl FnOnce() -> Result<T, E>) -> Option<T> {
        self.set_current(ep);
        let lim = limit(self.input_len);
        alloc::HARD_CAP.store(lim, Ordering::Relaxed);
        let _ = take_panic();
        let base = alloc::reset();
        let res = std::panic::catch_unwind(std::panic::AssertUnwindSafe(f));
        let (peak, largest) = alloc::read(base);
        let refused = alloc::REFUSED.load(Ordering::Relaxed);
        alloc::HARD_CAP.store(usize::MAX, Ordering::Relaxed);
        let mut out = None;
        match res {
            Ok(Ok(v)) => {
                self.agg(ep).ok += 1;
                out = Some(v);
            }
            Ok(Err(_e)) => {
                self.agg(ep).err += 1;
            }
            Err(_) => {
                let (file, line, msg, func) = take_panic().unwrap_or_default();
                if self.panics.len() < 48 && !self.panics.iter().any(|p| p.ep == ep && p.file == file && p.line == line) {
                    self.panics.push(PanicRec { ep: ep.to_string(), file, line, msg, func });
                }
                self.agg(ep).err += 0;
            }
        }
        {
            let a = self.agg(ep);
            a.peak = a.peak.max(peak);
            a.largest = a.largest.max(largest);
        }
        if refused > 0 {
            // the callee survived a refused request (try_reserve or similar): still a request out of proportion
            self.viol(
                format!("{ep}: single allocation request above 256 MiB + 4096 x input_len (refused; callee handled the failure)"),
                format!("request of {refused} bytes, limit {lim}, input {} bytes", self.input_len),
            );
        } else if largest > lim {
            self.viol(
                format!("{ep}: single allocation request above 256 MiB + 4096 x input_len"),
                format!("request of {largest} bytes, limit {lim}, input {} bytes", self.input_len),
            );
        }
        if peak > lim {
            self.viol(
                format!("{ep}: peak live heap above 256 MiB + 4096 x input_len"),
                format!("peak {peak} bytes above baseline, limit {lim}, input {} bytes", self.input_len),
            );
        }
        if !self.panics.is_empty() || !self.viols.is_empty() {
            // a later abort must not lose what was already observed
            self.flush();
        }
        out
    }

    /// a call that has no error channel (returns a plain value)
    pub fn call_plain<T>(&mut self, ep: &str, f: impl FnOnce() -> T) -> Option<T> {
        self.call::<T, String>(ep, || Ok(f()))
    }

    fn flush(&self) {
        if self.region.is_null() {
            return;
        }
        let mut s = String::new();
        for e in &self.eps {
            s.push_str(&format!("E\x1f{}\x1f{}\x1f{}\x1f{}\x1f{}\n", e.ep, e.ok, e.err, e.peak, e.largest));
        }
        for (k, n) in &self.notes {
            s.push_str(&format!("N\x1f{}\x1f{}\n", k, n));
        }
        s.push_str(&format!("C\x1f{}\n", self.max_consumed));
        for (a, b) in &self.viols {
            s.push_str(&format!("V\x1f{}\x1f{}\n", a.replace('\n', " "), b.replace('\n', " ")));
        }
        for p in &self.panics {
            let m: String = p.msg.replace(['\n', '\x1f'], " ").chars().take(300).collect();
            s.push_str(&format!("P\x1f{}\x1f{}\x1f{}\x1f{}\x1f{}\n", p.ep, p.file, p.line, m, p.func));
        }
        let b = s.as_bytes();
        let n = b.len().min(REGION - DATA_OFF);
        unsafe {
            std::ptr::copy_nonoverlapping(b.as_ptr(), self.region.add(DATA_OFF), n);
            std::ptr::write_volatile(self.region as *mut u32, n as u32);
        }
    }
    fn into_report(self) -> Report {
        Report { panics: self.panics, eps: self.eps, viols: self.viols, notes: self.notes, max_consumed: self.max_consumed }
    }
}

// ------------------------------------------------------------------ the sandbox (parent side)

pub struct Sandbox {
    region: *mut u8,
    stderr_fd: i32,
    pub secs: u32,
    pub nofork: bool,
}
unsafe impl Sync for Sandbox {}
unsafe impl Send for Sandbox {}

impl Sandbox {
    pub fn new(stderr_path: &std::path::Path, secs: u32) -> Sandbox {
        let region = unsafe {
            libc::mmap(std::ptr::null_mut(), REGION, libc::PROT_READ | libc::PROT_WRITE, libc::MAP_SHARED | libc::MAP_ANONYMOUS, -1, 0)
        };
        assert!(region != libc::MAP_FAILED, "mmap shared region");
        let c = std::ffi::CString::new(stderr_path.to_str().unwrap()).unwrap();
        let fd = unsafe { libc::open(c.as_ptr(), libc::O_RDWR | libc::O_CREAT | libc::O_TRUNC, 0o600) };
        assert!(fd >= 0, "open stderr capture file");
        install_hook();
        // parent and child on one CPU: the child then runs as soon as the parent blocks in waitpid
        // (cross-CPU wake-ups cost milliseconds in this VM); worker k of n is pinned to CPU k mod ncpu
        if std::env::var("C05_NOPIN").is_err() {
            let a: Vec<String> = std::env::args().collect();
            if let Some(p) = a.iter().position(|x| x == "--worker") {
                if let Some(k) = a.get(p + 1).and_then(|x| x.parse::<usize>().ok()) {
                    unsafe {
                        let ncpu = libc::sysconf(libc::_SC_NPROCESSORS_ONLN).max(1) as usize;
                        let mut set: libc::cpu_set_t = std::mem::zeroed();
                        libc::CPU_SET(k % ncpu, &mut set);
                        libc::sched_setaffinity(0, std::mem::size_of::<libc::cpu_set_t>(), &set);
                    }
                }
            }
        }
        Sandbox { region: region as *mut u8, stderr_fd: fd, secs, nofork: std::env::var("C05_NOFORK").is_ok() }
    }

    fn parse_region(&self) -> Report {
        let mut rep = Report::default();
        let n = unsafe { std::ptr::read_volatile(self.region as *const u32) } as usize;
        let n = n.min(REGION - DATA_OFF);
        let bytes = unsafe { std::slice::from_raw_parts(self.region.add(DATA_OFF), n) };
        let s = String::from_utf8_lossy(bytes);
        for line in s.lines() {
            let p: Vec<&str> = line.split('\x1f').collect();
            match p[0] {
                "E" if p.len() >= 6 => rep.eps.push(EpAgg {
                    ep: p[1].to_string(),
                    ok: p[2].parse().unwrap_or(0),
                    err: p[3].parse().unwrap_or(0),
                    peak: p[4].parse().unwrap_or(0),
                    largest: p[5].parse().unwrap_or(0),
                }),
                "N" if p.len() >= 3 => rep.notes.push((p[1].to_string(), p[2].parse().unwrap_or(0))),
                "C" if p.len() >= 2 => rep.max_consumed = p[1].parse().unwrap_or(0),
                "V" if p.len() >= 3 => rep.viols.push((p[1].to_string(), p[2].to_string())),
                "P" if p.len() >= 6 => rep.panics.push(PanicRec { ep: p[1].to_string(), file: p[2].to_string(), line: p[3].parse().unwrap_or(0), msg: p[4].to_string(), func: p[5].to_string() }),
                _ => {}
            }
        }
        rep
    }

    fn current_ep(&self) -> String {
        let n = (unsafe { std::ptr::read_volatile(self.region.add(4) as *const u32) } as usize).min(CUR_MAX);
        let b = unsafe { std::slice::from_raw_parts(self.region.add(CUR_OFF), n) };
        String::from_utf8_lossy(b).to_string()
    }

    fn read_stderr(&self) -> String {
        let mut buf = vec![0u8; 2048];
        let n = unsafe { libc::pread(self.stderr_fd, buf.as_mut_ptr() as *mut libc::c_void, buf.len(), 0) };
        if n <= 0 {
            return String::new();
        }
        buf.truncate(n as usize);
        String::from_utf8_lossy(&buf).to_string()
    }

    /// Run `body` (the entry points of one case) in a forked child and collect what happened.
    pub fn run(&self, input_len: usize, sym: bool, body: &dyn Fn(&mut Recorder)) -> Report {
        if self.nofork {
            SYMBOLIZE.store(sym, Ordering::Relaxed);
            let mut rec = Recorder { region: std::ptr::null_mut(), input_len, panics: vec![], eps: vec![], viols: vec![], notes: vec![], max_consumed: 0 };
            body(&mut rec);
            return rec.into_report();
        }
        unsafe {
            std::ptr::write_volatile(self.region as *mut u32, 0);
            std::ptr::write_volatile(self.region.add(4) as *mut u32, 0);
            libc::ftruncate(self.stderr_fd, 0);
            libc::lseek(self.stderr_fd, 0, libc::SEEK_SET);
        }
        let lim = limit(input_len);
        let pid = unsafe { libc::fork() };
        assert!(pid >= 0, "fork failed");
        if pid == 0 {
            // ---- child
            unsafe {
                let devnull = libc::open(b"/dev/null\0".as_ptr() as *const libc::c_char, libc::O_WRONLY);
                if devnull >= 0 {
                    libc::dup2(devnull, 1);
                }
                libc::dup2(self.stderr_fd, 2);
                let core = libc::rlimit { rlim_cur: 0, rlim_max: 0 };
                libc::setrlimit(libc::RLIMIT_CORE, &core);
                let as_lim = (lim as u64).saturating_add(6u64 << 30);
                let asl = libc::rlimit { rlim_cur: as_lim, rlim_max: as_lim };
                libc::setrlimit(libc::RLIMIT_AS, &asl);
                libc::alarm(self.secs);
            }
            SYMBOLIZE.store(sym, Ordering::Relaxed);
            let mut rec = Recorder { region: self.region, input_len, panics: vec![], eps: vec![], viols: vec![], notes: vec![], max_consumed: 0 };
            let r = std::panic::catch_unwind(std::panic::AssertUnwindSafe(|| body(&mut rec)));
            if r.is_err() {
                let (file, line, msg, _) = take_panic().unwrap_or_default();
                rec.viol("harness: panic outside a monitored entry point".into(), format!("{file}:{line}: {msg}"));
            }
            rec.set_current("");
            rec.flush();
            unsafe { libc::_exit(0) };
        }
        // ---- parent
        let mut status: i32 = 0;
        loop {
            let r = unsafe { libc::waitpid(pid, &mut status, 0) };
            if r == pid {
                break;
            }
            if r < 0 && std::io::Error::last_os_error().kind() != std::io::ErrorKind::Interrupted {
                break;
            }
        }
        let mut rep = self.parse_region();
        let exited_ok = libc::WIFEXITED(status) && libc::WEXITSTATUS(status) == 0;
        if !exited_ok {
            let ep = self.current_ep();
            let ep = if ep.is_empty() { "<between entry points>".to_string() } else { ep };
            let err = self.read_stderr();
            let first = err.lines().find(|l| !l.trim().is_empty()).unwrap_or("").to_string();
            let sig = if libc::WIFSIGNALED(status) { libc::WTERMSIG(status) } else { 0 };
            let (class, detail) = if sig == libc::SIGALRM {
                (format!("{ep}: hang: no return within the per-case time limit"), format!("child killed by SIGALRM after {} s", self.secs))
            } else if err.contains("memory allocation of") {
                // "memory allocation of N bytes failed"
                let n: usize = err.split("memory allocation of ").nth(1).and_then(|s| s.split(' ').next()).and_then(|s| s.parse().ok()).unwrap_or(0);
                if n > lim {
                    (
                        format!("{ep}: abort: single allocation request above 256 MiB + 4096 x input_len (refused, process aborted)"),
                        format!("request of {n} bytes, limit {lim}, input {input_len} bytes; signal {sig}"),
                    )
                } else {
                    (
                        format!("{ep}: abort: allocation failed below the single-request limit (live heap exhausted the address-space backstop)"),
                        format!("request of {n} bytes, limit {lim}, input {input_len} bytes; signal {sig}"),
                    )
                }
            } else if err.contains("overflowed its stack") || err.contains("stack overflow") {
                (format!("{ep}: abort: stack overflow"), format!("signal {sig}: {first}"))
            } else if libc::WIFSIGNALED(status) {
                (format!("{ep}: abort: killed by signal {}", sig_name(sig)), format!("signal {sig}: {first}"))
            } else {
                (format!("{ep}: abort: process exited with a failure status"), format!("status {}: {first}", libc::WEXITSTATUS(status)))
            };
            rep.viols.push((class, detail));
        }
        rep
    }
}

fn sig_name(s: i32) -> String {
    match s {
        libc::SIGSEGV => "SIGSEGV".into(),
        libc::SIGABRT => "SIGABRT".into(),
        libc::SIGBUS => "SIGBUS".into(),
        libc::SIGILL => "SIGILL".into(),
        libc::SIGFPE => "SIGFPE".into(),
        libc::SIGKILL => "SIGKILL".into(),
        n => format!("signal-{n}"),
    }
}

impl Drop for Sandbox {
    fn drop(&mut self) {
        unsafe {
            libc::munmap(self.region as *mut libc::c_void, REGION);
            libc::close(self.stderr_fd);
        }
    }
}
