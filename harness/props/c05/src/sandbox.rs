//! Process isolation for one case: the entry points run in a forked child so that an abort
//! (refused allocation, stack overflow, SIGSEGV) or a hang is observed by the parent and named
//! after the entry point that was running, instead of killing the engine's worker.
//!
//! Child: stdout -> /dev/null, stderr -> scratch file (the runtime's "memory allocation of N bytes
//! failed" / "has overflowed its stack" messages are read back by the parent), RLIMIT_CORE 0,
//! RLIMIT_AS backstop, alarm(secs).  Results travel through a MAP_SHARED region.
use std::sync::atomic::Ordering;
use std::sync::Mutex;
use vcore::alloc;

pub const BASE_LIMIT: usize = 256 << 20;
/// allocation rule of the plan: no single request and no peak live heap above this
pub fn limit(input_len: usize) -> usize {
    BASE_LIMIT + 4096 * input_len
}

const REGION: usize = 1 << 20;
const CUR_OFF: usize = 8;
const CUR_MAX: usize = 200;
const CALL_NO_OFF: usize = 216; // u32: ordinal of the monitored call in progress
const AB_N_OFF: usize = 256; // u32: number of frames recorded by the SIGABRT handler
const AB_CHAIN_OFF: usize = 264; // up to AB_MAX u64: return addresses inside the executable, relative to its text start
const AB_MAX: usize = 24;
const AB_FUNC_N_OFF: usize = 480; // u32: length of the function name (symbolize mode only)
const AB_FUNC_OFF: usize = 484;
const AB_FUNC_MAX: usize = 400;
const DATA_OFF: usize = 1024;

#[derive(Clone, Debug, PartialEq)]
pub enum Status {
    Ok,
    Err,
    Panic,
}

#[derive(Clone, Debug)]
pub struct EpAgg {
    pub ep: String,
    /// the call's result is not used by later calls: not repeated when the case is re-run after a death
    pub leaf: bool,
    pub ok: u64,
    pub err: u64,
    pub peak: usize,
    pub largest: usize,
}

/// one panic observed inside a monitored entry point
#[derive(Clone, Debug)]
pub struct PanicRec {
    pub ep: String,
    /// return-address chain (key for panics raised outside /repo sources)
    pub chain: String,
    pub file: String,
    pub line: u32,
    pub msg: String,
    /// innermost /repo function (only filled in by a child that ran in symbolize mode)
    pub func: String,
}

/// the child died: which entry point was running, how, and where (address chain / function)
#[derive(Clone, Debug, Default)]
pub struct Death {
    pub ep: String,
    /// ordinal of the monitored call that was running
    pub call_no: u32,
    /// stable class without the site, e.g. "abort: single allocation request above ..."
    pub class: String,
    pub detail: String,
    /// key of the dying call chain (relative return addresses inside the executable); empty if unknown
    pub chain: String,
    /// innermost /repo function (symbolize mode only)
    pub func: String,
}

#[derive(Clone, Debug, Default)]
pub struct Report {
    pub death: Option<Death>,
    pub panics: Vec<PanicRec>,
    pub eps: Vec<EpAgg>,
    /// (symptom class, detail)
    pub viols: Vec<(String, String)>,
    pub notes: Vec<(String, u64)>,
    pub max_consumed: u64,
}

// ------------------------------------------------------------------ panic capture (process-global)

/// (file, line, message, innermost /repo function [symbolize mode], return-address chain)
static FIRST_PANIC: Mutex<Option<(String, u32, String, String, String)>> = Mutex::new(None);
/// set in a child that re-runs a case to learn the function of a panic site (cold symbolization ~0.4 s)
static SYMBOLIZE: std::sync::atomic::AtomicBool = std::sync::atomic::AtomicBool::new(false);

const REPO_CRATES: [&str; 8] = ["wow_mpq::", "wow_m2::", "wow_adt::", "wow_wmo::", "wow_blp::", "wow_cdbc::", "wow_wdt::", "wow_wdl::"];

fn strip_file(f: &str) -> String {
    let f = f.strip_prefix("/repo/").unwrap_or(f);
    let f = match f.find("/registry/src/") {
        Some(p) => {
            let rest = &f[p + "/registry/src/".len()..];
            rest.split_once('/').map(|x| x.1).unwrap_or(rest)
        }
        None => f,
    };
    // std sources: /rustc/<hash>/library/...
    let f = match f.find("/library/") {
        Some(p) if f.starts_with("/rustc/") => &f[p + 1..],
        _ => f,
    };
    f.to_string()
}

/// innermost frame that belongs to a crate of /repo, as `crate::path::function`
fn repo_frame(bt: &str) -> String {
    for line in bt.lines() {
        let t = line.trim_start();
        let Some((num, name)) = t.split_once(": ") else { continue };
        if num.is_empty() || !num.bytes().all(|b| b.is_ascii_digit()) {
            continue;
        }
        // `<wow_m2::x::T as trait>::f` or `wow_m2::x::f`
        if REPO_CRATES.iter().any(|c| name.starts_with(c) || name.starts_with(&format!("<{c}")) || name.contains(&format!(" as {c}"))) {
            let mut n = name.trim().to_string();
            // closures: keep the enclosing function
            while let Some(s) = n.strip_suffix("::{{closure}}") {
                n = s.to_string();
            }
            return n;
        }
    }
    String::new()
}

pub fn install_hook() {
    std::panic::set_hook(Box::new(|info| {
        let msg = if let Some(s) = info.payload().downcast_ref::<&str>() {
            s.to_string()
        } else if let Some(s) = info.payload().downcast_ref::<String>() {
            s.clone()
        } else {
            "<non-string panic>".to_string()
        };
        let (file, line) = info.location().map(|l| (strip_file(l.file()), l.line())).unwrap_or_default();
        let mut g = match FIRST_PANIC.lock() {
            Ok(g) => g,
            Err(p) => p.into_inner(),
        };
        if g.is_none() {
            let func = if SYMBOLIZE.load(Ordering::Relaxed) {
                let cap = alloc::HARD_CAP.swap(usize::MAX, Ordering::Relaxed);
                let bt = std::backtrace::Backtrace::force_capture().to_string();
                alloc::HARD_CAP.store(cap, Ordering::Relaxed);
                repo_frame(&bt)
            } else {
                String::new()
            };
            *g = Some((file, line, msg, func, exe_chain()));
        }
    }));
}

/// resolve one backtrace (benchmark aid: cold ~0.4 s and +130 MiB RSS, which is why the worker
/// itself never symbolizes: a big parent makes every fork slow)
pub fn warm_symbolizer() {
    let bt = std::backtrace::Backtrace::force_capture().to_string();
    std::hint::black_box(bt.len());
}

fn take_panic() -> Option<(String, u32, String, String, String)> {
    match FIRST_PANIC.lock() {
        Ok(mut g) => g.take(),
        Err(p) => p.into_inner().take(),
    }
}

/// class string of a panic: file, innermost /repo function, message with digits collapsed
pub fn panic_site(file: &str, func: &str, msg: &str) -> String {
    let c = vcore::panic_class(file, msg);
    // vcore gives "panic at <file>: <msg>"; splice the function in
    let rest = c.strip_prefix("panic at ").unwrap_or(&c);
    let (f, m) = rest.split_once(": ").unwrap_or((rest, ""));
    if func.is_empty() {
        format!("panic at {f}: {m}")
    } else {
        format!("panic at {f} in {func}: {m}")
    }
}

// ------------------------------------------------------------------ abort site capture (child)

static REGION_PTR: std::sync::atomic::AtomicPtr<u8> = std::sync::atomic::AtomicPtr::new(std::ptr::null_mut());
static EXE_START: std::sync::atomic::AtomicUsize = std::sync::atomic::AtomicUsize::new(0);
static EXE_END: std::sync::atomic::AtomicUsize = std::sync::atomic::AtomicUsize::new(0);

/// executable text range of this process image (identical layout in every fork of it; relative
/// addresses are a pure function of the binary)
fn find_exe_range() {
    let exe = std::env::current_exe().ok().map(|p| p.to_string_lossy().to_string()).unwrap_or_default();
    let Ok(maps) = std::fs::read_to_string("/proc/self/maps") else { return };
    let (mut lo, mut hi) = (usize::MAX, 0usize);
    for l in maps.lines() {
        if !l.ends_with(&exe) {
            continue;
        }
        let mut it = l.split_whitespace();
        let (Some(range), Some(_perm)) = (it.next(), it.next()) else { continue };
        let Some((a, b)) = range.split_once('-') else { continue };
        let (Ok(a), Ok(b)) = (usize::from_str_radix(a, 16), usize::from_str_radix(b, 16)) else { continue };
        lo = lo.min(a);
        hi = hi.max(b);
    }
    if lo < hi {
        EXE_START.store(lo, Ordering::Relaxed);
        EXE_END.store(hi, Ordering::Relaxed);
    }
}

fn exe_frames() -> Vec<usize> {
    let mut buf = [std::ptr::null_mut::<libc::c_void>(); 96];
    let n = unsafe { libc::backtrace(buf.as_mut_ptr(), 96) }.max(0) as usize;
    let (lo, hi) = (EXE_START.load(Ordering::Relaxed), EXE_END.load(Ordering::Relaxed));
    buf.iter().take(n).map(|p| *p as usize).filter(|a| *a >= lo && *a < hi).map(|a| a - lo).collect()
}

/// frames of the harness below the case body (recorded by `mark_base` at the start of the body)
static BASE_FRAMES: Mutex<Vec<usize>> = Mutex::new(Vec::new());

/// Called first thing by the function that runs the entry points of a case.  Everything the
/// call stack has in common with this moment (the harness frames that called the body, which
/// differ between the worker and the symbolizer server) is cut off the chains taken later.
#[inline(never)]
pub fn mark_base() {
    let f = exe_frames();
    if let Ok(mut g) = BASE_FRAMES.lock() {
        *g = f;
    }
}

/// return addresses of the current call stack inside the executable (relative to its start), innermost
/// first, without the harness frames below the case body: a pure function of the binary and the call path
fn exe_chain() -> String {
    let mut f = exe_frames();
    if let Ok(g) = BASE_FRAMES.try_lock() {
        let mut common = 0;
        while common < f.len() && common < g.len() && f[f.len() - 1 - common] == g[g.len() - 1 - common] {
            common += 1;
        }
        f.truncate(f.len() - common);
    }
    let v: Vec<String> = f.iter().take(AB_MAX).map(|a| format!("{a:x}")).collect();
    v.join(",")
}

/// SIGABRT (refused allocation -> handle_alloc_error -> abort; stack overflow; double panic):
/// leave the return-address chain in the shared region, in symbolize mode also the innermost
/// /repo function, then die by the default action.  Runs in a process that is about to die.
extern "C" fn on_abort(_sig: libc::c_int) {
    unsafe {
        libc::signal(libc::SIGABRT, libc::SIG_DFL);
        let region = REGION_PTR.load(Ordering::Relaxed);
        if !region.is_null() {
            let chain = exe_chain();
            let mut k = 0usize;
            for h in chain.split(',').filter(|x| !x.is_empty()) {
                if k < AB_MAX {
                    std::ptr::write_volatile((region.add(AB_CHAIN_OFF) as *mut u64).add(k), u64::from_str_radix(h, 16).unwrap_or(0));
                    k += 1;
                }
            }
            std::ptr::write_volatile(region.add(AB_N_OFF) as *mut u32, k as u32);
            if SYMBOLIZE.load(Ordering::Relaxed) {
                alloc::HARD_CAP.store(usize::MAX, Ordering::Relaxed);
                let bt = std::backtrace::Backtrace::force_capture().to_string();
                let f = repo_frame(&bt);
                let b = f.as_bytes();
                let m = b.len().min(AB_FUNC_MAX);
                std::ptr::copy_nonoverlapping(b.as_ptr(), region.add(AB_FUNC_OFF), m);
                std::ptr::write_volatile(region.add(AB_FUNC_N_OFF) as *mut u32, m as u32);
            }
        }
        libc::raise(libc::SIGABRT);
    }
}

// ------------------------------------------------------------------ recorder (runs in the child)

pub struct Recorder {
    region: *mut u8,
    input_len: usize,
    /// ordinals of monitored calls that killed an earlier child of this case: not repeated
    skip: Vec<u32>,
    /// leaf calls with a lower ordinal completed in an earlier child of this case
    resume_after: u32,
    call_no: u32,
    panics: Vec<PanicRec>,
    eps: Vec<EpAgg>,
    viols: Vec<(String, String)>,
    notes: Vec<(String, u64)>,
    pub max_consumed: u64,
}

impl Recorder {
    fn set_current(&mut self, ep: &str) {
        if self.region.is_null() {
            return;
        }
        let b = ep.as_bytes();
        let n = b.len().min(CUR_MAX);
        unsafe {
            std::ptr::copy_nonoverlapping(b.as_ptr(), self.region.add(CUR_OFF), n);
            std::ptr::write_volatile(self.region.add(4) as *mut u32, n as u32);
        }
    }
    fn agg(&mut self, ep: &str) -> &mut EpAgg {
        if let Some(i) = self.eps.iter().position(|e| e.ep == ep) {
            return &mut self.eps[i];
        }
        self.eps.push(EpAgg { ep: ep.to_string(), leaf: false, ok: 0, err: 0, peak: 0, largest: 0 });
        self.eps.last_mut().unwrap()
    }
    pub fn note(&mut self, k: &str, n: u64) {
        for c in self.notes.iter_mut() {
            if c.0 == k {
                c.1 += n;
                return;
            }
        }
        self.notes.push((k.to_string(), n));
    }
    fn viol(&mut self, s: String, d: String) {
        if self.viols.len() < 48 && !self.viols.iter().any(|v| v.0 == s) {
            self.viols.push((s, d));
        }
    }

    /// Run one entry point under all monitors.  `Ok(v)` of the subject is handed back.
    /// a call whose result no later call depends on
    pub fn leaf<T, E: std::fmt::Display>(&mut self, ep: &str, f: impl FnOnce() -> Result<T, E>) -> Option<T> {
        if self.call_no < self.resume_after {
            self.call_no += 1;
            return None;
        }
        if self.skip.contains(&self.call_no) {
            self.call_no += 1;
            return None;
        }
        let r = self.call(ep, f);
        self.agg(ep).leaf = true;
        r
    }
    pub fn leaf_plain<T>(&mut self, ep: &str, f: impl FnOnce() -> T) -> Option<T> {
        self.leaf::<T, String>(ep, || Ok(f()))
    }

    pub fn call<T, E: std::fmt::Display>(&mut self, ep: &str, f: impl FnOnce() -> Result<T, E>) -> Option<T> {
        let no = self.call_no;
        self.call_no += 1;
        if self.skip.contains(&no) {
            return None;
        }
        self.set_current(ep);
        if !self.region.is_null() {
            unsafe { std::ptr::write_volatile(self.region.add(CALL_NO_OFF) as *mut u32, no) };
        }
        let lim = limit(self.input_len);
        alloc::HARD_CAP.store(lim, Ordering::Relaxed);
        let _ = take_panic();
        let base = alloc::reset();
        let res = std::panic::catch_unwind(std::panic::AssertUnwindSafe(f));
        let (peak, largest) = alloc::read(base);
        let refused = alloc::REFUSED.load(Ordering::Relaxed);
        alloc::HARD_CAP.store(usize::MAX, Ordering::Relaxed);
        let mut out = None;
        match res {
            Ok(Ok(v)) => {
                self.agg(ep).ok += 1;
                out = Some(v);
            }
            Ok(Err(_e)) => {
                self.agg(ep).err += 1;
            }
            Err(_) => {
                let (file, line, msg, func, chain) = take_panic().unwrap_or_default();
                if self.panics.len() < 48 && !self.panics.iter().any(|p| p.ep == ep && p.file == file && p.line == line && p.chain == chain) {
                    self.panics.push(PanicRec { ep: ep.to_string(), chain, file, line, msg, func });
                }
                self.agg(ep).err += 0;
            }
        }
        {
            let a = self.agg(ep);
            a.peak = a.peak.max(peak);
            a.largest = a.largest.max(largest);
        }
        if refused > 0 {
            // the callee survived a refused request (try_reserve or similar): still a request out of proportion
            self.viol(
                format!("{ep}: single allocation request above 256 MiB + 4096 x input_len (refused; callee handled the failure)"),
                format!("request of {refused} bytes, limit {lim}, input {} bytes", self.input_len),
            );
        } else if largest > lim {
            self.viol(
                format!("{ep}: single allocation request above 256 MiB + 4096 x input_len"),
                format!("request of {largest} bytes, limit {lim}, input {} bytes", self.input_len),
            );
        }
        if peak > lim {
            self.viol(
                format!("{ep}: peak live heap above 256 MiB + 4096 x input_len"),
                format!("peak {peak} bytes above baseline, limit {lim}, input {} bytes", self.input_len),
            );
        }
        // a later abort must not lose what was already observed
        self.flush();
        out
    }

    /// a call that has no error channel (returns a plain value)
    pub fn call_plain<T>(&mut self, ep: &str, f: impl FnOnce() -> T) -> Option<T> {
        self.call::<T, String>(ep, || Ok(f()))
    }

    fn flush(&self) {
        if self.region.is_null() {
            return;
        }
        let mut s = String::new();
        for e in &self.eps {
            s.push_str(&format!("E\x1f{}\x1f{}\x1f{}\x1f{}\x1f{}\x1f{}\n", e.ep, e.ok, e.err, e.peak, e.largest, e.leaf as u8));
        }
        for (k, n) in &self.notes {
            s.push_str(&format!("N\x1f{}\x1f{}\n", k, n));
        }
        s.push_str(&format!("C\x1f{}\n", self.max_consumed));
        for (a, b) in &self.viols {
            s.push_str(&format!("V\x1f{}\x1f{}\n", a.replace('\n', " "), b.replace('\n', " ")));
        }
        for p in &self.panics {
            let m: String = p.msg.replace(['\n', '\x1f'], " ").chars().take(300).collect();
            s.push_str(&format!("P\x1f{}\x1f{}\x1f{}\x1f{}\x1f{}\x1f{}\n", p.ep, p.file, p.line, m, p.func, p.chain));
        }
        let b = s.as_bytes();
        let n = b.len().min(REGION - DATA_OFF);
        unsafe {
            std::ptr::copy_nonoverlapping(b.as_ptr(), self.region.add(DATA_OFF), n);
            std::ptr::write_volatile(self.region as *mut u32, n as u32);
        }
    }
    fn into_report(self) -> Report {
        Report { death: None, panics: self.panics, eps: self.eps, viols: self.viols, notes: self.notes, max_consumed: self.max_consumed }
    }
}

// ------------------------------------------------------------------ the sandbox (parent side)

pub struct Sandbox {
    region: *mut u8,
    stderr_fd: i32,
    pub secs: u32,
    pub nofork: bool,
    pin: bool,
}
unsafe impl Sync for Sandbox {}
unsafe impl Send for Sandbox {}

impl Sandbox {
    pub fn new(stderr_path: &std::path::Path, secs: u32) -> Sandbox {
        let region = unsafe {
            libc::mmap(std::ptr::null_mut(), REGION, libc::PROT_READ | libc::PROT_WRITE, libc::MAP_SHARED | libc::MAP_ANONYMOUS, -1, 0)
        };
        assert!(region != libc::MAP_FAILED, "mmap shared region");
        let c = std::ffi::CString::new(stderr_path.to_str().unwrap()).unwrap();
        let fd = unsafe { libc::open(c.as_ptr(), libc::O_RDWR | libc::O_CREAT | libc::O_TRUNC, 0o600) };
        assert!(fd >= 0, "open stderr capture file");
        install_hook();
        find_exe_range();
        Sandbox { region: region as *mut u8, stderr_fd: fd, secs, nofork: std::env::var("C05_NOFORK").is_ok(), pin: std::env::var("C05_NOPIN").is_err() }
    }

    fn parse_region(&self) -> Report {
        let mut rep = Report::default();
        let n = unsafe { std::ptr::read_volatile(self.region as *const u32) } as usize;
        let n = n.min(REGION - DATA_OFF);
        let bytes = unsafe { std::slice::from_raw_parts(self.region.add(DATA_OFF), n) };
        let s = String::from_utf8_lossy(bytes);
        for line in s.lines() {
            let p: Vec<&str> = line.split('\x1f').collect();
            match p[0] {
                "E" if p.len() >= 6 => rep.eps.push(EpAgg {
                    ep: p[1].to_string(),
                    ok: p[2].parse().unwrap_or(0),
                    err: p[3].parse().unwrap_or(0),
                    peak: p[4].parse().unwrap_or(0),
                    largest: p[5].parse().unwrap_or(0),
                    leaf: p.get(6).map(|x| *x == "1").unwrap_or(false),
                }),
                "N" if p.len() >= 3 => rep.notes.push((p[1].to_string(), p[2].parse().unwrap_or(0))),
                "C" if p.len() >= 2 => rep.max_consumed = p[1].parse().unwrap_or(0),
                "V" if p.len() >= 3 => rep.viols.push((p[1].to_string(), p[2].to_string())),
                "P" if p.len() >= 7 => rep.panics.push(PanicRec { ep: p[1].to_string(), file: p[2].to_string(), line: p[3].parse().unwrap_or(0), msg: p[4].to_string(), func: p[5].to_string(), chain: p[6].to_string() }),
                _ => {}
            }
        }
        rep
    }

    fn current_ep(&self) -> String {
        let n = (unsafe { std::ptr::read_volatile(self.region.add(4) as *const u32) } as usize).min(CUR_MAX);
        let b = unsafe { std::slice::from_raw_parts(self.region.add(CUR_OFF), n) };
        String::from_utf8_lossy(b).to_string()
    }

    fn read_stderr(&self) -> String {
        let mut buf = vec![0u8; 2048];
        let n = unsafe { libc::pread(self.stderr_fd, buf.as_mut_ptr() as *mut libc::c_void, buf.len(), 0) };
        if n <= 0 {
            return String::new();
        }
        buf.truncate(n as usize);
        String::from_utf8_lossy(&buf).to_string()
    }

    /// Run `body` (the entry points of one case) in a forked child and collect what happened.
    /// `skip`: ordinals of calls that killed earlier children; `resume`: leaf calls below the
    /// highest of them are not repeated (false in symbolize mode, which replays a prefix exactly)
    pub fn run(&self, input_len: usize, sym: bool, skip: &[u32], resume: bool, body: &dyn Fn(&mut Recorder)) -> Report {
        let resume_after = if resume { skip.iter().copied().max().map(|m| m + 1).unwrap_or(0) } else { 0 };
        if self.nofork {
            SYMBOLIZE.store(sym, Ordering::Relaxed);
            let mut rec = Recorder { region: std::ptr::null_mut(), input_len, skip: skip.to_vec(), resume_after, call_no: 0, panics: vec![], eps: vec![], viols: vec![], notes: vec![], max_consumed: 0 };
            body(&mut rec);
            return rec.into_report();
        }
        unsafe {
            std::ptr::write_volatile(self.region as *mut u32, 0);
            std::ptr::write_volatile(self.region.add(4) as *mut u32, 0);
            std::ptr::write_volatile(self.region.add(AB_N_OFF) as *mut u32, 0);
            std::ptr::write_volatile(self.region.add(AB_FUNC_N_OFF) as *mut u32, 0);
            libc::ftruncate(self.stderr_fd, 0);
            libc::lseek(self.stderr_fd, 0, libc::SEEK_SET);
        }
        let lim = limit(input_len);
        // The child is bound to the CPU the parent is on right now: it then runs as soon as the parent
        // blocks in waitpid (cross-CPU wake-ups cost milliseconds in this VM).  The parent itself stays
        // free to be moved by the scheduler when its CPU is busy with other work.
        let cpu = if self.pin { unsafe { libc::sched_getcpu() } } else { -1 };
        let pid = unsafe { libc::fork() };
        assert!(pid >= 0, "fork failed");
        if pid == 0 {
            // ---- child
            unsafe {
                if cpu >= 0 {
                    let mut set: libc::cpu_set_t = std::mem::zeroed();
                    libc::CPU_SET(cpu as usize, &mut set);
                    libc::sched_setaffinity(0, std::mem::size_of::<libc::cpu_set_t>(), &set);
                }
                let devnull = libc::open(b"/dev/null\0".as_ptr() as *const libc::c_char, libc::O_WRONLY);
                if devnull >= 0 {
                    libc::dup2(devnull, 1);
                }
                libc::dup2(self.stderr_fd, 2);
                let core = libc::rlimit { rlim_cur: 0, rlim_max: 0 };
                libc::setrlimit(libc::RLIMIT_CORE, &core);
                let as_lim = (lim as u64).saturating_add(6u64 << 30);
                let asl = libc::rlimit { rlim_cur: as_lim, rlim_max: as_lim };
                libc::setrlimit(libc::RLIMIT_AS, &asl);
                libc::alarm(self.secs);
                REGION_PTR.store(self.region, Ordering::Relaxed);
                libc::signal(libc::SIGABRT, on_abort as usize);
            }
            SYMBOLIZE.store(sym, Ordering::Relaxed);
            let mut rec = Recorder { region: self.region, input_len, skip: skip.to_vec(), resume_after, call_no: 0, panics: vec![], eps: vec![], viols: vec![], notes: vec![], max_consumed: 0 };
            let r = std::panic::catch_unwind(std::panic::AssertUnwindSafe(|| body(&mut rec)));
            if r.is_err() {
                let (file, line, msg, _, _) = take_panic().unwrap_or_default();
                rec.viol("harness: panic outside a monitored entry point".into(), format!("{file}:{line}: {msg}"));
            }
            rec.set_current("");
            rec.flush();
            unsafe { libc::_exit(0) };
        }
        // ---- parent
        let mut status: i32 = 0;
        loop {
            let r = unsafe { libc::waitpid(pid, &mut status, 0) };
            if r == pid {
                break;
            }
            if r < 0 && std::io::Error::last_os_error().kind() != std::io::ErrorKind::Interrupted {
                break;
            }
        }
        let mut rep = self.parse_region();
        let exited_ok = libc::WIFEXITED(status) && libc::WEXITSTATUS(status) == 0;
        if !exited_ok {
            let ep = self.current_ep();
            let ep = if ep.is_empty() { "<between entry points>".to_string() } else { ep };
            let err = self.read_stderr();
            let first = err.lines().find(|l| !l.trim().is_empty()).unwrap_or("").to_string();
            let sig = if libc::WIFSIGNALED(status) { libc::WTERMSIG(status) } else { 0 };
            let (class, detail) = if sig == libc::SIGALRM {
                ("hang: no return within the per-case time limit".to_string(), format!("child killed by SIGALRM after {} s", self.secs))
            } else if err.contains("memory allocation of") {
                // "memory allocation of N bytes failed"
                let n: usize = err.split("memory allocation of ").nth(1).and_then(|s| s.split(' ').next()).and_then(|s| s.parse().ok()).unwrap_or(0);
                if n > lim {
                    (
                        "abort: single allocation request above 256 MiB + 4096 x input_len (refused, process aborted)".to_string(),
                        format!("request of {n} bytes, limit {lim}, input {input_len} bytes; signal {sig}"),
                    )
                } else {
                    (
                        "abort: allocation failed below the single-request limit (live heap exhausted the address-space backstop)".to_string(),
                        format!("request of {n} bytes, limit {lim}, input {input_len} bytes; signal {sig}"),
                    )
                }
            } else if err.contains("overflowed its stack") || err.contains("stack overflow") {
                ("abort: stack overflow".to_string(), format!("signal {sig}: {first}"))
            } else if libc::WIFSIGNALED(status) {
                (format!("abort: killed by signal {}", sig_name(sig)), format!("signal {sig}: {first}"))
            } else {
                ("abort: process exited with a failure status".to_string(), format!("status {}: {first}", libc::WEXITSTATUS(status)))
            };
            let n = (unsafe { std::ptr::read_volatile(self.region.add(AB_N_OFF) as *const u32) } as usize).min(AB_MAX);
            let chain: Vec<String> = (0..n).map(|k| format!("{:x}", unsafe { std::ptr::read_volatile((self.region.add(AB_CHAIN_OFF) as *const u64).add(k)) })).collect();
            let fl = (unsafe { std::ptr::read_volatile(self.region.add(AB_FUNC_N_OFF) as *const u32) } as usize).min(AB_FUNC_MAX);
            let func = String::from_utf8_lossy(unsafe { std::slice::from_raw_parts(self.region.add(AB_FUNC_OFF), fl) }).to_string();
            let call_no = unsafe { std::ptr::read_volatile(self.region.add(CALL_NO_OFF) as *const u32) };
            rep.death = Some(Death { ep, call_no, class, detail, chain: chain.join(","), func });
        }
        rep
    }
}

fn sig_name(s: i32) -> String {
    match s {
        libc::SIGSEGV => "SIGSEGV".into(),
        libc::SIGABRT => "SIGABRT".into(),
        libc::SIGBUS => "SIGBUS".into(),
        libc::SIGILL => "SIGILL".into(),
        libc::SIGFPE => "SIGFPE".into(),
        libc::SIGKILL => "SIGKILL".into(),
        n => format!("signal-{n}"),
    }
}

impl Drop for Sandbox {
    fn drop(&mut self) {
        unsafe {
            libc::munmap(self.region as *mut libc::c_void, REGION);
            libc::close(self.stderr_fd);
        }
    }
}

// ------------------------------------------------------------------ symbolizer server

/// A helper process forked from the worker while it is still small.  It answers "re-run case i in
/// symbolize mode" requests: it warms the backtrace symbolizer once (~0.4 s, +130 MiB) and forks the
/// case children itself, so that they inherit the parsed debug info; the worker stays small and its
/// own forks stay fast.
pub struct SymServer {
    req_w: i32,
    resp_r: i32,
}

fn write_all(fd: i32, b: &[u8]) -> bool {
    let mut o = 0;
    while o < b.len() {
        let n = unsafe { libc::write(fd, b[o..].as_ptr() as *const libc::c_void, b.len() - o) };
        if n <= 0 {
            return false;
        }
        o += n as usize;
    }
    true
}
fn read_line(fd: i32) -> Option<String> {
    let mut v = vec![];
    let mut c = [0u8; 1];
    loop {
        let n = unsafe { libc::read(fd, c.as_mut_ptr() as *mut libc::c_void, 1) };
        if n <= 0 {
            return None;
        }
        if c[0] == b'\n' {
            return Some(String::from_utf8_lossy(&v).to_string());
        }
        v.push(c[0]);
    }
}

impl SymServer {
    /// `handler(i, skip)` runs case i in symbolize mode and returns its report
    pub fn spawn(handler: &dyn Fn(u64, &[u32]) -> Report) -> Option<SymServer> {
        let mut rq = [0i32; 2];
        let mut rs = [0i32; 2];
        unsafe {
            if libc::pipe(rq.as_mut_ptr()) != 0 || libc::pipe(rs.as_mut_ptr()) != 0 {
                return None;
            }
        }
        let pid = unsafe { libc::fork() };
        if pid < 0 {
            return None;
        }
        if pid == 0 {
            unsafe {
                libc::close(rq[1]);
                libc::close(rs[0]);
                let devnull = libc::open(b"/dev/null\0".as_ptr() as *const libc::c_char, libc::O_WRONLY);
                if devnull >= 0 {
                    libc::dup2(devnull, 1);
                }
            }
            let mut warmed = false;
            while let Some(line) = read_line(rq[0]) {
                if !warmed {
                    warm_symbolizer();
                    warmed = true;
                }
                let (a, b) = line.split_once(';').unwrap_or((&line, ""));
                let i: u64 = a.parse().unwrap_or(0);
                let skip: Vec<u32> = b.split(',').filter_map(|x| x.parse().ok()).collect();
                let rep = handler(i, &skip);
                let mut out = String::new();
                for p in &rep.panics {
                    out.push_str(&format!("P\x1f{}\x1f{}\x1f{}\x1f{}\n", p.file, p.line, p.func.replace('\n', " "), p.chain));
                }
                if let Some(d) = &rep.death {
                    out.push_str(&format!("D\x1f{}\x1f{}\n", d.call_no, d.func.replace('\n', " ")));
                }
                out.push_str("END\n");
                if !write_all(rs[1], out.as_bytes()) {
                    break;
                }
            }
            unsafe { libc::_exit(0) };
        }
        unsafe {
            libc::close(rq[0]);
            libc::close(rs[1]);
            // the case children of the worker must not keep the server alive
            libc::fcntl(rq[1], libc::F_SETFD, libc::FD_CLOEXEC);
            libc::fcntl(rs[0], libc::F_SETFD, libc::FD_CLOEXEC);
        }
        Some(SymServer { req_w: rq[1], resp_r: rs[0] })
    }

    /// (panic sites as (file, line, func, chain), death as (ordinal of the dying call, func))
    #[allow(clippy::type_complexity)]
    pub fn resolve(&self, i: u64, skip: &[u32]) -> Option<(Vec<(String, u32, String, String)>, Option<(u32, String)>)> {
        let sk: Vec<String> = skip.iter().map(|x| x.to_string()).collect();
        if !write_all(self.req_w, format!("{};{}\n", i, sk.join(",")).as_bytes()) {
            return None;
        }
        let mut panics = vec![];
        let mut death = None;
        loop {
            let l = read_line(self.resp_r)?;
            if l == "END" {
                break;
            }
            let f: Vec<&str> = l.split('\x1f').collect();
            match f[0] {
                "P" if f.len() >= 5 => panics.push((f[1].to_string(), f[2].parse().unwrap_or(0), f[3].to_string(), f[4].to_string())),
                "D" if f.len() >= 3 => death = Some((f[1].parse().unwrap_or(u32::MAX), f[2].to_string())),
                _ => {}
            }
        }
        Some((panics, death))
    }
}
impl Drop for SymServer {
    fn drop(&mut self) {
        unsafe {
            libc::close(self.req_w);
            libc::close(self.resp_r);
        }
    }
}

impl Report {
    /// fold the report of an earlier child of the same case into this one
    pub fn absorb_earlier(&mut self, earlier: &Report) {
        for e in &earlier.eps {
            match self.eps.iter_mut().find(|x| x.ep == e.ep) {
                Some(x) => {
                    if e.leaf || x.leaf {
                        // leaf calls ran once across the children
                        x.ok += e.ok;
                        x.err += e.err;
                        x.leaf = true;
                    } else {
                        x.ok = x.ok.max(e.ok);
                        x.err = x.err.max(e.err);
                    }
                    x.peak = x.peak.max(e.peak);
                    x.largest = x.largest.max(e.largest);
                }
                None => self.eps.push(e.clone()),
            }
        }
        for p in &earlier.panics {
            if !self.panics.iter().any(|q| q.ep == p.ep && q.file == p.file && q.line == p.line && q.chain == p.chain) {
                self.panics.push(p.clone());
            }
        }
        for v in &earlier.viols {
            if !self.viols.iter().any(|w| w.0 == v.0) {
                self.viols.push(v.clone());
            }
        }
        for (k, n) in &earlier.notes {
            match self.notes.iter_mut().find(|x| &x.0 == k) {
                Some(x) => x.1 = x.1.max(*n),
                None => self.notes.push((k.clone(), *n)),
            }
        }
        self.max_consumed = self.max_consumed.max(earlier.max_consumed);
    }
}
