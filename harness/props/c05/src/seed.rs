//! Seed files: valid inputs produced by each crate's own writer/builder (or, for container
//! kinds no writer of /repo produces, by a small byte-level emitter written from /repo/docs).

/// One valid input file.
#[derive(Clone, Debug)]
pub struct RawSeed {
    /// which parser family the seed is for: "m2", "skin", "anim", "adt", "wmo_root", "wmo_group", ...
    pub fmt: &'static str,
    /// short stable name (goes into the JSON case descriptor), e.g. "wotlk_full", "md21_sfid_txid"
    pub name: String,
    pub bytes: Vec<u8>,
}

impl RawSeed {
    pub fn new(fmt: &'static str, name: impl Into<String>, bytes: Vec<u8>) -> RawSeed {
        RawSeed { fmt, name: name.into(), bytes }
    }
}
