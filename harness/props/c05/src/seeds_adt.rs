//! Seed files for the ADT parsers (`wow_adt::parse_adt`, `parse_adt_with_metadata`, `discover_chunks`).
//!
//! Two sources:
//!  * root tiles written by the crate's own `AdtBuilder` (one rich tile per target version, one tile
//!    with the 256 auto-generated MCNK, one minimal tile, one MoP tile patched to the high-res-hole
//!    MCNK header variant);
//!  * files no writer of /repo produces (Cataclysm+ split files `_tex0`, `_obj0`, `_lod`, a split
//!    root, and a monolithic WotLK tile in the on-disk conventions of client files), emitted by the
//!    byte-level emitter at the bottom, written from /repo/docs/src/formats/world-data/adt.md and the
//!    public ADT/v18 layout (chunk = magic stored reversed, u32 LE payload size, payload).
//!
//! Everything is deterministic (no rand, no time, no hash-map iteration).

use crate::seed::RawSeed;
use std::io::Cursor;
use std::panic::{catch_unwind, AssertUnwindSafe};
use wow_adt::chunks::blend_mesh::{MbbbChunk, MbbbEntry, MbmhChunk, MbmhEntry, MbmiChunk, MbnvChunk, MbnvVertex};
use wow_adt::chunks::mcnk::{BlendBatch, LiquidVertex, McbbChunk, McddChunk, MclvChunk, McmtChunk, McrdChunk, McrwChunk};
use wow_adt::chunks::mh2o::VertexDataArray;
use wow_adt::chunks::MtxfChunk;
use wow_adt::{
    AdtBuilder, AdtFileType, AdtVersion, DepthOnlyVertex, DoodadPlacement, HeightDepthVertex, HeightUvDepthVertex,
    HeightUvVertex, LiquidType, MampChunk, McalChunk, MccvChunk, MclqChunk, MclyChunk, MclyFlags, MclyLayer, McnkChunk,
    McnkFlags, McnkHeader, McnrChunk, McrfChunk, McseChunk, McshChunk, McvtChunk, MfboChunk, Mh2oAttributes, Mh2oChunk,
    Mh2oEntry, Mh2oHeader, Mh2oInstance, MtxpChunk, ParsedAdt, SoundEmitter, TextureHeightParams, UvMapEntry,
    VertexColor, VertexNormal, WmoPlacement,
};

const FMT: &str = "adt";

// ====================================================================== builder-made root tiles

/// Builder input for one tile.
struct Tile {
    version: AdtVersion,
    textures: Vec<String>,
    models: Vec<String>,
    wmos: Vec<String>,
    doodads: Vec<DoodadPlacement>,
    wmo_placements: Vec<WmoPlacement>,
    /// empty = let the serialiser generate its 256 minimal MCNK
    mcnk: Vec<McnkChunk>,
    flight_bounds: Option<MfboChunk>,
    water: Option<Mh2oChunk>,
    mtxf: Option<MtxfChunk>,
    mamp: Option<MampChunk>,
    mtxp: Option<MtxpChunk>,
    blend: Option<(MbmhChunk, MbbbChunk, MbnvChunk, MbmiChunk)>,
}

fn f(i: usize, j: usize) -> f32 {
    match (i + j) % 7 {
        0 => -0.0,
        1 => 1.5 + i as f32,
        2 => -(j as f32) * 0.25,
        3 => 9999.0,
        4 => f32::MIN_POSITIVE,
        5 => (i * 145 + j) as f32,
        _ => -1.0e-3,
    }
}

/// RLE-compressed 64x64 alpha map: 32 fill runs of 127 + one fill run of 32 = 4096 bytes.
fn rle_map(seed: u8) -> Vec<u8> {
    let mut v = vec![];
    for k in 0..32u8 {
        v.push(0x80 | 127);
        v.push(seed.wrapping_add(k));
    }
    v.push(0x80 | 32);
    v.push(seed ^ 0x5A);
    v
}

#[derive(Clone, Copy, PartialEq)]
enum Refs {
    None,
    /// MCRF with doodad references only
    Doodad,
    /// MCRF with doodad and WMO references
    DoodadWmo,
    /// Cataclysm+ MCRD + MCRW instead of MCRF
    Split,
}

struct ChunkOpt {
    /// content variation index
    i: usize,
    ix: u32,
    iy: u32,
    heights: bool,
    normals: bool,
    /// None = no MCLY
    layers: Option<usize>,
    /// one alpha map per entry: "u4096" | "u2048" | "rle"
    alpha: &'static [&'static str],
    shadow: bool,
    vcolors: bool,
    vlight: bool,
    sound: Option<usize>,
    refs: Refs,
    liquid: Option<LiquidType>,
    mcmt: bool,
    mcdd: bool,
    mcbb: bool,
    extra_flags: u32,
}

impl ChunkOpt {
    fn empty(i: usize, ix: u32, iy: u32) -> ChunkOpt {
        ChunkOpt {
            i,
            ix,
            iy,
            heights: false,
            normals: false,
            layers: None,
            alpha: &[],
            shadow: false,
            vcolors: false,
            vlight: false,
            sound: None,
            refs: Refs::None,
            liquid: None,
            mcmt: false,
            mcdd: false,
            mcbb: false,
            extra_flags: 0,
        }
    }
}

fn make_chunk(o: &ChunkOpt, ntex: usize) -> McnkChunk {
    let i = o.i;
    let mut flags = o.extra_flags;
    let heights = o.heights.then(|| McvtChunk { heights: (0..145).map(|j| f(i, j)).collect() });
    let normals = o.normals.then(|| McnrChunk {
        normals: (0..145)
            .map(|j| VertexNormal { x: (j as i32 - 72) as i8, z: ((i * 3 + j) % 255) as u8 as i8, y: if j % 2 == 0 { 127 } else { -127 } })
            .collect(),
        padding: vec![0; 13],
    });
    let mut alpha_data: Vec<u8> = vec![];
    let mut map_offsets = vec![];
    let mut map_compressed = vec![];
    for (m, kind) in o.alpha.iter().enumerate() {
        map_offsets.push(alpha_data.len() as u32);
        map_compressed.push(*kind == "rle");
        match *kind {
            "u4096" => alpha_data.extend((0..4096).map(|k| ((k * 7 + i + m) % 256) as u8)),
            "u2048" => alpha_data.extend((0..2048).map(|k| ((k * 13 + i * 3 + m) % 256) as u8)),
            "rle" => alpha_data.extend(rle_map((i * 5 + m) as u8)),
            _ => unreachable!(),
        }
    }
    let alpha = (!o.alpha.is_empty()).then_some(McalChunk { data: alpha_data });
    let layers = o.layers.map(|n| MclyChunk {
        layers: (0..n)
            .map(|k| {
                let mut fl = (k as u32) & 0x7;
                let mut ofs = 0;
                if k > 0 && k - 1 < map_offsets.len() {
                    fl |= 0x100; // use_alpha_map
                    if map_compressed[k - 1] {
                        fl |= 0x200; // alpha_map_compressed
                    }
                    ofs = map_offsets[k - 1];
                }
                MclyLayer { texture_id: (k % ntex.max(1)) as u32, flags: MclyFlags { value: fl }, offset_in_mcal: ofs, effect_id: 100 + k as u32 }
            })
            .collect(),
    });
    let shadow = o.shadow.then(|| McshChunk { shadow_map: (0..512).map(|k| ((k * 31 + i) % 256) as u8).collect() });
    if shadow.is_some() {
        flags |= 0x1;
    }
    let vertex_colors = o.vcolors.then(|| MccvChunk {
        colors: (0..145).map(|j| VertexColor { b: j as u8, g: (j * 2) as u8, r: (i + j) as u8, a: 255 - j as u8 }).collect(),
    });
    if vertex_colors.is_some() {
        flags |= 0x40;
    }
    let vertex_lighting = o.vlight.then(|| MclvChunk { colors: (0..145u32).map(|j| 0xFF00_0000 | (j << 8) | (i as u32 & 0xFF)).collect() });
    let sound_emitters = o.sound.map(|n| McseChunk {
        emitters: (0..n)
            .map(|k| SoundEmitter { sound_entry_id: 7000 + (i * 4 + k) as u32, position: [f(i, k), 10.0 + k as f32, -3.0], size_min: [1.0, 2.0 + k as f32, 0.5], _padding: [] })
            .collect(),
    });
    let (mut n_doodad_refs, mut n_map_obj_refs) = (0u32, 0u32);
    let (mut refs, mut doodad_refs, mut wmo_refs) = (None, None, None);
    match o.refs {
        Refs::None => {}
        Refs::Doodad => {
            n_doodad_refs = 2;
            refs = Some(McrfChunk { references: vec![i as u32, 1] });
        }
        Refs::DoodadWmo => {
            n_doodad_refs = 2;
            n_map_obj_refs = 1;
            refs = Some(McrfChunk { references: vec![i as u32, 2, 40 + i as u32] });
        }
        Refs::Split => {
            n_doodad_refs = 2;
            n_map_obj_refs = 1;
            doodad_refs = Some(McrdChunk { doodad_refs: vec![0, 1 + i as u32] });
            wmo_refs = Some(McrwChunk { wmo_refs: vec![i as u32] });
        }
    }
    let liquid = o.liquid.map(|lt| {
        flags |= match lt {
            LiquidType::Water => 0x04,
            LiquidType::Ocean => 0x08,
            LiquidType::Magma => 0x10,
            LiquidType::Slime => 0x20,
        };
        let mut t = [0u8; 64];
        for (k, x) in t.iter_mut().enumerate() {
            *x = ((k + i) % 16) as u8;
        }
        MclqChunk {
            min_height: -5.0 - i as f32,
            max_height: 10.5,
            vertices: (0..81).map(|j| LiquidVertex { union_data: [j as u8, i as u8, 3, 4], height: f(i, j + 1) }).collect(),
            tile_flags: t,
            liquid_type: lt,
        }
    });
    let materials = o.mcmt.then(|| McmtChunk { material_ids: [1, 2, i as u8, 255] });
    let doodad_disable = o.mcdd.then(|| {
        let mut d = [0u8; 64];
        d[0] = 0x81;
        d[63] = i as u8 | 1;
        McddChunk { disable: d }
    });
    let blend_batches = o.mcbb.then(|| McbbChunk {
        batches: vec![
            BlendBatch { mbmh_index: 0, index_count: 3, index_first: 0, vertex_count: 3, vertex_first: 0 },
            BlendBatch { mbmh_index: 1, index_count: 6, index_first: 3, vertex_count: 4, vertex_first: 3 },
        ],
    });
    // derived fields (offsets, sizes, counts) are recomputed by the serialiser
    let header = McnkHeader {
        flags: McnkFlags { value: flags },
        index_x: o.ix,
        index_y: o.iy,
        n_layers: 0,
        n_doodad_refs,
        multipurpose_field: [0; 8],
        ofs_layer: 0,
        ofs_refs: 0,
        ofs_alpha: 0,
        size_alpha: 0,
        ofs_shadow: 0,
        size_shadow: 0,
        area_id: 1000 + i as u32,
        n_map_obj_refs,
        holes_low_res: (i as u16).wrapping_mul(257),
        unknown_but_used: 1,
        pred_tex: [i as u8, 1, 2, 3, 4, 5, 6, 0xFF],
        no_effect_doodad: [0xF0, i as u8, 0, 0, 0, 0, 0, 1],
        unknown_8bytes: [8, 7, 6, 5, 4, 3, 2, i as u8],
        ofs_snd_emitters: 0,
        n_snd_emitters: 0,
        ofs_liquid: 0,
        size_liquid: 0,
        position: [o.ix as f32 * 33.333_332, o.iy as f32 * -33.333_332, f(i, 3)],
        ofs_mccv: 0,
        ofs_mclv: 0,
        unused: 0,
        _padding: [0; 8],
    };
    McnkChunk {
        header,
        heights,
        normals,
        layers,
        materials,
        refs,
        doodad_refs,
        wmo_refs,
        alpha,
        shadow,
        vertex_colors,
        vertex_lighting,
        sound_emitters,
        liquid,
        doodad_disable,
        blend_batches,
    }
}

/// One MH2O entry (water of one MCNK) in the given layout.
fn water_entry(fmt: &str, ci: usize) -> Mh2oEntry {
    let c = ci as f32;
    let inst = |lt: u16, lvf: u16, x: u8, y: u8, w: u8, h: u8| Mh2oInstance {
        liquid_type: lt,
        liquid_object_or_lvf: lvf,
        min_height_level: -2.5 - c,
        max_height_level: 40.25 + c,
        x_offset: x,
        y_offset: y,
        width: w,
        height: h,
        offset_exists_bitmap: 0,
        offset_vertex_data: 0,
    };
    let cells = |i: &Mh2oInstance| -> Vec<usize> {
        let mut v = vec![];
        for z in i.y_offset as usize..=(i.y_offset + i.height) as usize {
            for x in i.x_offset as usize..=(i.x_offset + i.width) as usize {
                v.push(z * 9 + x);
            }
        }
        v
    };
    let hd = |i: &Mh2oInstance| {
        let mut g: Box<[Option<HeightDepthVertex>; 81]> = Box::new([None; 81]);
        for (k, idx) in cells(i).into_iter().enumerate() {
            g[idx] = Some(HeightDepthVertex { height: c + k as f32 * 0.5, depth: (k * 3 + ci) as u8 });
        }
        VertexDataArray::HeightDepth(g)
    };
    let hu = |i: &Mh2oInstance| {
        let mut g: Box<[Option<HeightUvVertex>; 81]> = Box::new([None; 81]);
        for (k, idx) in cells(i).into_iter().enumerate() {
            g[idx] = Some(HeightUvVertex { height: -c - k as f32, uv: UvMapEntry { u: (k * 100) as u16, v: 65535 - k as u16 } });
        }
        VertexDataArray::HeightUv(g)
    };
    let d = |i: &Mh2oInstance| {
        let mut g: Box<[Option<DepthOnlyVertex>; 81]> = Box::new([None; 81]);
        for (k, idx) in cells(i).into_iter().enumerate() {
            g[idx] = Some(DepthOnlyVertex { depth: (200 + k + ci) as u8 });
        }
        VertexDataArray::DepthOnly(g)
    };
    let hud = |i: &Mh2oInstance| {
        let mut g: Box<[Option<HeightUvDepthVertex>; 81]> = Box::new([None; 81]);
        for (k, idx) in cells(i).into_iter().enumerate() {
            g[idx] = Some(HeightUvDepthVertex { height: 0.125 * k as f32, uv: UvMapEntry { u: k as u16, v: ci as u16 }, depth: k as u8 });
        }
        VertexDataArray::HeightUvDepth(g)
    };
    let attrs = Some(Mh2oAttributes { fishable: 0xFFFF_0000_FFFF_0001 ^ ci as u64, deep: 0x8000_0000_0000_0000 | ci as u64 });
    let header = Mh2oHeader { offset_instances: 0, layer_count: 0, offset_attributes: 0 };
    match fmt {
        "plain_attrs" => {
            let i = inst(5, 0, 0, 0, 8, 8);
            Mh2oEntry { header, instances: vec![i], vertex_data: vec![None], exists_bitmaps: vec![None], attributes: attrs }
        }
        "lvf0_bitmap" => {
            let i = inst(1, 0, 1, 2, 3, 2);
            let vd = hd(&i);
            Mh2oEntry { header, instances: vec![i], vertex_data: vec![Some(vd)], exists_bitmaps: vec![Some(0b10_1101)], attributes: None }
        }
        "lvf1_full" => {
            let i = inst(2, 1, 0, 0, 8, 8);
            let vd = hu(&i);
            Mh2oEntry { header, instances: vec![i], vertex_data: vec![Some(vd)], exists_bitmaps: vec![None], attributes: None }
        }
        "lvf0_full" => {
            let i = inst(1, 0, 0, 0, 8, 8);
            let vd = hd(&i);
            Mh2oEntry { header, instances: vec![i], vertex_data: vec![Some(vd)], exists_bitmaps: vec![None], attributes: None }
        }
        "lvf2_full" => {
            let i = inst(14, 2, 0, 0, 8, 8);
            let vd = d(&i);
            Mh2oEntry { header, instances: vec![i], vertex_data: vec![Some(vd)], exists_bitmaps: vec![None], attributes: None }
        }
        "lvf3_full" => {
            let i = inst(3, 3, 0, 0, 8, 8);
            let vd = hud(&i);
            Mh2oEntry { header, instances: vec![i], vertex_data: vec![Some(vd)], exists_bitmaps: vec![None], attributes: None }
        }
        "lvf2_bitmap_attrs" => {
            let i = inst(14, 2, 7, 7, 1, 1);
            let vd = d(&i);
            Mh2oEntry { header, instances: vec![i], vertex_data: vec![Some(vd)], exists_bitmaps: vec![Some(1)], attributes: attrs }
        }
        "lvf3" => {
            let i = inst(3, 3, 4, 0, 2, 5);
            let vd = hud(&i);
            Mh2oEntry { header, instances: vec![i], vertex_data: vec![Some(vd)], exists_bitmaps: vec![None], attributes: None }
        }
        "two_layers" => {
            let a = inst(1, 0, 0, 0, 4, 4);
            let b = inst(2, 2, 2, 3, 6, 5);
            let (va, vb) = (hd(&a), d(&b));
            Mh2oEntry { header, instances: vec![a, b], vertex_data: vec![Some(va), Some(vb)], exists_bitmaps: vec![Some(0xBEEF), None], attributes: attrs }
        }
        _ => unreachable!(),
    }
}

fn water(set: &[(usize, &str)]) -> Mh2oChunk {
    let mut c = Mh2oChunk::new();
    for &(ci, fmt) in set {
        c.entries[ci] = water_entry(fmt, ci);
    }
    c
}

fn doodad(k: usize, name_id: u32) -> DoodadPlacement {
    DoodadPlacement {
        name_id,
        unique_id: 0xA000_0000 + k as u32,
        position: [17066.0 + k as f32, -0.0, f(k, 2)],
        rotation: [0.0, 90.0 * k as f32, -180.0],
        scale: 1024 + 512 * k as u16,
        flags: if k == 2 { 0x1000 } else { 0 },
    }
}

fn wmo_placement(k: usize, name_id: u32) -> WmoPlacement {
    WmoPlacement {
        name_id,
        unique_id: 0xB000_0000 + k as u32,
        position: [1.0, 2.0 + k as f32, 3.0],
        rotation: [f(k, 0), 45.0, 0.0],
        extents_min: [-100.0 - k as f32, -50.0, 0.0],
        extents_max: [100.0, 50.0 + k as f32, 200.0],
        flags: k as u16,
        doodad_set: 2 * k as u16,
        name_set: k as u16 + 1,
        scale: if k == 0 { 0 } else { 1024 },
    }
}

fn blend_mesh() -> (MbmhChunk, MbbbChunk, MbnvChunk, MbmiChunk) {
    (
        MbmhChunk {
            entries: vec![
                MbmhEntry { map_object_id: 11, texture_id: 0, unknown: 0, mbmi_count: 3, mbnv_count: 3, mbmi_start: 0, mbnv_start: 0 },
                MbmhEntry { map_object_id: 12, texture_id: 1, unknown: 7, mbmi_count: 6, mbnv_count: 4, mbmi_start: 3, mbnv_start: 3 },
            ],
        },
        MbbbChunk { entries: vec![MbbbEntry { map_object_id: 11, min: [-1.0, -2.0, -3.0], max: [1.0, 2.0, 3.0] }, MbbbEntry { map_object_id: 12, min: [0.0; 3], max: [9.5; 3] }] },
        MbnvChunk {
            vertices: (0..7).map(|k| MbnvVertex { position: [k as f32, 1.0, -0.0], normal: [0.0, 0.0, 1.0], uv: [0.25 * k as f32, 1.0], color: [[k, 1, 2, 3], [4, 5, 6, k], [255, 254, k, 252]] }).collect(),
        },
        MbmiChunk { indices: vec![0, 1, 2, 3, 4, 5, 3, 5, 6] },
    )
}

/// Version index: 0 VanillaEarly, 1 VanillaLate, 2 TBC, 3 WotLK, 4 Cataclysm, 5 MoP.
const VERSIONS: [(&str, AdtVersion); 6] = [
    ("vanilla_early", AdtVersion::VanillaEarly),
    ("vanilla_late", AdtVersion::VanillaLate),
    ("tbc", AdtVersion::TBC),
    ("wotlk", AdtVersion::WotLK),
    ("cata", AdtVersion::Cataclysm),
    ("mop", AdtVersion::MoP),
];

fn bare_tile(vi: usize) -> Tile {
    Tile {
        version: VERSIONS[vi].1,
        textures: vec!["tileset/a.blp".into()],
        models: vec![],
        wmos: vec![],
        doodads: vec![],
        wmo_placements: vec![],
        mcnk: vec![],
        flight_bounds: None,
        water: None,
        mtxf: None,
        mamp: None,
        mtxp: None,
        blend: None,
    }
}

/// The rich tile of a version: every chunk kind the version knows, two MCNK (grid cells 0/0 and 15/15).
fn rich_tile(vi: usize) -> Tile {
    let textures: Vec<String> = vec!["tileset/a.blp".into(), "tileset/ab.blp".into(), "tileset/a.blpx.blp".into()];
    let models: Vec<String> = vec!["world/doodad/a.m2".into(), "world/doodad/ab.m2".into(), "world/doodad/a.m2x.m2".into()];
    let wmos: Vec<String> = vec!["world/wmo/a.wmo".into(), "world/wmo/ab.wmo".into()];
    let doodads = (0..3).map(|k| doodad(k, ((k + 1) % models.len()) as u32)).collect();
    let wmo_placements = (0..2).map(|k| wmo_placement(k, ((k + 1) % wmos.len()) as u32)).collect();
    let legacy_liquid = vi <= 2;
    let a = ChunkOpt {
        heights: true,
        normals: true,
        layers: Some(4),
        alpha: &["u4096", "u2048", "rle"],
        shadow: true,
        vcolors: vi >= 1,
        vlight: vi >= 4,
        sound: Some(3),
        refs: if vi == 5 { Refs::Split } else { Refs::DoodadWmo },
        liquid: legacy_liquid.then_some(if vi == 1 { LiquidType::Ocean } else { LiquidType::Water }),
        mcmt: vi >= 4,
        mcdd: vi >= 4,
        mcbb: vi == 5,
        extra_flags: 0x8000, // do_not_fix_alpha_map: 64x64 maps
        ..ChunkOpt::empty(0, 0, 0)
    };
    let b = ChunkOpt {
        heights: true,
        normals: true,
        layers: Some(2),
        alpha: &["rle"],
        vcolors: vi >= 1,
        sound: Some(1),
        refs: Refs::Doodad,
        liquid: legacy_liquid.then_some(if vi == 2 { LiquidType::Slime } else { LiquidType::Magma }),
        ..ChunkOpt::empty(1, 15, 15)
    };
    let mcnk = vec![make_chunk(&a, textures.len()), make_chunk(&b, textures.len())];
    let flight_bounds = (vi >= 2).then_some(MfboChunk { max_plane: [500, 501, 502, 503, -1, 32767, 0, 1, 2], min_plane: [-500, -32768, 0, 1, 2, 3, 4, 5, 6] });
    let water = match vi {
        3 => Some(water(&[(0, "two_layers"), (17, "lvf1_full"), (255, "lvf3")])),
        4 => Some(water(&[(0, "lvf0_bitmap"), (16, "lvf2_bitmap_attrs"), (255, "plain_attrs")])),
        5 => Some(water(&[(1, "lvf3"), (254, "two_layers")])),
        _ => None,
    };
    let mtxf = (vi >= 3).then(|| MtxfChunk { flags: (0..textures.len()).map(|k| [0x1, 0x0, 0x2, 0x10][k % 4]).collect() });
    let mamp = (vi >= 4).then_some(MampChunk { amplifier: 0x0102_0304 });
    let mtxp = (vi >= 5).then(|| MtxpChunk {
        entries: (0..textures.len()).map(|k| TextureHeightParams { flags: k as u32, height_scale: 0.5 * k as f32, height_offset: 1.0, padding: 0 }).collect(),
    });
    let blend = (vi >= 5).then(blend_mesh);
    Tile { version: VERSIONS[vi].1, textures, models, wmos, doodads, wmo_placements, mcnk, flight_bounds, water, mtxf, mamp, mtxp, blend }
}

fn build(t: &Tile) -> Result<Vec<u8>, String> {
    let t2 = AssertUnwindSafe(t);
    let r = catch_unwind(move || -> Result<Vec<u8>, String> {
        let t = *t2;
        let mut b = AdtBuilder::new().with_version(t.version);
        for x in &t.textures {
            b = b.add_texture(x.clone());
        }
        for x in &t.models {
            b = b.add_model(x.clone());
        }
        for x in &t.wmos {
            b = b.add_wmo(x.clone());
        }
        for p in &t.doodads {
            b = b.add_doodad_placement(*p);
        }
        for p in &t.wmo_placements {
            b = b.add_wmo_placement(*p);
        }
        for c in &t.mcnk {
            b = b.add_mcnk_chunk(c.clone());
        }
        if let Some(x) = &t.flight_bounds {
            b = b.add_flight_bounds(*x);
        }
        if let Some(x) = &t.water {
            b = b.add_water_data(x.clone());
        }
        if let Some(x) = &t.mtxf {
            b = b.add_texture_flags(x.clone());
        }
        if let Some(x) = &t.mamp {
            b = b.add_texture_amplifier(*x);
        }
        if let Some(x) = &t.mtxp {
            b = b.add_texture_params(x.clone());
        }
        if let Some((h, bb, v, i)) = &t.blend {
            b = b.add_blend_mesh_headers(h.clone()).add_blend_mesh_bounds(bb.clone()).add_blend_mesh_vertices(v.clone()).add_blend_mesh_indices(i.clone());
        }
        let built = b.build().map_err(|e| format!("build: {e}"))?;
        built.to_bytes().map_err(|e| format!("to_bytes: {e}"))
    });
    match r {
        Ok(x) => x,
        Err(_) => Err("builder panicked".into()),
    }
}

// ====================================================================== byte-level emitter

fn u16le(v: &mut Vec<u8>, x: u16) {
    v.extend(x.to_le_bytes());
}
fn u32le(v: &mut Vec<u8>, x: u32) {
    v.extend(x.to_le_bytes());
}
fn f32le(v: &mut Vec<u8>, x: f32) {
    v.extend(x.to_le_bytes());
}

/// Append one chunk; `magic` is the documented name, stored reversed in the file.
fn put_chunk(out: &mut Vec<u8>, magic: &str, payload: &[u8]) {
    put_chunk_sized(out, magic, payload.len() as u32, payload);
}

/// Same with an explicit size field (client files store 0 for MCLQ and 435 for the 448-byte MCNR).
fn put_chunk_sized(out: &mut Vec<u8>, magic: &str, size: u32, payload: &[u8]) {
    let m = magic.as_bytes();
    assert_eq!(m.len(), 4);
    out.extend([m[3], m[2], m[1], m[0]]);
    u32le(out, size);
    out.extend(payload);
}

fn strings_payload(names: &[&str]) -> (Vec<u8>, Vec<u8>) {
    // (name block, offset table)
    let (mut blk, mut ofs) = (vec![], vec![]);
    for n in names {
        u32le(&mut ofs, blk.len() as u32);
        blk.extend(n.as_bytes());
        blk.push(0);
    }
    (blk, ofs)
}

fn mddf_payload(n: usize, nnames: u32) -> Vec<u8> {
    let mut v = vec![];
    for k in 0..n {
        u32le(&mut v, k as u32 % nnames.max(1));
        u32le(&mut v, 0x00C0_0000 + k as u32);
        for x in [16000.5 + k as f32, 42.0, 17000.25 - k as f32] {
            f32le(&mut v, x);
        }
        for x in [0.0, 45.0 * k as f32, 0.0] {
            f32le(&mut v, x);
        }
        u16le(&mut v, 1024 + 100 * k as u16);
        u16le(&mut v, (k as u16) & 1);
    }
    v
}

fn modf_payload(n: usize, nnames: u32) -> Vec<u8> {
    let mut v = vec![];
    for k in 0..n {
        u32le(&mut v, k as u32 % nnames.max(1));
        u32le(&mut v, 0x00D0_0000 + k as u32);
        for x in [16100.0, 10.0 + k as f32, 16900.0] {
            f32le(&mut v, x);
        }
        for x in [0.0, 180.0, 0.0] {
            f32le(&mut v, x);
        }
        for x in [16000.0, 0.0, 16800.0] {
            f32le(&mut v, x);
        }
        for x in [16200.0, 80.0, 17000.0] {
            f32le(&mut v, x);
        }
        u16le(&mut v, 0);
        u16le(&mut v, k as u16);
        u16le(&mut v, 0);
        u16le(&mut v, 1024);
    }
    v
}

fn mcly_payload(nlayers: usize, map_ofs: &[(u32, bool)]) -> Vec<u8> {
    let mut v = vec![];
    for k in 0..nlayers {
        u32le(&mut v, k as u32 % 3);
        let (mut fl, mut ofs) = (0u32, 0u32);
        if k > 0 {
            if let Some((o, rle)) = map_ofs.get(k - 1) {
                fl |= 0x100;
                if *rle {
                    fl |= 0x200;
                }
                ofs = *o;
            }
        }
        u32le(&mut v, fl);
        u32le(&mut v, ofs);
        u32le(&mut v, if k == 0 { 0xFFFF_FFFF } else { 30 + k as u32 });
    }
    v
}

/// MCAL payload and the (offset, compressed) table for MCLY.
fn mcal_payload(kinds: &[&str], seed: usize) -> (Vec<u8>, Vec<(u32, bool)>) {
    let (mut data, mut tab) = (vec![], vec![]);
    for (m, k) in kinds.iter().enumerate() {
        tab.push((data.len() as u32, *k == "rle"));
        match *k {
            "u4096" => data.extend((0..4096).map(|x| ((x * 3 + seed + m) % 256) as u8)),
            "u2048" => data.extend((0..2048).map(|x| ((x * 11 + seed + m) % 256) as u8)),
            "rle" => data.extend(rle_map((seed * 7 + m) as u8)),
            _ => unreachable!(),
        }
    }
    (data, tab)
}

fn mcvt_payload(seed: usize) -> Vec<u8> {
    let mut v = vec![];
    for j in 0..145 {
        f32le(&mut v, ((j * 7 + seed) % 40) as f32 * 0.25 - 3.0);
    }
    v
}

fn mcnr_payload(seed: usize) -> Vec<u8> {
    // 145 * 3 bytes + 13 bytes the client files carry behind them
    let mut v = vec![];
    for j in 0..145usize {
        v.extend([((j + seed) % 7) as u8, 0xFB_u8.wrapping_add((j % 3) as u8), 127]);
    }
    v.extend([0u8, 112, 245, 18, 0, 8, 0, 0, 0, 84, 245, 18, 0]);
    v
}

fn argb145_payload(seed: usize) -> Vec<u8> {
    let mut v = vec![];
    for j in 0..145usize {
        v.extend([(j + seed) as u8, 0x7F, (255 - j) as u8, 0xFF]);
    }
    v
}

fn mcse_payload(n: usize) -> Vec<u8> {
    let mut v = vec![];
    for k in 0..n {
        u32le(&mut v, 3000 + k as u32);
        for x in [16010.0 + k as f32, 5.0, 16990.0] {
            f32le(&mut v, x);
        }
        for x in [4.0, 4.0, 8.0 + k as f32] {
            f32le(&mut v, x);
        }
    }
    v
}

fn mclq_layer(seed: usize) -> Vec<u8> {
    let mut v = vec![];
    f32le(&mut v, -12.0 - seed as f32);
    f32le(&mut v, 3.5 + seed as f32);
    for j in 0..81usize {
        v.extend([j as u8, seed as u8, 0, 0x7F]);
        f32le(&mut v, -1.0 + (j % 9) as f32 * 0.125);
    }
    v.extend((0..64usize).map(|k| if (k + seed) % 5 == 0 { 0x0F } else { (k % 4) as u8 }));
    v
}

/// Small hand-made MH2O payload: chunk 0 has one layer with exists-bitmap, height+depth vertices and
/// attributes; chunk 37 has one ocean layer without vertex data; chunk 255 has two layers.
fn mh2o_payload() -> Vec<u8> {
    let mut hdr = vec![0u8; 256 * 12];
    let mut body: Vec<u8> = vec![];
    let base = hdr.len() as u32;
    let set_hdr = |hdr: &mut Vec<u8>, ci: usize, ofs_inst: u32, n: u32, ofs_attr: u32| {
        hdr[ci * 12..ci * 12 + 4].copy_from_slice(&ofs_inst.to_le_bytes());
        hdr[ci * 12 + 4..ci * 12 + 8].copy_from_slice(&n.to_le_bytes());
        hdr[ci * 12 + 8..ci * 12 + 12].copy_from_slice(&ofs_attr.to_le_bytes());
    };
    #[allow(clippy::too_many_arguments)]
    fn inst(v: &mut Vec<u8>, lt: u16, lvf: u16, lo: f32, hi: f32, xywh: [u8; 4], ofs_bitmap: u32, ofs_vertex: u32) {
        u16le(v, lt);
        u16le(v, lvf);
        f32le(v, lo);
        f32le(v, hi);
        v.extend(xywh);
        u32le(v, ofs_bitmap);
        u32le(v, ofs_vertex);
    }
    // chunk 0: instance(24) attrs(16) bitmap(1 + 7 pad) vertices 3x3 (4+1 bytes each)
    let o_inst = base + body.len() as u32;
    let (o_attr, o_bmp, o_vtx) = (o_inst + 24, o_inst + 40, o_inst + 48);
    inst(&mut body, 5, 0, -4.0, 12.5, [2, 3, 2, 2], o_bmp, o_vtx);
    body.extend(0x0000_0000_0C0C_0000u64.to_le_bytes());
    body.extend(0x0000_0000_0C00_0000u64.to_le_bytes());
    body.extend([0b1011, 0, 0, 0, 0, 0, 0, 0]);
    for k in 0..9u8 {
        f32le(&mut body, 12.0 + k as f32 * 0.0625);
        body.push(40 + k);
    }
    body.extend([0u8; 3]);
    set_hdr(&mut hdr, 0, o_inst, 1, o_attr);
    // chunk 37: ocean, no bitmap, no vertex data (flat at min height)
    let o_inst = base + body.len() as u32;
    inst(&mut body, 2, 2, 0.0, 0.0, [0, 0, 8, 8], 0, 0);
    set_hdr(&mut hdr, 37, o_inst, 1, 0);
    // chunk 255: two layers, second one with height+uv vertices for a 1x1 cell (2x2 vertices)
    let o_inst = base + body.len() as u32;
    let o_vtx = o_inst + 48;
    inst(&mut body, 1, 2, 1.0, 1.0, [0, 0, 8, 8], 0, 0);
    inst(&mut body, 20, 1, -30.0, -29.0, [7, 7, 1, 1], 0, o_vtx);
    for k in 0..4u16 {
        f32le(&mut body, -30.0 + k as f32 * 0.25);
        u16le(&mut body, k * 64);
        u16le(&mut body, 0xFFFF - k);
    }
    set_hdr(&mut hdr, 255, o_inst, 2, 0);
    hdr.extend(body);
    hdr
}

struct HandMcnk {
    flags: u32,
    ix: u32,
    iy: u32,
    area: u32,
    holes_low: u16,
    /// Some = MoP 5.3+ layout: the height/normal offset pair is replaced by the 8x8 hole bitmap
    holes_high: Option<u64>,
    /// sub-chunks in file order: (documented magic, payload)
    subs: Vec<(&'static str, Vec<u8>)>,
}

/// A root-file MCNK: 128-byte header, sub-chunk offsets relative to the start of the MCNK chunk
/// header, sizes in the conventions of client files (sizeAlpha / sizeShadow / sizeLiquid count the
/// 8 header bytes, MCLQ stores size 0, MCNR stores 435 for 448 bytes).
fn hand_root_mcnk(m: &HandMcnk) -> Vec<u8> {
    let mut body: Vec<u8> = vec![];
    let mut h = [0u32; 32]; // header as 32 dwords
    let mut flags = m.flags;
    let (mut n_doodad, mut n_wmo) = (0u32, 0u32);
    for (magic, p) in &m.subs {
        let ofs = (8 + 128 + body.len()) as u32;
        match *magic {
            "MCVT" => h[5] = ofs,
            "MCNR" => h[6] = ofs,
            "MCLY" => {
                h[7] = ofs;
                h[3] = (p.len() / 16) as u32;
            }
            "MCRF" => {
                h[8] = ofs;
                n_doodad = (p.len() as u32 / 4).div_ceil(2);
                n_wmo = p.len() as u32 / 4 - n_doodad;
            }
            "MCRD" => {
                if h[8] == 0 {
                    h[8] = ofs;
                }
                n_doodad = p.len() as u32 / 4;
            }
            "MCRW" => {
                if h[8] == 0 {
                    h[8] = ofs;
                }
                n_wmo = p.len() as u32 / 4;
            }
            "MCAL" => {
                h[9] = ofs;
                h[10] = p.len() as u32 + 8;
            }
            "MCSH" => {
                h[11] = ofs;
                h[12] = p.len() as u32 + 8;
                flags |= 0x1;
            }
            "MCSE" => {
                h[22] = ofs;
                h[23] = (p.len() / 28) as u32;
            }
            "MCLQ" => {
                h[24] = ofs;
                h[25] = p.len() as u32 + 8;
            }
            "MCCV" => {
                h[29] = ofs;
                flags |= 0x40;
            }
            "MCLV" => h[30] = ofs,
            _ => {}
        }
        match *magic {
            "MCLQ" => put_chunk_sized(&mut body, magic, 0, p),
            "MCNR" => put_chunk_sized(&mut body, magic, 435, p),
            _ => put_chunk(&mut body, magic, p),
        }
    }
    if let Some(holes) = m.holes_high {
        flags |= 0x10000 | 0x200; // documented bit and the bit the crate tests
        h[5] = holes as u32;
        h[6] = (holes >> 32) as u32;
    }
    h[0] = flags;
    h[1] = m.ix;
    h[2] = m.iy;
    h[4] = n_doodad;
    h[13] = m.area;
    h[14] = n_wmo;
    h[15] = m.holes_low as u32 | (1 << 16);
    h[16] = 0x0000_E4E4; // low-quality texture map
    h[17] = 0x1B1B_0000;
    h[20] = 0x0000_0001; // no-effect-doodad bits
    h[26] = (17066.666 - m.iy as f32 * 33.333_332).to_bits();
    h[27] = (17066.666 - m.ix as f32 * 33.333_332).to_bits();
    h[28] = 25.0f32.to_bits();
    let mut payload: Vec<u8> = vec![];
    for d in h {
        u32le(&mut payload, d);
    }
    payload.extend(body);
    let mut out = vec![];
    put_chunk(&mut out, "MCNK", &payload);
    out
}

/// Patch a u32 at an absolute position.
fn poke32(v: &mut [u8], pos: usize, x: u32) {
    v[pos..pos + 4].copy_from_slice(&x.to_le_bytes());
}

/// Top-level chunk table of a file: (documented magic, header position, payload size).
fn walk(bytes: &[u8]) -> Vec<(String, usize, usize)> {
    let (mut pos, mut out) = (0usize, vec![]);
    while pos + 8 <= bytes.len() {
        let m = &bytes[pos..pos + 4];
        let name: String = [m[3], m[2], m[1], m[0]].iter().map(|b| *b as char).collect();
        let size = u32::from_le_bytes([bytes[pos + 4], bytes[pos + 5], bytes[pos + 6], bytes[pos + 7]]) as usize;
        if pos + 8 + size > bytes.len() {
            break;
        }
        out.push((name, pos, size));
        pos += 8 + size;
    }
    out
}

/// Cataclysm / MoP `_tex0.adt`: MVER, MAMP, MTEX, [MTXP], then header-less MCNK containers with
/// MCLY / MCSH / MCAL / MCMT.
fn hand_tex0(mop: bool) -> Vec<u8> {
    let mut out = vec![];
    put_chunk(&mut out, "MVER", &18u32.to_le_bytes());
    put_chunk(&mut out, "MAMP", &[if mop { 1 } else { 0 }, 0, 0, 0]);
    let (names, _) = strings_payload(&["Tileset\\Expansion03\\Hyjal\\HyjalGrass01.blp", "Tileset\\Generic\\Black.blp", "tileset\\x\\y_s.blp"]);
    put_chunk(&mut out, "MTEX", &names);
    // MCNK 0: four layers, shadow, three alpha maps, material ids
    let (al, tab) = mcal_payload(&["u4096", "rle", "u2048"], 1);
    let mut c = vec![];
    put_chunk(&mut c, "MCLY", &mcly_payload(4, &tab));
    put_chunk(&mut c, "MCSH", &(0..512).map(|k| (k * 37 % 256) as u8).collect::<Vec<u8>>());
    put_chunk(&mut c, "MCAL", &al);
    put_chunk(&mut c, "MCMT", &[1, 0, 3, 0]);
    put_chunk(&mut out, "MCNK", &c);
    // MCNK 1: base layer only
    let mut c = vec![];
    put_chunk(&mut c, "MCLY", &mcly_payload(1, &[]));
    put_chunk(&mut out, "MCNK", &c);
    // MCNK 2: empty container
    put_chunk(&mut out, "MCNK", &[]);
    // MCNK 3: two layers, one compressed map
    let (al, tab) = mcal_payload(&["rle"], 4);
    let mut c = vec![];
    put_chunk(&mut c, "MCLY", &mcly_payload(2, &tab));
    put_chunk(&mut c, "MCAL", &al);
    put_chunk(&mut out, "MCNK", &c);
    if mop {
        // MTXP: one 16-byte record per texture (flags, height scale, height offset, padding)
        let mut p = vec![];
        for k in 0..3u32 {
            u32le(&mut p, k);
            f32le(&mut p, 0.5 + k as f32);
            f32le(&mut p, 1.0);
            u32le(&mut p, 0);
        }
        put_chunk(&mut out, "MTXP", &p);
    }
    out
}

/// Cataclysm `_obj0.adt`: MVER, MMDX, MMID, MWMO, MWID, MDDF, MODF, header-less MCNK containers with
/// MCRD / MCRW.
fn hand_obj0() -> Vec<u8> {
    let mut out = vec![];
    put_chunk(&mut out, "MVER", &18u32.to_le_bytes());
    let (m, mi) = strings_payload(&["World\\Expansion03\\Doodads\\Hyjal\\Tree01.m2", "world\\generic\\rock.m2", "W\\B.M2"]);
    put_chunk(&mut out, "MMDX", &m);
    put_chunk(&mut out, "MMID", &mi);
    let (w, wi) = strings_payload(&["World\\wmo\\Kalimdor\\Hyjal\\Hut.wmo", "world\\wmo\\a.wmo"]);
    put_chunk(&mut out, "MWMO", &w);
    put_chunk(&mut out, "MWID", &wi);
    put_chunk(&mut out, "MDDF", &mddf_payload(4, 3));
    put_chunk(&mut out, "MODF", &modf_payload(2, 2));
    let refs = |v: &[u32]| -> Vec<u8> { v.iter().flat_map(|x| x.to_le_bytes()).collect() };
    let mut c = vec![];
    put_chunk(&mut c, "MCRD", &refs(&[0, 1, 3]));
    put_chunk(&mut c, "MCRW", &refs(&[1]));
    put_chunk(&mut out, "MCNK", &c);
    put_chunk(&mut out, "MCNK", &[]);
    let mut c = vec![];
    put_chunk(&mut c, "MCRD", &refs(&[2]));
    put_chunk(&mut out, "MCNK", &c);
    let mut c = vec![];
    put_chunk(&mut c, "MCRW", &refs(&[0, 1]));
    put_chunk(&mut c, "MCRD", &[]);
    put_chunk(&mut out, "MCNK", &c);
    out
}

/// `_lod.adt`-like file: MVER plus chunks none of the other kinds carry (the crate only knows LOD
/// files as "none of the known top-level chunks present").
fn hand_lod() -> Vec<u8> {
    let mut out = vec![];
    put_chunk(&mut out, "MVER", &18u32.to_le_bytes());
    // level header: 4 x (bounding radius, first index, index count, ...)
    let mut p = vec![];
    for k in 0..4u32 {
        u32le(&mut p, k);
        f32le(&mut p, 754.25 / (k + 1) as f32);
        u32le(&mut p, k * 6);
        u32le(&mut p, 6);
    }
    put_chunk(&mut out, "MLHD", &p);
    let mut p = vec![];
    for k in 0..(17 * 17) {
        f32le(&mut p, (k % 17) as f32 * 0.5 - 4.0);
    }
    put_chunk(&mut out, "MLVH", &p);
    let mut p = vec![];
    for k in 0..24u16 {
        u16le(&mut p, k * 11 % 289);
    }
    put_chunk(&mut out, "MLVI", &p);
    let mut p = vec![];
    for k in 0..4u32 {
        f32le(&mut p, 1000.0 * (k + 1) as f32);
        u32le(&mut p, 6);
        u32le(&mut p, k * 6);
    }
    put_chunk(&mut out, "MLLL", &p);
    put_chunk(&mut out, "MLND", &[0u8; 20]);
    out
}

/// Cataclysm split root (`MapName_XX_YY.adt` of 4.x+): MVER, MHDR, MH2O, MCNK with terrain-only
/// sub-chunks, MFBO; no MCIN, no MTEX.
fn hand_split_root() -> Vec<u8> {
    let mut out = vec![];
    put_chunk(&mut out, "MVER", &18u32.to_le_bytes());
    let mhdr_pos = out.len();
    put_chunk(&mut out, "MHDR", &[0u8; 64]);
    let mhdr_data = mhdr_pos + 8;
    let mh2o_pos = out.len();
    put_chunk(&mut out, "MH2O", &mh2o_payload());
    let c0 = HandMcnk {
        flags: 0,
        ix: 0,
        iy: 0,
        area: 616,
        holes_low: 0x8001,
        holes_high: None,
        subs: vec![("MCVT", mcvt_payload(0)), ("MCCV", argb145_payload(1)), ("MCLV", argb145_payload(2)), ("MCNR", mcnr_payload(0)), ("MCSE", mcse_payload(2))],
    };
    out.extend(hand_root_mcnk(&c0));
    let c1 = HandMcnk { flags: 0x2, ix: 1, iy: 0, area: 616, holes_low: 0, holes_high: None, subs: vec![("MCVT", mcvt_payload(5)), ("MCNR", mcnr_payload(5))] };
    out.extend(hand_root_mcnk(&c1));
    let c2 = HandMcnk { flags: 0, ix: 15, iy: 15, area: 5034, holes_low: 0, holes_high: None, subs: vec![("MCVT", mcvt_payload(9)), ("MCCV", argb145_payload(3)), ("MCNR", mcnr_payload(9)), ("MCDD", vec![0x55; 64])] };
    out.extend(hand_root_mcnk(&c2));
    let mfbo_pos = out.len();
    let mut p = vec![];
    for k in 0..9i16 {
        u16le(&mut p, (600 + k) as u16);
    }
    for k in 0..9i16 {
        u16le(&mut p, (-300 - k) as u16);
    }
    put_chunk(&mut out, "MFBO", &p);
    // MHDR: flags = 1 (MFBO present); offsets relative to the MHDR payload
    poke32(&mut out, mhdr_data, 1);
    poke32(&mut out, mhdr_data + 4 * 9, (mfbo_pos - mhdr_data) as u32);
    poke32(&mut out, mhdr_data + 4 * 10, (mh2o_pos - mhdr_data) as u32);
    out
}

/// Monolithic WotLK tile in the chunk order and size conventions of 3.3.5 client files: every MHDR
/// offset is set, MH2O precedes the MCNK, MFBO and MTXF follow them; MCNK 0 carries an MCLQ block with
/// two liquid layers (river + magma flags) next to MH2O water.
fn hand_wotlk_mono() -> Vec<u8> {
    let mut out = vec![];
    let mut pos = std::collections::BTreeMap::new();
    put_chunk(&mut out, "MVER", &18u32.to_le_bytes());
    pos.insert("MHDR", out.len());
    put_chunk(&mut out, "MHDR", &[0u8; 64]);
    pos.insert("MCIN", out.len());
    put_chunk(&mut out, "MCIN", &[0u8; 4096]);
    pos.insert("MTEX", out.len());
    let (t, _) = strings_payload(&["Tileset\\Northrend\\Tundra\\TundraGrass.blp", "Tileset\\Northrend\\Tundra\\TundraGrass_s.blp", "Tileset\\Generic\\Black.blp"]);
    put_chunk(&mut out, "MTEX", &t);
    let (m, mi) = strings_payload(&["World\\Expansion02\\Doodads\\Generic\\Bush01.m2", "World\\Generic\\Rock.M2"]);
    pos.insert("MMDX", out.len());
    put_chunk(&mut out, "MMDX", &m);
    pos.insert("MMID", out.len());
    put_chunk(&mut out, "MMID", &mi);
    let (w, wi) = strings_payload(&["World\\wmo\\Northrend\\Buildings\\Hut.wmo"]);
    pos.insert("MWMO", out.len());
    put_chunk(&mut out, "MWMO", &w);
    pos.insert("MWID", out.len());
    put_chunk(&mut out, "MWID", &wi);
    pos.insert("MDDF", out.len());
    put_chunk(&mut out, "MDDF", &mddf_payload(3, 2));
    pos.insert("MODF", out.len());
    put_chunk(&mut out, "MODF", &modf_payload(1, 1));
    pos.insert("MH2O", out.len());
    put_chunk(&mut out, "MH2O", &mh2o_payload());
    let u32s = |v: &[u32]| -> Vec<u8> { v.iter().flat_map(|x| x.to_le_bytes()).collect() };
    let (al, tab) = mcal_payload(&["u4096", "rle"], 2);
    let mut two_layers = mclq_layer(0);
    two_layers.extend(mclq_layer(1));
    let c0 = HandMcnk {
        flags: 0x8000 | 0x04 | 0x10,
        ix: 0,
        iy: 0,
        area: 3537,
        holes_low: 0x0660,
        holes_high: None,
        subs: vec![
            ("MCVT", mcvt_payload(1)),
            ("MCCV", argb145_payload(7)),
            ("MCNR", mcnr_payload(1)),
            ("MCLY", mcly_payload(3, &tab)),
            ("MCRF", u32s(&[0, 2, 0])),
            ("MCSH", (0..512).map(|k| (k * 5 % 256) as u8).collect()),
            ("MCAL", al),
            ("MCLQ", two_layers),
            ("MCSE", mcse_payload(1)),
        ],
    };
    let (al, tab) = mcal_payload(&["u2048"], 3);
    let c1 = HandMcnk {
        flags: 0,
        ix: 1,
        iy: 0,
        area: 3537,
        holes_low: 0,
        holes_high: None,
        subs: vec![("MCVT", mcvt_payload(2)), ("MCNR", mcnr_payload(2)), ("MCLY", mcly_payload(2, &tab)), ("MCRF", vec![]), ("MCAL", al), ("MCLQ", vec![]), ("MCSE", vec![])],
    };
    let mut mcin = vec![];
    for c in [&c0, &c1] {
        let b = hand_root_mcnk(c);
        mcin.push((out.len() as u32, b.len() as u32));
        out.extend(b);
    }
    pos.insert("MFBO", out.len());
    let mut p = vec![];
    for k in 0..9i16 {
        u16le(&mut p, (900 - k) as u16);
    }
    for k in 0..9i16 {
        u16le(&mut p, (-100 + k) as u16);
    }
    put_chunk(&mut out, "MFBO", &p);
    pos.insert("MTXF", out.len());
    put_chunk(&mut out, "MTXF", &u32s(&[0, 1, 0]));
    // offset tables
    let mhdr_data = pos["MHDR"] + 8;
    poke32(&mut out, mhdr_data, 0x3); // MFBO | MH2O
    for (k, name) in ["MCIN", "MTEX", "MMDX", "MMID", "MWMO", "MWID", "MDDF", "MODF", "MFBO", "MH2O", "MTXF"].iter().enumerate() {
        poke32(&mut out, mhdr_data + 4 * (k + 1), (pos[name] - mhdr_data) as u32);
    }
    let mcin_data = pos["MCIN"] + 8;
    for (k, (o, s)) in mcin.iter().enumerate() {
        poke32(&mut out, mcin_data + 16 * k, *o);
        poke32(&mut out, mcin_data + 16 * k + 4, *s);
    }
    out
}

/// Builder-made MoP tile rewritten to the 5.3+ MCNK header variant: in every MCNK the height/normal
/// offset pair is replaced by a 64-bit hole map and the high-res-holes flag is set, so the parser has
/// to find MCVT / MCNR by scanning the sub-chunks.
fn mop_high_res_holes() -> Result<Vec<u8>, String> {
    let mut t = bare_tile(5);
    t.textures.push("tileset/b.blp".into());
    let a = ChunkOpt { heights: true, normals: true, layers: Some(2), alpha: &["rle"], vcolors: true, ..ChunkOpt::empty(0, 3, 4) };
    let b = ChunkOpt { heights: true, normals: true, layers: Some(1), vcolors: true, shadow: true, ..ChunkOpt::empty(1, 4, 4) };
    t.mcnk = vec![make_chunk(&a, 2), make_chunk(&b, 2)];
    t.mtxp = Some(MtxpChunk { entries: (0..2).map(|k| TextureHeightParams { flags: k, height_scale: 1.0, height_offset: 0.5, padding: 0 }).collect() });
    let mut bytes = build(&t)?;
    let mut n = 0u64;
    for (name, p, size) in walk(&bytes) {
        if name == "MCNK" && size >= 128 {
            let h = p + 8;
            let fl = u32::from_le_bytes([bytes[h], bytes[h + 1], bytes[h + 2], bytes[h + 3]]);
            poke32(&mut bytes, h, fl | 0x10000 | 0x200);
            let holes: u64 = 0x0000_1818_0000_8001 ^ (n << 40);
            poke32(&mut bytes, h + 0x14, holes as u32);
            poke32(&mut bytes, h + 0x18, (holes >> 32) as u32);
            n += 1;
        }
    }
    if n != 2 {
        return Err(format!("expected 2 MCNK in the builder output, found {n}"));
    }
    Ok(bytes)
}

// ====================================================================== seed list

/// (name, expected file type, bytes or the reason the seed could not be made)
fn all() -> Vec<(String, AdtFileType, Result<Vec<u8>, String>)> {
    let mut v: Vec<(String, AdtFileType, Result<Vec<u8>, String>)> = vec![];
    for (vi, (vname, _)) in VERSIONS.iter().enumerate() {
        v.push((format!("{vname}_rich_2mcnk"), AdtFileType::Root, build(&rich_tile(vi))));
    }
    // the serialiser's own 256 MCNK (MCVT, MCNR, MCLY each), nothing else
    v.push(("vanilla_early_auto256".into(), AdtFileType::Root, build(&bare_tile(0))));
    // one texture, one MCNK that is nothing but its header
    let mut t = bare_tile(0);
    t.mcnk = vec![make_chunk(&ChunkOpt::empty(0, 0, 0), 1)];
    v.push(("vanilla_early_min".into(), AdtFileType::Root, build(&t)));
    // one MCNK without sub-chunks, WotLK (MTXF is the only version marker)
    let mut t = bare_tile(3);
    t.mcnk = vec![make_chunk(&ChunkOpt::empty(0, 7, 9), 1)];
    v.push(("wotlk_min".into(), AdtFileType::Root, build(&t)));
    // a liquid layer over the whole 8x8 tile grid (9x9 vertices) in every vertex format
    let mut t = rich_tile(3);
    t.water = Some(water(&[(0, "lvf0_full"), (1, "lvf1_full"), (2, "lvf2_full"), (3, "lvf3_full")]));
    v.push(("wotlk_water_full_lvf0123".into(), AdtFileType::Root, build(&t)));
    v.push(("mop_highres_holes".into(), AdtFileType::Root, mop_high_res_holes()));
    v.push(("wotlk_hand_allofs_mclq2".into(), AdtFileType::Root, Ok(hand_wotlk_mono())));
    v.push(("cata_split_root".into(), AdtFileType::Root, Ok(hand_split_root())));
    v.push(("cata_tex0".into(), AdtFileType::Tex0, Ok(hand_tex0(false))));
    v.push(("mop_tex0".into(), AdtFileType::Tex0, Ok(hand_tex0(true))));
    v.push(("cata_obj0".into(), AdtFileType::Obj0, Ok(hand_obj0())));
    v.push(("cata_lod".into(), AdtFileType::Lod, Ok(hand_lod())));
    v
}

pub fn seeds() -> Vec<RawSeed> {
    all().into_iter().filter_map(|(name, _, b)| b.ok().map(|b| RawSeed::new(FMT, name, b))).collect()
}

/// What the parser made of a seed, as one line.
fn summary(p: &ParsedAdt) -> String {
    match p {
        ParsedAdt::Root(r) => {
            let mut sub = std::collections::BTreeMap::new();
            for m in &r.mcnk_chunks {
                for (k, on) in [
                    ("MCVT", m.heights.is_some()),
                    ("MCNR", m.normals.is_some()),
                    ("MCLY", m.layers.is_some()),
                    ("MCRF", m.refs.is_some()),
                    ("MCAL", m.alpha.is_some()),
                    ("MCSH", m.shadow.is_some()),
                    ("MCCV", m.vertex_colors.is_some()),
                    ("MCLV", m.vertex_lighting.is_some()),
                    ("MCSE", m.sound_emitters.is_some()),
                    ("MCLQ", m.liquid.is_some()),
                ] {
                    if on {
                        *sub.entry(k).or_insert(0usize) += 1;
                    }
                }
            }
            let subs: Vec<String> = sub.iter().map(|(k, n)| format!("{k}x{n}")).collect();
            format!(
                "Root {:?}: {} tex, {} m2, {} wmo, {} MDDF, {} MODF, {} MCNK [{}], MFBO={} MH2O={} MTXF={} MAMP={} MTXP={} MBMH/MBBB/MBNV/MBMI={}/{}/{}/{}",
                r.version,
                r.textures.len(),
                r.models.len(),
                r.wmos.len(),
                r.doodad_placements.len(),
                r.wmo_placements.len(),
                r.mcnk_chunks.len(),
                subs.join(" "),
                r.flight_bounds.is_some(),
                r.water_data.as_ref().map(|w| w.entries.iter().filter(|e| !e.instances.is_empty()).count()).unwrap_or(0),
                r.texture_flags.as_ref().map(|x| x.flags.len()).unwrap_or(0),
                r.texture_amplifier.is_some(),
                r.texture_params.as_ref().map(|x| x.entries.len()).unwrap_or(0),
                r.blend_mesh_headers.as_ref().map(|x| x.entries.len()).unwrap_or(0),
                r.blend_mesh_bounds.as_ref().map(|x| x.entries.len()).unwrap_or(0),
                r.blend_mesh_vertices.as_ref().map(|x| x.vertices.len()).unwrap_or(0),
                r.blend_mesh_indices.as_ref().map(|x| x.indices.len()).unwrap_or(0),
            )
        }
        ParsedAdt::Tex0(t) | ParsedAdt::Tex1(t) => format!(
            "{:?} {:?}: {} tex, MTXP={}, {} MCNK ({} with MCLY, {} with MCAL)",
            p.file_type(),
            t.version,
            t.textures.len(),
            t.texture_params.as_ref().map(|x| x.entries.len()).unwrap_or(0),
            t.mcnk_textures.len(),
            t.mcnk_textures.iter().filter(|m| m.layers.is_some()).count(),
            t.mcnk_textures.iter().filter(|m| m.alpha_maps.is_some()).count()
        ),
        ParsedAdt::Obj0(o) | ParsedAdt::Obj1(o) => format!(
            "{:?} {:?}: {} m2 ({} MMID), {} wmo ({} MWID), {} MDDF, {} MODF, {} MCNK ({} doodad refs, {} wmo refs)",
            p.file_type(),
            o.version,
            o.models.len(),
            o.model_indices.len(),
            o.wmos.len(),
            o.wmo_indices.len(),
            o.doodad_placements.len(),
            o.wmo_placements.len(),
            o.mcnk_objects.len(),
            o.mcnk_objects.iter().map(|m| m.doodad_refs.len()).sum::<usize>(),
            o.mcnk_objects.iter().map(|m| m.wmo_refs.len()).sum::<usize>()
        ),
        ParsedAdt::Lod(l) => format!("Lod {:?}", l.version),
    }
}

/// Every seed must be made, parse Ok on all three entry points and come back as the intended kind.
pub fn selftest() -> Result<(), String> {
    let mut errs: Vec<String> = vec![];
    let mut names = std::collections::BTreeSet::new();
    for (name, want, bytes) in all() {
        if !names.insert(name.clone()) {
            errs.push(format!("{name}: duplicate seed name"));
        }
        let bytes = match bytes {
            Ok(b) => b,
            Err(e) => {
                errs.push(format!("{name}: not produced: {e}"));
                continue;
            }
        };
        let b2 = AssertUnwindSafe(&bytes);
        let r = catch_unwind(move || -> Result<String, String> {
            let bytes: &Vec<u8> = *b2;
            let disc = wow_adt::discover_chunks(&mut Cursor::new(bytes.as_slice())).map_err(|e| format!("discover_chunks: {e}"))?;
            let covered: u64 = disc.chunks.values().flat_map(|v| v.iter()).map(|l| 8 + l.size as u64).sum();
            if covered != bytes.len() as u64 {
                return Err(format!("discover_chunks covers {covered} of {} bytes", bytes.len()));
            }
            let p = wow_adt::parse_adt(&mut Cursor::new(bytes.as_slice())).map_err(|e| format!("parse_adt: {}", e.to_string().lines().next().unwrap_or("")))?;
            let (p2, meta) = wow_adt::parse_adt_with_metadata(&mut Cursor::new(bytes.as_slice())).map_err(|e| format!("parse_adt_with_metadata: {}", e.to_string().lines().next().unwrap_or("")))?;
            if p.file_type() != want || p2.file_type() != want || meta.file_type != want {
                return Err(format!("parsed as {:?}, intended {:?}", p.file_type(), want));
            }
            Ok(format!("{} | {} top-level chunks", summary(&p), meta.chunk_count))
        });
        match r {
            Ok(Ok(s)) => println!("  {name}: {} bytes -> {s}", bytes.len()),
            Ok(Err(e)) => errs.push(format!("{name}: {e}")),
            Err(_) => errs.push(format!("{name}: parser PANICKED on the unmodified seed")),
        }
    }
    if errs.is_empty() {
        Ok(())
    } else {
        Err(errs.join("; "))
    }
}
