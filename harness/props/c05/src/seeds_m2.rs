//! Seed files of the M2 family for C05 ("parsers are total"): "m2" (MD20 written by the crate's
//! `M2Model::write`, MD21 containers emitted by hand), "skin" (`SkinFile::write`, both header
//! layouts) and "anim" (`AnimFile::write`, legacy and MAOF containers).
//!
//! Every seed is accepted by the crate's own parser (`selftest`).  Where the crate's writer emits
//! something its own parser does not read back as written, the bytes are repaired after writing
//! (marked REPAIR below).  /repo is being fixed while this check exists, so no repair is
//! unconditional: the verbatim writer output is tried first and kept when it reads back with the
//! content it was built from; a repair is applied only when the defect is seen in the bytes, and
//! constructs a defective writer cannot carry (texture name through the writer, event ranges,
//! model flag 0x8) are used when the writer handles them and dropped otherwise.  The seed names
//! do not depend on which variant was taken; `report()` says which repairs were needed.
//!
//! Animated tracks: the writer copies key data from `raw_data.*_animation_data` and relocates the
//! track headers through a map old offset -> new offset, so a model built from scratch gets its
//! tracks by giving header and raw entry the same made-up "original" offset (`Fake`).
use crate::seed::RawSeed;
use std::io::Cursor;
use std::panic::{catch_unwind, AssertUnwindSafe};
use wow_m2::anim::{
    AnimBoneAnimation, AnimEntry, AnimFile, AnimFormat, AnimHeader, AnimMetadata, AnimRotation, AnimScaling, AnimSection, AnimSectionHeader, AnimTranslation,
    LegacyStructureHints, ANIM_MAGIC,
};
use wow_m2::chunks::animation::{M2Animation, M2AnimationBlock, M2AnimationTrack, M2InterpolationType, M2Range};
use wow_m2::chunks::bone::{M2Bone, M2BoneFlags};
use wow_m2::chunks::m2_track::{M2Track, M2TrackBase};
use wow_m2::chunks::material::{M2BlendMode, M2Material, M2RenderFlags};
use wow_m2::chunks::texture::{M2Texture, M2TextureFlags, M2TextureType};
use wow_m2::chunks::{
    M2Attachment, M2Camera, M2CameraFlags, M2Color, M2ColorAnimation, M2Event, M2Light, M2LightFlags, M2LightType, M2ParticleEmitter, M2ParticleEmitterType,
    M2ParticleFlags, M2RibbonEmitter, M2TextureAnimation, M2TextureAnimationType, M2TransparencyAnimation, M2Vertex,
};
use wow_m2::common::{C2Vector, C3Vector, FixedString, M2Array, M2ArrayString, M2Parse, M2Vec, Quaternion};
use wow_m2::header::{M2Header, M2ModelFlags};
use wow_m2::model::{
    AttachmentAnimationRaw, AttachmentTrackType, BoneAnimationRaw, CameraAnimationRaw, CameraTrackType, ColorAnimationRaw, ColorTrackType, EmbeddedSkinRaw, EventRaw,
    LightAnimationRaw, LightTrackType, ParticleAnimationRaw, ParticleTrackType, RibbonAnimationRaw, RibbonTrackType, TextureAnimationRaw, TextureTrackType, TrackType,
    TransparencyAnimationRaw, TransparencyTrackType,
};
use wow_m2::skin::{OldSkin, OldSkinHeader, Skin, SkinBatch, SkinFile, SkinHeader, SkinSubmesh};
use wow_m2::{M2Format, M2Model, M2Version};

/// The repairs / omissions this module knows (applied only where the defect is detected).
#[allow(dead_code)]
pub const REPAIRS: &[&str] = &[
    "m2: texture file names are appended and the 16-byte texture records patched by hand (M2Model::write patches the name reference at data offset `textures.offset - size_of::<M2Header>()` = -376 instead of minus the written header size: the name is lost and 8 unrelated bytes are overwritten; a model whose texture records start before byte 376 makes write() panic, model.rs:3878)",
    "m2 (Vanilla/TBC): batch count of the embedded ModelView patched by hand (writer derives it as len/96, reader uses 24-byte batches)",
    "m2: events carry timestamps but no ranges (writer writes range bytes without relocating the reference and without advancing its offset counter)",
    "m2: model flag 0x8 (texture combiner combos) not used (writer keeps the flag but drops the header field: parse(write(m)) reads 8 data bytes as the field, or fails with EOF for an otherwise empty model)",
    "skin: batches offset patched by +8 per submesh (writer advances by 40 bytes per 48-byte submesh)",
    "skin: no empty old-layout seed (SkinFile::parse takes a file whose first count is <= 4 for the new layout and runs off the end)",
    "anim (modern, bones with keys): entry.size patched to 16 + 4 * bones (parser derives the bone count from the entry size, writer stores the whole section length)",
    "anim (legacy): no zero-section seed (4-byte file, parser wants 16 bytes)",
];

// ---------------------------------------------------------------------------------------------
// small helpers

fn fl(k: usize) -> f32 {
    (k % 17) as f32 * 0.25 - 1.5
}
fn v3(k: usize) -> C3Vector {
    C3Vector { x: fl(k), y: fl(k + 1), z: fl(k + 2) }
}
fn v2(k: usize) -> C2Vector {
    C2Vector { x: fl(k), y: fl(k + 4) }
}

#[derive(Default)]
struct W(Vec<u8>);
impl W {
    fn u8(&mut self, v: u8) -> &mut Self {
        self.0.push(v);
        self
    }
    fn u16(&mut self, v: u16) -> &mut Self {
        self.0.extend_from_slice(&v.to_le_bytes());
        self
    }
    fn i16(&mut self, v: i16) -> &mut Self {
        self.0.extend_from_slice(&v.to_le_bytes());
        self
    }
    fn u32(&mut self, v: u32) -> &mut Self {
        self.0.extend_from_slice(&v.to_le_bytes());
        self
    }
    fn f32(&mut self, v: f32) -> &mut Self {
        self.0.extend_from_slice(&v.to_le_bytes());
        self
    }
    fn bytes(&mut self, v: &[u8]) -> &mut Self {
        self.0.extend_from_slice(v);
        self
    }
}

fn get_u32(b: &[u8], at: usize) -> u32 {
    u32::from_le_bytes([b[at], b[at + 1], b[at + 2], b[at + 3]])
}
fn put_u32(b: &mut [u8], at: usize, v: u32) {
    b[at..at + 4].copy_from_slice(&v.to_le_bytes());
}

/// run a library call; a panic becomes an `Err`
fn guarded<T>(what: &str, f: impl FnOnce() -> Result<T, String>) -> Result<T, String> {
    match catch_unwind(AssertUnwindSafe(f)) {
        Ok(Ok(v)) => Ok(v),
        Ok(Err(e)) => Err(format!("{what}: Err: {e}")),
        Err(p) => {
            let msg = p.downcast_ref::<String>().cloned().or_else(|| p.downcast_ref::<&str>().map(|s| s.to_string())).unwrap_or_else(|| "?".into());
            Err(format!("{what}: PANIC: {msg}"))
        }
    }
}

// ---------------------------------------------------------------------------------------------
// key data of one animated track

/// made-up "original" offsets (unique, far outside any seed)
struct Fake(u32);
impl Fake {
    fn next(&mut self) -> u32 {
        self.0 += 0x40;
        self.0
    }
}

#[derive(Clone, Copy)]
enum Val {
    /// n 32-bit floats per key
    F32(usize),
    /// one u16 per key
    U16,
    /// compressed quaternion (4 x i16) per key
    Quat16,
}

struct Keys {
    n: u32,
    nr: u32,
    ranges: Vec<u8>,
    ts: Vec<u8>,
    vals: Vec<u8>,
    o_r: u32,
    o_t: u32,
    o_v: u32,
}

fn keys(fk: &mut Fake, n: usize, val: Val, nranges: usize) -> Keys {
    let mut r = W::default();
    for k in 0..nranges {
        r.u32(k as u32).u32(n.saturating_sub(1) as u32);
    }
    let mut t = W::default();
    let mut v = W::default();
    for k in 0..n {
        t.u32((k * 333) as u32);
        match val {
            Val::F32(words) => {
                for w in 0..words {
                    v.f32(0.25 * (k + w + 1) as f32);
                }
            }
            Val::U16 => {
                v.u16(0x7FFF - (k as u16) * 100);
            }
            Val::Quat16 => {
                v.i16(0).i16((k as i16) * 1000).i16(0).i16(32767);
            }
        }
    }
    Keys {
        n: n as u32,
        nr: nranges as u32,
        o_r: if nranges > 0 { fk.next() } else { 0 },
        o_t: if n > 0 { fk.next() } else { 0 },
        o_v: if n > 0 { fk.next() } else { 0 },
        ranges: r.0,
        ts: t.0,
        vals: v.0,
    }
}

fn blk<T: M2Parse>(k: &Keys, interp: M2InterpolationType, gseq: i16) -> M2AnimationBlock<T> {
    M2AnimationBlock::new(M2AnimationTrack {
        interpolation_type: interp,
        global_sequence: gseq,
        interpolation_ranges: M2Array::new(k.nr, k.o_r),
        timestamps: M2Array::new(k.n, k.o_t),
        values: M2Vec { array: M2Array::new(k.n, k.o_v), data: Vec::new() },
    })
}
fn empty_blk<T: M2Parse>() -> M2AnimationBlock<T> {
    M2AnimationBlock::new(M2AnimationTrack::default())
}

/// raw entry of the given `*AnimationRaw` type for key data `k`
macro_rules! raw {
    ($ty:ident, $idxf:ident, $idx:expr, $tt:expr, $k:expr) => {
        $ty {
            $idxf: $idx,
            track_type: $tt,
            interpolation_ranges: $k.ranges.clone(),
            timestamps: $k.ts.clone(),
            values: $k.vals.clone(),
            original_ranges_offset: $k.o_r,
            original_timestamps_offset: $k.o_t,
            original_values_offset: $k.o_v,
        }
    };
}

use M2InterpolationType::{Bezier, Hermite, Linear, None as Step};

// ---------------------------------------------------------------------------------------------
// "m2": MD20 models through M2Model::write

const VERSIONS: [(&str, M2Version); 5] =
    [("vanilla", M2Version::Vanilla), ("tbc", M2Version::TBC), ("wotlk", M2Version::WotLK), ("cata", M2Version::Cataclysm), ("mop", M2Version::MoP)];

fn animation(classic: bool, i: usize) -> M2Animation {
    M2Animation {
        animation_id: [0u16, 4, 26][i % 3],
        sub_animation_id: i as u16,
        start_timestamp: [0u32, 1000, 3333][i % 3],
        end_timestamp: if classic { Some([999u32, 3332, 4000][i % 3]) } else { None },
        movement_speed: fl(i + 2),
        flags: [0u32, 0x20, 0x21][i % 3],
        frequency: [32767i16, 100, 0][i % 3],
        padding: 0,
        replay: if classic { Some(M2Range { minimum: 0.0, maximum: 1.0 }) } else { None },
        minimum_extent: if classic { None } else { Some([fl(i), fl(i + 1), fl(i + 2)]) },
        maximum_extent: if classic { None } else { Some([fl(i + 4), fl(i + 5), fl(i + 6)]) },
        extent_radius: if classic { None } else { Some(fl(i + 7)) },
        next_animation: if classic { None } else { Some([-1i16, 2, 0][i % 3]) },
        aliasing: if classic { None } else { Some([0u16, 1, 2][i % 3]) },
    }
}

fn bone_track(m: &mut M2Model, fk: &mut Fake, bone: usize, tt: TrackType, n: usize, interp: M2InterpolationType, gseq: u16) {
    let pre = m.header.version < 264;
    let k = keys(fk, n, if tt == TrackType::Rotation { Val::Quat16 } else { Val::F32(3) }, 0);
    // pre-WotLK tracks carry a ranges array (8 bytes per range)
    let (r_arr, r_raw, r_off) = if pre {
        let o = fk.next();
        let mut w = W::default();
        w.u32(0).u32(n.saturating_sub(1) as u32);
        (Some(M2Array::new(1, o)), Some(w.0), Some(o))
    } else {
        (None, None, None)
    };
    let base = M2TrackBase { interpolation_type: interp, global_sequence: gseq };
    match tt {
        TrackType::Translation => m.bones[bone].translation = M2Track { base, ranges: r_arr, timestamps: M2Array::new(k.n, k.o_t), values: M2Array::new(k.n, k.o_v) },
        TrackType::Rotation => m.bones[bone].rotation = M2Track { base, ranges: r_arr, timestamps: M2Array::new(k.n, k.o_t), values: M2Array::new(k.n, k.o_v) },
        TrackType::Scale => m.bones[bone].scale = M2Track { base, ranges: r_arr, timestamps: M2Array::new(k.n, k.o_t), values: M2Array::new(k.n, k.o_v) },
    }
    m.raw_data.bone_animation_data.push(BoneAnimationRaw {
        bone_index: bone,
        track_type: tt,
        timestamps: k.ts,
        values: k.vals,
        ranges: r_raw,
        original_timestamps_offset: k.o_t,
        original_values_offset: k.o_v,
        original_ranges_offset: r_off,
    });
}

fn particle(i: usize) -> M2ParticleEmitter {
    let g = |k: usize| fl(i * 3 + k);
    M2ParticleEmitter {
        id: [0u32, 7, 9][i % 3],
        flags: M2ParticleFlags::from_bits_retain([0u32, 0x8 | 0x20, 0x1][i % 3]),
        position: v3(i),
        bone_index: [0u16, 1, 2][i % 3],
        texture_index: [1u16, 0, 2][i % 3],
        model_filename: M2Array::new(0, 0),
        parent_emitter: [0xFFFFu16, 0, 1][i % 3],
        geometry_model_unknown: i as u16,
        fallback_model_filename: None,
        blending_type: [0u8, 4, 2][i % 3],
        emitter_type: [M2ParticleEmitterType::Point, M2ParticleEmitterType::Sphere, M2ParticleEmitterType::Bone][i % 3],
        particle_type: [0u8, 1, 2][i % 3],
        head_or_tail: [0u8, 1, 2][(i + 1) % 3],
        texture_file_data_ids: None,
        texture_tile_coordinates: M2Array::new(0, 0),
        enable_encryption: None,
        multi_texture_param0: None,
        multi_texture_param1: None,
        lifetime: g(0),
        emission_rate: g(1),
        emission_area_length: g(2),
        emission_area_width: g(3),
        emission_velocity: g(4),
        min_lifetime: g(5),
        max_lifetime: g(6),
        min_emission_rate: g(7),
        max_emission_rate: g(8),
        min_emission_area_length: g(9),
        max_emission_area_length: g(10),
        min_emission_area_width: g(11),
        max_emission_area_width: g(12),
        min_emission_velocity: g(13),
        max_emission_velocity: g(14),
        position_variation: g(15),
        min_position_variation: g(16),
        max_position_variation: g(17),
        initial_size: g(18),
        min_initial_size: g(19),
        max_initial_size: g(20),
        size_variation: g(21),
        min_size_variation: g(22),
        max_size_variation: g(23),
        horizontal_range: g(24),
        min_horizontal_range: g(25),
        max_horizontal_range: g(26),
        vertical_range: g(27),
        min_vertical_range: g(28),
        max_vertical_range: g(29),
        gravity: g(30),
        min_gravity: g(31),
        max_gravity: g(32),
        initial_velocity: g(33),
        min_initial_velocity: g(34),
        max_initial_velocity: g(35),
        speed_variation: g(36),
        min_speed_variation: g(37),
        max_speed_variation: g(38),
        rotation_speed: g(39),
        min_rotation_speed: g(40),
        max_rotation_speed: g(41),
        initial_rotation: g(42),
        min_initial_rotation: g(43),
        max_initial_rotation: g(44),
        mid_point_color: M2Color::new(g(45), g(46), g(47)),
        color_animation_speed: g(48),
        color_median_time: g(49),
        lifespan_unused: g(50),
        emission_rate_unused: g(51),
        unknown_1: [0u32, 1, 1000][i % 3],
        unknown_2: g(52),
        emission_speed_animation: empty_blk(),
        emission_rate_animation: empty_blk(),
        emission_area_animation: empty_blk(),
        xy_scale_animation: empty_blk(),
        z_scale_animation: empty_blk(),
        color_animation: empty_blk(),
        transparency_animation: empty_blk(),
        size_animation: empty_blk(),
        intensity_animation: empty_blk(),
        z_source_animation: empty_blk(),
        particle_initial_state: None,
        particle_initial_state_variation: None,
        particle_convergence_time: None,
        physics_parameters: None,
    }
}

/// the embedded ModelView of a pre-WotLK model (2 submeshes, 2 batches)
fn embedded_skin(vnum: u32) -> EmbeddedSkinRaw {
    let mut view = vec![0u8; 44];
    put_u32(&mut view, 40, 21); // bone_count_max
    let mut idx = W::default();
    for k in 0..6u16 {
        idx.u16(k % 3);
    }
    let mut tri = W::default();
    for k in [0u16, 1, 2, 2, 1, 3] {
        tri.u16(k);
    }
    let mut sub = W::default();
    for i in 0..2usize {
        // id, level, vertex start/count, triangle start/count, bone count/start
        sub.u16(i as u16).u16(0).u16((i * 3) as u16).u16(3).u16((i * 3) as u16).u16(3).u16(1).u16(i as u16);
        if vnum < 260 {
            sub.f32(fl(i)).f32(fl(i + 1)).f32(fl(i + 2)).f32(fl(i + 3));
        } else {
            sub.u16(1).u16(0);
            for k in 0..7 {
                sub.f32(fl(i + k));
            }
        }
    }
    let mut bat = W::default();
    for i in 0..2u16 {
        bat.u8(0x10).u8(0).u16(0x8000).u16(i).u16(i).u16(0xFFFF).u16(i).u16(0).u16(1).u16(i).u16(0).u16(0).u16(0xFFFF);
    }
    EmbeddedSkinRaw {
        model_view: view,
        indices: idx.0,
        triangles: tri.0,
        properties: vec![0, 0, 0, 0, 1, 0, 0, 0, 2, 1, 0, 0],
        submeshes: sub.0,
        batches: bat.0,
        ..Default::default()
    }
}

const TEX_NAME: &str = "World\\Seed\\Tex_01.blp";

/// optional constructs of the rich model that a defective writer cannot carry
const F_NAME: u8 = 1; // texture 0 named through the writer
const F_EVRANGES: u8 = 2; // event 0 has a ranges array
const F_COMBOS: u8 = 4; // model flag 0x8 (header gains texture_combiner_combos)
/// preference order: as many constructs as the writer handles
const FEATURE_ORDER: [u8; 8] = [7, 3, 5, 6, 1, 2, 4, 0];

fn rich(version: M2Version, feat: u8) -> M2Model {
    let vnum = version.to_header_version();
    let classic = vnum <= 256;
    let mut fk = Fake(0x0100_0000);
    let mut m = M2Model::default();
    m.header = M2Header::new(version);
    // 0x8 (texture combiners) only on request: a defective writer keeps the flag and drops the header field
    m.header.flags = M2ModelFlags::from_bits_retain(0x1 | 0x100 | 0x4000 | if feat & F_COMBOS != 0 { 0x8 } else { 0 });
    m.header.bounding_box_min = [-1.0, -2.0, -3.0];
    m.header.bounding_box_max = [1.0, 2.0, 3.0];
    m.header.bounding_sphere_radius = 3.75;
    m.header.collision_box_min = [-0.5, -0.5, 0.0];
    m.header.collision_box_max = [0.5, 0.5, 2.0];
    m.header.collision_sphere_radius = 2.25;
    if vnum >= 264 {
        m.header.num_skin_profiles = Some(2);
    }
    m.name = Some("World\\Seed\\Rich_01.m2".to_string());
    m.global_sequences = vec![0, 1000, 3333];
    m.animations = (0..3).map(|i| animation(classic, i)).collect();
    m.animation_lookup = vec![0, 0xFFFF, 1];

    for i in 0..3usize {
        let mut b = M2Bone::new([-1i32, 0, 26][i], [-1i16, 0, 1][i]);
        b.flags = M2BoneFlags::from_bits_retain([0u32, 0x200, 0x8 | 0x400][i]);
        b.submesh_id = [0u16, 1, 0][i];
        b.bone_name_crc = if vnum >= 260 { Some(0xDEAD_BE00 + i as u32) } else { None };
        b.pivot = v3(i + 3);
        m.bones.push(b);
    }
    bone_track(&mut m, &mut fk, 0, TrackType::Translation, 3, Linear, 0xFFFF);
    bone_track(&mut m, &mut fk, 0, TrackType::Rotation, 2, Linear, 0xFFFF);
    bone_track(&mut m, &mut fk, 1, TrackType::Scale, 1, Step, 0);
    bone_track(&mut m, &mut fk, 1, TrackType::Rotation, 3, Hermite, 1);
    m.key_bone_lookup = vec![0xFFFF, 0, 2];

    for i in 0..3usize {
        m.vertices.push(M2Vertex {
            position: v3(i * 2),
            bone_weights: [[255u8, 0, 0, 0], [128, 127, 0, 0], [85, 85, 85, 0]][i],
            bone_indices: [[0u8, 0, 0, 0], [0, 1, 0, 0], [0, 1, 2, 0]][i],
            normal: v3(i + 5),
            tex_coords: v2(i + 1),
            tex_coords2: Some(v2(i + 6)),
        });
    }

    // without F_NAME the name is attached after writing (REPAIR, see `repair_m2`)
    for (ty, flg) in [(M2TextureType::Hardcoded, 1u32), (M2TextureType::Hair, 0), (M2TextureType::Monster3, 3)] {
        m.textures.push(M2Texture { texture_type: ty, flags: M2TextureFlags::from_bits_retain(flg), filename: M2ArrayString::default() });
    }
    if feat & F_NAME != 0 {
        // convention of parsed objects: count includes the NUL, the offset is any non-zero placeholder
        m.textures[0].filename = M2ArrayString { string: FixedString { data: TEX_NAME.as_bytes().to_vec() }, array: M2Array::new(TEX_NAME.len() as u32 + 1, 1) };
    }
    for i in 0..3usize {
        m.materials.push(M2Material { flags: M2RenderFlags::from_bits_retain([0u16, 0x15, 0x4][i]), blend_mode: M2BlendMode::from_bits_retain([0u16, 2, 4][i]) });
    }
    m.raw_data.bone_lookup_table = vec![0, 1, 2];
    m.raw_data.texture_lookup_table = vec![0, 1, 2];
    m.raw_data.texture_units = vec![0, 1, 0xFFFF];
    m.raw_data.transparency_lookup_table = vec![0, 1, 0];
    m.raw_data.texture_animation_lookup = vec![0xFFFF, 0, 1];
    let mut bt = W::default();
    for k in [0u16, 1, 2, 2, 1, 3] {
        bt.u16(k);
    }
    m.raw_data.bounding_triangles = bt.0;
    let mut bv = W::default();
    for k in 0..4 * 3 {
        bv.f32(fl(k));
    }
    m.raw_data.bounding_vertices = bv.0;
    let mut bn = W::default();
    for k in 0..2 * 3 {
        bn.f32([0.0, 0.0, 1.0][k % 3]);
    }
    m.raw_data.bounding_normals = bn.0;
    m.raw_data.attachment_lookup_table = vec![0, 0xFFFF, 1, 2];
    m.raw_data.camera_lookup_table = vec![0, 1, 0xFFFF];
    if vnum <= 263 {
        m.raw_data.embedded_skins.push(embedded_skin(vnum));
    }

    // particle emitters: tracks with f32, C2Vector and colour values, one with interpolation ranges
    for i in 0..2usize {
        m.particle_emitters.push(particle(i));
    }
    {
        let k = keys(&mut fk, 2, Val::F32(1), 1);
        m.particle_emitters[0].emission_speed_animation = blk(&k, Linear, -1);
        m.raw_data.particle_animation_data.push(raw!(ParticleAnimationRaw, emitter_index, 0, ParticleTrackType::EmissionSpeed, k));
        let k = keys(&mut fk, 3, Val::F32(2), 0);
        m.particle_emitters[0].xy_scale_animation = blk(&k, Bezier, -1);
        m.raw_data.particle_animation_data.push(raw!(ParticleAnimationRaw, emitter_index, 0, ParticleTrackType::XYScale, k));
        let k = keys(&mut fk, 2, Val::F32(3), 0);
        m.particle_emitters[1].color_animation = blk(&k, Linear, 0);
        m.raw_data.particle_animation_data.push(raw!(ParticleAnimationRaw, emitter_index, 1, ParticleTrackType::Color, k));
        let k = keys(&mut fk, 1, Val::F32(1), 0);
        m.particle_emitters[1].z_source_animation = blk(&k, Step, -1);
        m.raw_data.particle_animation_data.push(raw!(ParticleAnimationRaw, emitter_index, 1, ParticleTrackType::ZSource, k));
    }

    for i in 0..2usize {
        m.ribbon_emitters.push(M2RibbonEmitter {
            bone_index: i as u32,
            position: v3(i + 1),
            texture_indices: M2Array::new(0, 0),
            material_indices: M2Array::new(0, 0),
            color_animation: empty_blk(),
            alpha_animation: empty_blk(),
            height_above_animation: empty_blk(),
            height_below_animation: empty_blk(),
            edges_per_second: 15.0,
            edge_lifetime: 0.5,
            gravity: fl(i + 4),
            texture_rows: 1,
            texture_cols: [1u16, 4][i],
            texture_slice: if vnum >= 272 { Some(i as u16) } else { None },
            variation: if vnum >= 272 { Some(i as u16 + 9) } else { None },
            id: i as u32 + 1,
            flags: [0u32, 1][i],
        });
    }
    {
        let k = keys(&mut fk, 2, Val::F32(3), 0);
        m.ribbon_emitters[0].color_animation = blk(&k, Linear, -1);
        m.raw_data.ribbon_animation_data.push(raw!(RibbonAnimationRaw, emitter_index, 0, RibbonTrackType::Color, k));
        let k = keys(&mut fk, 2, Val::F32(1), 1);
        m.ribbon_emitters[0].alpha_animation = blk(&k, Linear, -1);
        m.raw_data.ribbon_animation_data.push(raw!(RibbonAnimationRaw, emitter_index, 0, RibbonTrackType::Alpha, k));
        let k = keys(&mut fk, 1, Val::F32(1), 0);
        m.ribbon_emitters[1].height_below_animation = blk(&k, Step, 2);
        m.raw_data.ribbon_animation_data.push(raw!(RibbonAnimationRaw, emitter_index, 1, RibbonTrackType::HeightBelow, k));
    }

    for ty in [M2TextureAnimationType::Scroll, M2TextureAnimationType::KeyFrame] {
        m.texture_animations.push(M2TextureAnimation::new(ty));
    }
    {
        let k = keys(&mut fk, 2, Val::F32(1), 0);
        m.texture_animations[0].translation_u = blk(&k, Linear, 0);
        m.raw_data.texture_animation_data.push(raw!(TextureAnimationRaw, animation_index, 0, TextureTrackType::TranslationU, k));
        let k = keys(&mut fk, 3, Val::F32(1), 1);
        m.texture_animations[1].rotation = blk(&k, Linear, -1);
        m.raw_data.texture_animation_data.push(raw!(TextureAnimationRaw, animation_index, 1, TextureTrackType::Rotation, k));
        let k = keys(&mut fk, 1, Val::F32(1), 0);
        m.texture_animations[1].scale_v = blk(&k, Step, -1);
        m.raw_data.texture_animation_data.push(raw!(TextureAnimationRaw, animation_index, 1, TextureTrackType::ScaleV, k));
    }

    for _ in 0..2 {
        m.color_animations.push(M2ColorAnimation { color: empty_blk(), alpha: empty_blk() });
    }
    {
        let k = keys(&mut fk, 2, Val::F32(3), 0);
        m.color_animations[0].color = blk(&k, Linear, -1);
        m.raw_data.color_animation_data.push(raw!(ColorAnimationRaw, animation_index, 0, ColorTrackType::Color, k));
        let k = keys(&mut fk, 3, Val::U16, 0);
        m.color_animations[0].alpha = blk(&k, Linear, -1);
        m.raw_data.color_animation_data.push(raw!(ColorAnimationRaw, animation_index, 0, ColorTrackType::Alpha, k));
        let k = keys(&mut fk, 1, Val::U16, 1);
        m.color_animations[1].alpha = blk(&k, Step, 1);
        m.raw_data.color_animation_data.push(raw!(ColorAnimationRaw, animation_index, 1, ColorTrackType::Alpha, k));
    }

    for _ in 0..2 {
        m.transparency_animations.push(M2TransparencyAnimation::new());
    }
    {
        let k = keys(&mut fk, 2, Val::F32(1), 0);
        m.transparency_animations[1].alpha = blk(&k, Linear, -1);
        m.raw_data.transparency_animation_data.push(raw!(TransparencyAnimationRaw, animation_index, 1, TransparencyTrackType::Alpha, k));
    }

    // events: timestamps; ranges only with F_EVRANGES (a defective writer writes range bytes it neither references nor counts)
    for i in 0..3usize {
        let mut e = M2Event::new([*b"$CST", *b"$DTH", *b"$HIT"][i], [2i16, -1, 0][i]);
        e.data = [0u32, 1234, 7][i];
        e.position = [fl(i), fl(i + 1), fl(i + 2)];
        e.global_sequence = -1;
        if i != 1 {
            let k = keys(&mut fk, i + 1, Val::F32(0), 0);
            e.times = M2Array::new(k.n, k.o_t);
            let (mut ranges, mut o_r) = (Vec::new(), 0);
            if i == 0 && feat & F_EVRANGES != 0 {
                o_r = fk.next();
                ranges = u32s(&[0, 333]);
                e.ranges = M2Array::new(1, o_r);
            }
            m.raw_data.event_data.push(EventRaw { event_index: i, ranges, original_ranges_offset: o_r, timestamps: k.ts, original_timestamps_offset: k.o_t });
        }
        m.events.push(e);
    }

    for i in 0..3usize {
        let mut a = M2Attachment::new([0u32, 11, 19][i], [2i32, -1, 0][i]);
        a.position = v3(i + 4);
        m.attachments.push(a);
    }
    {
        let k = keys(&mut fk, 2, Val::F32(1), 0);
        m.attachments[1].scale_animation = blk(&k, Linear, -1);
        m.raw_data.attachment_animation_data.push(raw!(AttachmentAnimationRaw, attachment_index, 1, AttachmentTrackType::Scale, k));
    }

    for i in 0..2usize {
        let mut c = M2Camera::new(if vnum >= 264 { i as u32 + 1 } else { 0 });
        c.camera_type = [0u32, 1][i];
        c.fov = 0.75;
        c.far_clip = 100.0;
        c.near_clip = 0.25;
        c.position_base = v3(i);
        c.target_position_base = v3(i + 6);
        if vnum >= 264 {
            c.flags = M2CameraFlags::from_bits_retain([0u16, 1][i]);
        }
        m.cameras.push(c);
    }
    {
        let k = keys(&mut fk, 2, Val::F32(3), 0);
        m.cameras[0].position_animation = blk(&k, Hermite, -1);
        m.raw_data.camera_animation_data.push(raw!(CameraAnimationRaw, camera_index, 0, CameraTrackType::Position, k));
        let k = keys(&mut fk, 1, Val::F32(3), 0);
        m.cameras[0].target_position_animation = blk(&k, Step, -1);
        m.raw_data.camera_animation_data.push(raw!(CameraAnimationRaw, camera_index, 0, CameraTrackType::TargetPosition, k));
        let k = keys(&mut fk, 2, Val::F32(1), 1);
        m.cameras[1].roll_animation = blk(&k, Linear, 0);
        m.raw_data.camera_animation_data.push(raw!(CameraAnimationRaw, camera_index, 1, CameraTrackType::Roll, k));
    }

    for i in 0..2usize {
        let mut x = M2Light::new([M2LightType::Directional, M2LightType::Point][i], [0xFFFFu16, 1][i], i as u32);
        x.position = v3(i + 2);
        x.flags = M2LightFlags::from_bits_retain([1u16, 0][i]);
        m.lights.push(x);
    }
    {
        let k = keys(&mut fk, 2, Val::F32(3), 0);
        m.lights[0].ambient_color_animation = blk(&k, Linear, -1);
        m.raw_data.light_animation_data.push(raw!(LightAnimationRaw, light_index, 0, LightTrackType::AmbientColor, k));
        let k = keys(&mut fk, 1, Val::F32(3), 0);
        m.lights[1].diffuse_color_animation = blk(&k, Step, -1);
        m.raw_data.light_animation_data.push(raw!(LightAnimationRaw, light_index, 1, LightTrackType::DiffuseColor, k));
        let k = keys(&mut fk, 2, Val::F32(1), 0);
        m.lights[1].attenuation_start_animation = blk(&k, Linear, -1);
        m.raw_data.light_animation_data.push(raw!(LightAnimationRaw, light_index, 1, LightTrackType::AttenuationStart, k));
        let k = keys(&mut fk, 1, Val::F32(1), 1);
        m.lights[1].visibility_animation = blk(&k, Step, 2);
        m.raw_data.light_animation_data.push(raw!(LightAnimationRaw, light_index, 1, LightTrackType::Visibility, k));
    }
    m
}

fn minimal(version: M2Version) -> M2Model {
    let mut m = M2Model::default();
    m.header = M2Header::new(version);
    m
}

fn write_m2(m: &M2Model) -> Result<Vec<u8>, String> {
    guarded("M2Model::write", || {
        let mut c = Cursor::new(Vec::new());
        m.write(&mut c).map_err(|e| e.to_string())?;
        Ok(c.into_inner())
    })
}

/// REPAIR of writer output, each step only where the defect shows in the bytes: attach the name
/// of texture 0 (appended to the file) when the record has none, set the batch count of the
/// embedded ModelView when it is not the number of 24-byte batches that were handed over.
fn repair_m2(bytes: &mut Vec<u8>, tag: &str, notes: &mut Vec<String>) -> Result<(), String> {
    let hdr = guarded("M2Header::parse", || M2Header::parse(&mut Cursor::new(&bytes[..])).map_err(|e| e.to_string()))?;
    if hdr.textures.count > 0 {
        let rec = hdr.textures.offset as usize;
        if rec + 16 > bytes.len() {
            return Err("texture records outside the written file".into());
        }
        if get_u32(bytes, rec + 8) == 0 {
            let at = bytes.len() as u32;
            bytes.extend_from_slice(TEX_NAME.as_bytes());
            bytes.push(0);
            put_u32(bytes, rec + 8, TEX_NAME.len() as u32 + 1);
            put_u32(bytes, rec + 12, at);
            notes.push(format!("{tag}: texture name appended and texture record patched by hand"));
        }
    }
    if hdr.version <= 263 && hdr.views.count > 0 {
        let view = hdr.views.offset as usize;
        if view + 44 > bytes.len() {
            return Err("embedded ModelView outside the written file".into());
        }
        if get_u32(bytes, view + 32) != 2 {
            if get_u32(bytes, view + 36) == 0 {
                return Err("embedded ModelView has no batches offset".into());
            }
            put_u32(bytes, view + 32, 2);
            notes.push(format!("{tag}: batch count of the embedded ModelView patched by hand"));
        }
    }
    Ok(())
}

/// The rich model of a version: the variant with the most optional constructs whose written (and,
/// where needed, repaired) bytes read back with everything the model was built from.
fn rich_bytes(tag: &str, v: M2Version, notes: &mut Vec<String>) -> Result<Vec<u8>, String> {
    let mut last = String::new();
    for feat in FEATURE_ORDER {
        let mut n = Vec::new();
        let attempt = (|| {
            let mut b = write_m2(&rich(v, feat))?;
            repair_m2(&mut b, tag, &mut n)?;
            let m = guarded("M2Model::parse", || M2Model::parse(&mut Cursor::new(&b[..])).map_err(|e| e.to_string()))?;
            check_rich(&m, tag, Some(feat))?;
            Ok::<Vec<u8>, String>(b)
        })();
        match attempt {
            Ok(b) => {
                let mut left = Vec::new();
                if feat & F_NAME == 0 {
                    left.push("texture name through the writer");
                }
                if feat & F_EVRANGES == 0 {
                    left.push("event ranges");
                }
                if feat & F_COMBOS == 0 {
                    left.push("model flag 0x8");
                }
                if !left.is_empty() {
                    notes.push(format!("{tag}: writer cannot carry: {}", left.join(", ")));
                }
                notes.extend(n);
                return Ok(b);
            }
            Err(e) => last = e,
        }
    }
    Err(format!("{tag}: no variant of the rich model is read back as built; last: {last}"))
}

fn m2_seeds(out: &mut Vec<RawSeed>, notes: &mut Vec<String>) -> Result<(), String> {
    for (tag, v) in VERSIONS {
        let b = rich_bytes(&format!("{tag}_rich"), v, notes)?;
        out.push(RawSeed::new("m2", format!("{tag}_rich"), b));
        let b = write_m2(&minimal(v)).map_err(|e| format!("{tag}_min: {e}"))?;
        out.push(RawSeed::new("m2", format!("{tag}_min"), b));
    }
    Ok(())
}

// ---------------------------------------------------------------------------------------------
// "m2": MD21 containers (no writer in /repo; layouts are the ones `M2Model::parse_chunked` reads)

fn chunk(out: &mut Vec<u8>, magic: &[u8; 4], payload: &[u8]) {
    out.extend_from_slice(magic);
    out.extend_from_slice(&(payload.len() as u32).to_le_bytes());
    out.extend_from_slice(payload);
}

fn u32s(v: &[u32]) -> Vec<u8> {
    v.iter().flat_map(|x| x.to_le_bytes()).collect()
}
fn u16s(v: &[u16]) -> Vec<u8> {
    v.iter().flat_map(|x| x.to_le_bytes()).collect()
}
fn f32s(v: &[f32]) -> Vec<u8> {
    v.iter().flat_map(|x| x.to_le_bytes()).collect()
}

/// one 28-byte animation block header
fn block_hdr(w: &mut W, interp: u16, gseq: i16, ranges: (u32, u32), ts: (u32, u32), vals: (u32, u32)) {
    w.u16(interp).i16(gseq).u32(ranges.0).u32(ranges.1).u32(ts.0).u32(ts.1).u32(vals.0).u32(vals.1);
}

fn txac_payload() -> Vec<u8> {
    const ENTRY: u32 = 4 + 5 * 28 + 5 * 4 + 4;
    let data_at = 4 + 2 * ENTRY;
    let mut w = W::default();
    w.u32(2);
    for i in 0..2u32 {
        w.u16([1u16, 4][i as usize]).u16(0);
        for b in 0..5 {
            if i == 0 && b == 0 {
                // translation_u of the first entry: two keys stored behind the entries (offsets are relative to the payload)
                block_hdr(&mut w, 1, -1, (0, 0), (2, data_at), (2, data_at + 8));
            } else {
                block_hdr(&mut w, 0, -1, (0, 0), (0, 0), (0, 0));
            }
        }
        w.f32(1.0).f32(0.0).f32(-1.0).f32(1.5).f32(0.25);
        w.u8([1u8, 4][i as usize]).u8([0u8, 2][i as usize]).u8([0u8, 3][i as usize]).u8(0);
    }
    w.u32(0).u32(500).f32(0.0).f32(1.0);
    w.0
}

fn dpiv_payload() -> Vec<u8> {
    let mut w = W::default();
    // (count, offset) of positions, face normals, indices, flags; offsets relative to the payload
    w.u32(3).u32(32).u32(1).u32(68).u32(3).u32(80).u32(1).u32(86);
    for k in 0..9 {
        w.f32(fl(k));
    }
    w.f32(0.0).f32(0.0).f32(1.0);
    w.u16(0).u16(1).u16(2);
    w.u16(0x8);
    w.0
}

fn md21(md20: &[u8], level: u8) -> Vec<u8> {
    let mut o = Vec::new();
    chunk(&mut o, b"MD21", md20);
    if level == 0 {
        return o;
    }
    chunk(&mut o, b"SFID", &u32s(&[1_000_001, 1_000_002, 1_000_003, 1_000_004]));
    if level >= 2 {
        // animation file ids: (anim id u16, sub anim u16, file id u32) per entry
        let mut w = W::default();
        w.u16(4).u16(0).u32(2_000_001).u16(26).u16(1).u32(2_000_002);
        chunk(&mut o, b"AFID", &w.0);
    }
    chunk(&mut o, b"TXID", &u32s(&[0, 3_000_001, 3_000_002]));
    if level < 2 {
        return o;
    }
    chunk(&mut o, b"PFID", &u32s(&[4_000_001]));
    chunk(&mut o, b"SKID", &u32s(&[5_000_001]));
    chunk(&mut o, b"BFID", &u32s(&[6_000_001, 6_000_002]));
    let mut w = W::default();
    for i in 0..2u32 {
        w.f32(50.0 * (i + 1) as f32).u16(i as u16).u32(300 - 100 * i).u32(200 - 50 * i);
    }
    chunk(&mut o, b"LDV1", &w.0);
    if level < 3 {
        return o;
    }
    chunk(&mut o, b"TXAC", &txac_payload());
    // EXPT: tagged records: 0 = emitter (12 bytes), 1 = system (21 bytes), other = u32 length + bytes
    let mut w = W::default();
    w.u8(0).u8(2).u8(1).f32(1.5).u8(1).u8(0).f32(0.5);
    w.u8(1).u32(7).u32(256).u8(2).f32(0.1).f32(0.5).f32(0.25);
    w.u8(9).u32(3).bytes(b"abc");
    chunk(&mut o, b"EXPT", &w.0);
    // EXP2: counts, then emitters (13 bytes) and systems (25 bytes)
    let mut w = W::default();
    w.u32(2).u32(1);
    for i in 0..2u8 {
        w.u8(i).u8(1).f32(2.0).u8(0).u8(1).f32(0.75).u8(i);
    }
    w.u32(3).u32(64).u8(1).f32(0.2).f32(0.4).f32(0.6).f32(0.3);
    chunk(&mut o, b"EXP2", &w.0);
    chunk(&mut o, b"PABC", &u16s(&[1, 5, 10]));
    let mut w = W::default();
    w.u32(2).u16(0).f32(1.0).u8(0).u16(1).f32(0.5).u8(2);
    w.u32(1).u8(1).u8(2).f32(0.5);
    chunk(&mut o, b"PADC", &w.0);
    let mut w = W::default();
    for i in 0..2usize {
        for k in 0..7 {
            w.f32(fl(i * 7 + k));
        }
    }
    chunk(&mut o, b"PSBC", &w.0);
    let mut w = W::default();
    w.u32(1).u32(4).u32(100).bytes(b"$CST");
    w.u32(2).u32(0).u32(200);
    chunk(&mut o, b"PEDC", &w.0);
    let mut w = W::default();
    w.u32(3).u32(1).u32(1);
    for k in 0..9 {
        w.f32(fl(k));
    }
    w.u16(0).u16(1).u16(2).u16(0);
    w.u32(1).f32(0.5).f32(0.25);
    chunk(&mut o, b"PCOL", &w.0);
    let mut w = W::default();
    w.f32(10.0).f32(0.0).f32(0.0).f32(1.0);
    for k in 0..9 {
        w.f32(if k % 4 == 0 { 1.0 } else { 0.0 });
    }
    w.u32(3).bytes(b"PHYSBLOB");
    chunk(&mut o, b"PFDC", &w.0);
    chunk(&mut o, b"RPID", &u32s(&[7_000_001, 7_000_002]));
    chunk(&mut o, b"GPID", &u32s(&[8_000_001]));
    chunk(&mut o, b"WFV1", &f32s(&[1.0, 0.5, 0.25]));
    chunk(&mut o, b"WFV2", &f32s(&[1.0, 0.5, 0.25, 2.0, 3.0]));
    chunk(&mut o, b"WFV3", &f32s(&[1.0, 0.5, 0.25, 2.0, 3.0, 0.0, 0.0, -1.0]));
    chunk(&mut o, b"PGD1", &u16s(&[0, 1, 0xFFFF]));
    let mut w = W::default();
    w.u32(2).f32(10.0).f32(20.0).u32(2).f32(0.5).f32(1.0);
    chunk(&mut o, b"EDGF", &w.0);
    let mut w = W::default();
    w.f32(0.5).u8(1);
    chunk(&mut o, b"NERF", &w.0);
    chunk(&mut o, b"DETL", &f32s(&[0.25, 0.5, 0.75]));
    chunk(&mut o, b"DBOC", &f32s(&[1.0, 2.0, 3.0, 4.0]));
    chunk(&mut o, b"AFRA", &u32s(&[0, 100, 200]));
    chunk(&mut o, b"DPIV", &dpiv_payload());
    // an unknown chunk is skipped by its size
    chunk(&mut o, b"XXXX", &[1, 2, 3, 4, 5]);
    o
}

fn md21_seeds(out: &mut Vec<RawSeed>) -> Result<(), String> {
    let rich_mop = rich_bytes("md21 payload", M2Version::MoP, &mut Vec::new())?;
    let min_mop = write_m2(&minimal(M2Version::MoP))?;
    out.push(RawSeed::new("m2", "md21_only", md21(&min_mop, 0)));
    out.push(RawSeed::new("m2", "md21_sfid_txid", md21(&rich_mop, 1)));
    out.push(RawSeed::new("m2", "md21_fileids", md21(&min_mop, 2)));
    out.push(RawSeed::new("m2", "md21_all", md21(&rich_mop, 3)));
    Ok(())
}

// ---------------------------------------------------------------------------------------------
// "skin"

fn submesh(i: usize) -> SkinSubmesh {
    SkinSubmesh {
        id: [0u16, 1, 1001][i % 3],
        level: 0,
        vertex_start: (i * 2) as u16,
        vertex_count: 2,
        triangle_start: (i * 3) as u16,
        triangle_count: 3,
        bone_count: [1u16, 4, 2][i % 3],
        bone_start: i as u16,
        bone_influence: [1u16, 4, 2][i % 3],
        center: [fl(i), fl(i + 1), fl(i + 2)],
        sort_center: [fl(i + 3), fl(i + 4), fl(i + 5)],
        bounding_radius: 1.0 + i as f32,
    }
}
fn batch(i: usize) -> SkinBatch {
    SkinBatch {
        flags: [0u8, 0x10, 0x40][i % 3],
        priority_plane: [0i8, -1, 1][i % 3],
        shader_id: [0u16, 0x8000, 0x4011][i % 3],
        skin_section_index: i as u16,
        geoset_index: (i + 1) as u16,
        color_index: [0xFFFFu16, 0, 1][i % 3],
        material_index: i as u16 + 2,
        material_layer: i as u16,
        texture_count: [1u16, 2, 1][i % 3],
        texture_combo_index: i as u16 + 3,
        texture_coord_combo_index: i as u16 + 4,
        texture_weight_combo_index: i as u16 + 5,
        texture_transform_combo_index: [0xFFFFu16, 6, 7][i % 3],
    }
}

/// (name, layout: None = old header without version field, indices, triangles, vertices with bone indices, submeshes, batches)
const SKINS: [(&str, Option<M2Version>, usize, usize, usize, usize, usize); 8] = [
    // old layout: the first count must be > 4 or SkinFile::parse takes the file for the new layout
    ("skin_old_3sub", None, 6, 3, 6, 3, 3),
    ("skin_old_2sub", None, 8, 2, 4, 2, 2),
    ("skin_old_nobatch", None, 5, 1, 0, 1, 0),
    ("skin_new_cata_3sub", Some(M2Version::Cataclysm), 6, 3, 6, 3, 3),
    ("skin_new_mop_2sub", Some(M2Version::MoP), 4, 2, 4, 2, 2),
    ("skin_new_legion_2sub", Some(M2Version::Legion), 6, 2, 6, 2, 3),
    ("skin_new_bfa_2sub", Some(M2Version::BfA), 6, 2, 6, 2, 2),
    ("skin_new_empty", Some(M2Version::Cataclysm), 0, 0, 0, 0, 0),
];

/// the parsed skin has the content `skin` builds for these counts
fn skin_content(p: &SkinFile, new_layout: bool, n_idx: usize, n_tri: usize, n_verts: usize, n_sub: usize, n_bat: usize) -> Result<(), String> {
    if p.is_new_format() != new_layout {
        return Err("parsed as the other header layout".into());
    }
    let got = (p.indices().len(), p.triangles().len(), p.bone_indices().len(), p.submeshes().len(), p.batches().len());
    if got != (n_idx, n_tri * 3, n_verts * 4, n_sub, n_bat) {
        return Err(format!("section lengths read back as {got:?}"));
    }
    for (k, bt) in p.batches().iter().enumerate() {
        let w = batch(k);
        if (bt.flags, bt.shader_id, bt.skin_section_index, bt.material_index, bt.texture_weight_combo_index, bt.texture_transform_combo_index)
            != (w.flags, w.shader_id, w.skin_section_index, w.material_index, w.texture_weight_combo_index, w.texture_transform_combo_index)
        {
            return Err(format!("batch {k} reads back differently from what was written: {bt:?}"));
        }
    }
    for (k, sm) in p.submeshes().iter().enumerate() {
        let w = submesh(k);
        if (sm.id, sm.bone_start, sm.bone_influence, sm.center, sm.bounding_radius) != (w.id, w.bone_start, w.bone_influence, w.center, w.bounding_radius) {
            return Err(format!("submesh {k} reads back differently from what was written: {sm:?}"));
        }
    }
    Ok(())
}

fn skin(name: &str, layout: Option<M2Version>, n_idx: usize, n_tri: usize, n_verts: usize, n_sub: usize, n_bat: usize, notes: &mut Vec<String>) -> Result<Vec<u8>, String> {
    let indices: Vec<u16> = (0..n_idx).map(|k| k as u16).collect();
    let triangles: Vec<u16> = (0..n_tri * 3).map(|k| (k % n_idx.max(1)) as u16).collect();
    let bone_indices: Vec<u8> = (0..n_verts * 4).map(|k| if k % 4 == 0 { (k / 4) as u8 } else { 0 }).collect();
    let submeshes: Vec<SkinSubmesh> = (0..n_sub).map(submesh).collect();
    let batches: Vec<SkinBatch> = (0..n_bat).map(batch).collect();
    let file = match layout {
        None => {
            let mut h = OldSkinHeader::new();
            h.bone_count_max = 21;
            SkinFile::Old(OldSkin { header: h, indices, triangles, bone_indices, submeshes, batches })
        }
        Some(v) => {
            let mut h = SkinHeader::new(v);
            h.vertex_count = n_idx as u32;
            if let Some(c) = h.center_position.as_mut() {
                *c = [1.0, -2.0, 0.5];
            }
            if let Some(c) = h.center_bounds.as_mut() {
                *c = 7.25;
            }
            SkinFile::New(Skin { header: h, indices, triangles, bone_indices, submeshes, batches })
        }
    };
    let mut b = guarded("SkinFile::write", || {
        let mut c = Cursor::new(Vec::new());
        file.write(&mut c).map_err(|e| e.to_string())?;
        Ok(c.into_inner())
    })?;
    let reads_back = |b: &[u8]| {
        let p = guarded("parse_skin", || wow_m2::parse_skin(&mut Cursor::new(b)).map_err(|e| e.to_string()))?;
        skin_content(&p, layout.is_some(), n_idx, n_tri, n_verts, n_sub, n_bat)
    };
    let verbatim = reads_back(&b);
    if verbatim.is_ok() {
        return Ok(b);
    }
    // REPAIR (only when the verbatim file does not read back and the defect shows in the bytes):
    // a writer that advances by 40 bytes per 48-byte submesh stores a batches offset that points
    // into the submesh records
    let (sub_off_at, bat_off_at) = if layout.is_some() { (48, 56) } else { (32, 40) };
    if n_sub > 0 && n_bat > 0 && b.len() >= bat_off_at + 4 {
        let want = get_u32(&b, sub_off_at) + 48 * n_sub as u32;
        if get_u32(&b, bat_off_at) != want {
            put_u32(&mut b, bat_off_at, want);
            if reads_back(&b).is_ok() {
                notes.push(format!("{name}: batches offset patched by hand to submeshes offset + 48 * {n_sub}"));
                return Ok(b);
            }
        }
    }
    Err(format!("{name}: written skin does not read back as built: {}", verbatim.unwrap_err()))
}

fn skin_seeds(out: &mut Vec<RawSeed>, notes: &mut Vec<String>) -> Result<(), String> {
    for (name, layout, n_idx, n_tri, n_verts, n_sub, n_bat) in SKINS {
        out.push(RawSeed::new("skin", name, skin(name, layout, n_idx, n_tri, n_verts, n_sub, n_bat, notes)?));
    }
    Ok(())
}

// ---------------------------------------------------------------------------------------------
// "anim"

/// (name, modern container, per section the (track mask, keys) of every bone)
const ANIMS: [(&str, bool, &[&[(u32, usize)]]); 8] = [
    ("anim_legacy_1sec_0bones", false, &[&[]]),
    ("anim_legacy_1sec_1bone", false, &[&[(7, 2)]]),
    ("anim_legacy_3sec_3bones", false, &[&[(1, 3), (2, 1), (0, 0)], &[(4, 2)], &[]]),
    ("anim_modern_0sec", true, &[]),
    ("anim_modern_1sec_0bones", true, &[&[]]),
    ("anim_modern_2sec_emptybones", true, &[&[(0, 0), (0, 0)], &[(0, 0)]]),
    ("anim_modern_1sec_2bones", true, &[&[(7, 2), (2, 3)]]),
    ("anim_modern_3sec_mixed", true, &[&[(1, 3), (0, 0), (6, 1)], &[], &[(4, 2)]]),
];

fn anim_bone(j: usize, mask: u32, nkeys: usize) -> AnimBoneAnimation {
    let ts: Vec<u32> = (0..nkeys).map(|k| (k * 333) as u32).collect();
    AnimBoneAnimation {
        // the container stores nothing for a bone without tracks
        bone_id: if mask == 0 { 0 } else { [5u32, 0, 17][j % 3] },
        translation: if mask & 1 != 0 { Some(AnimTranslation { timestamps: ts.clone(), translations: (0..nkeys).map(|k| v3(k + j)).collect() }) } else { None },
        rotation: if mask & 2 != 0 {
            Some(AnimRotation { timestamps: ts.clone(), rotations: (0..nkeys).map(|k| Quaternion { x: 0.0, y: fl(k), z: 0.0, w: 1.0 }).collect() })
        } else {
            None
        },
        scaling: if mask & 4 != 0 { Some(AnimScaling { timestamps: ts.clone(), scalings: (0..nkeys).map(|k| v3(k + 4)).collect() }) } else { None },
    }
}

/// the parsed modern file has the sections / bones / keys of `shape`
fn anim_content(a: &AnimFile, shape: &[&[(u32, usize)]]) -> Result<(), String> {
    if a.format != AnimFormat::Modern {
        return Err(format!("detected as {:?}", a.format));
    }
    if a.sections.len() != shape.len() {
        return Err(format!("{} sections read back, built with {}", a.sections.len(), shape.len()));
    }
    for (s, (sec, bones)) in a.sections.iter().zip(shape.iter()).enumerate() {
        if sec.bone_animations.len() != bones.len() {
            return Err(format!("section {s}: {} bones read back, built with {}", sec.bone_animations.len(), bones.len()));
        }
        for (j, (got, (mask, n))) in sec.bone_animations.iter().zip(bones.iter()).enumerate() {
            let w = anim_bone(j, *mask, *n);
            let same = got.bone_id == w.bone_id
                && got.translation.as_ref().map(|t| (t.timestamps.clone(), t.translations.clone())) == w.translation.as_ref().map(|t| (t.timestamps.clone(), t.translations.clone()))
                && got.rotation.as_ref().map(|t| (t.timestamps.clone(), t.rotations.clone())) == w.rotation.as_ref().map(|t| (t.timestamps.clone(), t.rotations.clone()))
                && got.scaling.as_ref().map(|t| (t.timestamps.clone(), t.scalings.clone())) == w.scaling.as_ref().map(|t| (t.timestamps.clone(), t.scalings.clone()));
            if !same {
                return Err(format!("section {s} bone {j} reads back differently: {got:?}"));
            }
        }
    }
    Ok(())
}

fn anim(name: &str, modern: bool, shape: &[&[(u32, usize)]], notes: &mut Vec<String>) -> Result<Vec<u8>, String> {
    let sections: Vec<AnimSection> = shape
        .iter()
        .enumerate()
        .map(|(s, bones)| AnimSection {
            header: AnimSectionHeader { magic: *b"AFID", id: [1u32, 60, 143][s % 3], start: [0u32, 100, 7][s % 3], end: [0u32, 3333, 999][s % 3] },
            bone_animations: bones.iter().enumerate().map(|(j, (mask, n))| anim_bone(j, *mask, *n)).collect(),
        })
        .collect();
    let ns = sections.len() as u32;
    let file = if modern {
        let entries = sections.iter().map(|s| AnimEntry { id: s.header.id, offset: 0, size: 0 }).collect();
        AnimFile { format: AnimFormat::Modern, metadata: AnimMetadata::Modern { header: AnimHeader { magic: ANIM_MAGIC, version: 1, id_count: ns, unknown: 0, anim_entry_offset: 20 }, entries }, sections }
    } else {
        AnimFile {
            format: AnimFormat::Legacy,
            metadata: AnimMetadata::Legacy { file_size: 0, animation_count: ns, structure_hints: LegacyStructureHints { appears_valid: true, estimated_blocks: ns, has_timestamps: false } },
            sections,
        }
    };
    let mut b = guarded("AnimFile::write", || {
        let mut c = Cursor::new(Vec::new());
        file.write(&mut c).map_err(|e| e.to_string())?;
        Ok(c.into_inner())
    })?;
    if !modern {
        // the legacy parser does not decode sections: acceptance is all that can be asked
        guarded("AnimFile::parse", || AnimFile::parse(&mut Cursor::new(&b[..])).map(|_| ()).map_err(|e| e.to_string())).map_err(|e| format!("{name}: {e}"))?;
        return Ok(b);
    }
    let reads_back = |b: &[u8]| {
        let a = guarded("AnimFile::parse", || AnimFile::parse(&mut Cursor::new(b)).map_err(|e| e.to_string()))?;
        anim_content(&a, shape)
    };
    let verbatim = reads_back(&b);
    if verbatim.is_ok() {
        return Ok(b);
    }
    // REPAIR (only when the verbatim file does not read back): a parser that computes the bone
    // count of a section as (entry.size - 16) / 4 needs the size of header + offset table there,
    // the writer stores the length of the whole section (offset table + key data)
    let mut patched = 0;
    for (s, bones) in shape.iter().enumerate() {
        let at = 20 + 12 * s + 8;
        let want = 16 + 4 * bones.len() as u32;
        if at + 4 <= b.len() && get_u32(&b, at) != want {
            put_u32(&mut b, at, want);
            patched += 1;
        }
    }
    if patched > 0 && reads_back(&b).is_ok() {
        notes.push(format!("{name}: entry.size of {patched} section(s) patched by hand to 16 + 4 * bones"));
        return Ok(b);
    }
    Err(format!("{name}: written anim does not read back as built: {}", verbatim.unwrap_err()))
}

fn anim_seeds(out: &mut Vec<RawSeed>, notes: &mut Vec<String>) -> Result<(), String> {
    for (name, modern, shape) in ANIMS {
        out.push(RawSeed::new("anim", name, anim(name, modern, shape, notes)?));
    }
    Ok(())
}

// ---------------------------------------------------------------------------------------------
// interface

fn build(notes: &mut Vec<String>) -> Result<Vec<RawSeed>, String> {
    let mut out = Vec::new();
    m2_seeds(&mut out, notes)?;
    md21_seeds(&mut out)?;
    skin_seeds(&mut out, notes)?;
    anim_seeds(&mut out, notes)?;
    Ok(out)
}

/// All seeds (deterministic). A seed whose construction fails is reported by `selftest`.
pub fn seeds() -> Vec<RawSeed> {
    let mut out = Vec::new();
    let mut notes = Vec::new();
    // each group separately so that one failing writer call does not lose the other groups
    let _ = m2_seeds(&mut out, &mut notes);
    let _ = md21_seeds(&mut out);
    let _ = skin_seeds(&mut out, &mut notes);
    let _ = anim_seeds(&mut out, &mut notes);
    out
}

/// Additional seeds of the thorough tier: the header versions the writer emits beyond MoP (MD20 rich +
/// minimal each, MD21 containers around Legion / Shadowlands payloads), skins and anims with more elements
/// per section (old layout, WotLK / WoD / Shadowlands / Dragonflight headers).  A seed whose construction or read-back fails is
/// left out (the writer is being fixed while this check exists).
pub fn seeds_thorough_extra() -> Vec<RawSeed> {
    const MORE_VERSIONS: [(&str, M2Version); 6] = [
        ("wod", M2Version::WoD),
        ("legion", M2Version::Legion),
        ("bfa", M2Version::BfA),
        ("shadowlands", M2Version::Shadowlands),
        ("dragonflight", M2Version::Dragonflight),
        ("tww", M2Version::TheWarWithin),
    ];
    let mut out = Vec::new();
    let mut notes = Vec::new();
    let accepted = |b: &[u8]| guarded("parse_m2", || wow_m2::parse_m2(&mut Cursor::new(b)).map(|_| ()).map_err(|e| e.to_string())).is_ok();
    for (tag, v) in MORE_VERSIONS {
        if let Ok(b) = rich_bytes(&format!("{tag}_rich"), v, &mut notes) {
            if accepted(&b) {
                out.push(RawSeed::new("m2", format!("{tag}_rich"), b));
            }
        }
        match write_m2(&minimal(v)) {
            Ok(b) => {
                let r = guarded("parse_m2", || wow_m2::parse_m2(&mut Cursor::new(&b[..])).map(|_| ()).map_err(|e| e.to_string()));
                if std::env::var("C05_VERBOSE").is_ok() {
                    eprintln!("m2 seed {tag}_min: {} bytes, parse_m2: {r:?}", b.len());
                }
                if r.is_ok() {
                    out.push(RawSeed::new("m2", format!("{tag}_min"), b));
                }
            }
            Err(e) => {
                if std::env::var("C05_VERBOSE").is_ok() {
                    eprintln!("m2 seed {tag}_min: write refused: {e}");
                }
            }
        }
    }
    for (name, v, level) in [("md21_legion_all", M2Version::Legion, 3u8), ("md21_shadowlands_fileids", M2Version::Shadowlands, 2), ("md21_tww_all", M2Version::TheWarWithin, 3)] {
        if let Ok(b) = rich_bytes("md21 payload", v, &mut Vec::new()) {
            let b = md21(&b, level);
            if accepted(&b) {
                out.push(RawSeed::new("m2", name, b));
            }
        }
    }
    let skins: [(&str, Option<M2Version>, usize, usize, usize, usize, usize); 6] = [
        ("skin_old_9sub_8bat", None, 30, 10, 24, 9, 8),
        ("skin_new_wotlk_1sub", Some(M2Version::WotLK), 3, 1, 3, 1, 1),
        ("skin_new_wod_9sub_8bat", Some(M2Version::WoD), 30, 10, 24, 9, 8),
        ("skin_new_shadowlands_3sub", Some(M2Version::Shadowlands), 6, 3, 6, 3, 3),
        ("skin_new_dragonflight_2sub", Some(M2Version::Dragonflight), 6, 2, 6, 2, 2),
        ("skin_new_tww_3sub", Some(M2Version::TheWarWithin), 9, 3, 9, 3, 4),
    ];
    for (name, layout, n_idx, n_tri, n_verts, n_sub, n_bat) in skins {
        if let Ok(b) = skin(name, layout, n_idx, n_tri, n_verts, n_sub, n_bat, &mut notes) {
            out.push(RawSeed::new("skin", name, b));
        }
    }
    let anims: [(&str, bool, &[&[(u32, usize)]]); 3] = [
        ("anim_legacy_4sec_9bones", false, &[&[(7, 3), (1, 1), (2, 2), (4, 1), (0, 0), (3, 2), (5, 1), (6, 2), (7, 1)], &[(1, 9)], &[], &[(7, 2)]]),
        ("anim_modern_9sec", true, &[&[(1, 1)], &[], &[(2, 2)], &[(4, 1)], &[], &[(7, 1)], &[(0, 0)], &[(3, 1)], &[(5, 2)]]),
        ("anim_modern_1sec_9bones_9keys", true, &[&[(7, 9), (1, 1), (2, 2), (4, 1), (0, 0), (3, 2), (5, 1), (6, 2), (7, 1)]]),
    ];
    for (name, modern, shape) in anims {
        if let Ok(b) = anim(name, modern, shape, &mut notes) {
            out.push(RawSeed::new("anim", name, b));
        }
    }
    out
}

/// Which repairs / omissions were needed with the /repo this was built against (one per line).
#[allow(dead_code)]
pub fn report() -> String {
    let mut notes = Vec::new();
    let r = build(&mut notes);
    let mut s = String::new();
    if notes.is_empty() {
        s.push_str("seeds_m2: all seeds are verbatim writer output\n");
    }
    for n in notes {
        s.push_str(&format!("seeds_m2: {n}\n"));
    }
    if let Err(e) = r {
        s.push_str(&format!("seeds_m2: BUILD FAILED: {e}\n"));
    }
    s
}

/// `feat`: the optional constructs the model was built with (None: accept whichever are present)
fn check_rich(m: &M2Model, name: &str, feat: Option<u8>) -> Result<(), String> {
    let pre = m.header.version <= 263;
    let want: [(&str, usize, usize); 26] = [
        ("global_sequences", m.global_sequences.len(), 3),
        ("animations", m.animations.len(), 3),
        ("animation_lookup", m.animation_lookup.len(), 3),
        ("bones", m.bones.len(), 3),
        ("bone tracks", m.raw_data.bone_animation_data.len(), 4),
        ("key_bone_lookup", m.key_bone_lookup.len(), 3),
        ("vertices", m.vertices.len(), 3),
        ("textures", m.textures.len(), 3),
        ("materials", m.materials.len(), 3),
        ("bounding_triangles bytes", m.raw_data.bounding_triangles.len(), 12),
        ("bounding_vertices bytes", m.raw_data.bounding_vertices.len(), 48),
        ("embedded skins", m.raw_data.embedded_skins.len(), if pre { 1 } else { 0 }),
        ("embedded batches bytes", m.raw_data.embedded_skins.first().map(|s| s.batches.len()).unwrap_or(0), if pre { 48 } else { 0 }),
        ("embedded submesh bytes", m.raw_data.embedded_skins.first().map(|s| s.submeshes.len()).unwrap_or(0), if !pre { 0 } else if m.header.version < 260 { 64 } else { 96 }),
        ("particle emitters", m.particle_emitters.len(), 2),
        ("particle tracks", m.raw_data.particle_animation_data.len(), 4),
        ("ribbon tracks", m.raw_data.ribbon_animation_data.len(), 3),
        ("texture animation tracks", m.raw_data.texture_animation_data.len(), 3),
        ("color animation tracks", m.raw_data.color_animation_data.len(), 3),
        ("transparency tracks", m.raw_data.transparency_animation_data.len(), 1),
        ("events with times", m.raw_data.event_data.len(), 2),
        ("events", m.events.len(), 3),
        ("attachment tracks", m.raw_data.attachment_animation_data.len(), 1),
        ("camera tracks", m.raw_data.camera_animation_data.len(), 3),
        ("light tracks", m.raw_data.light_animation_data.len(), 4),
        ("lights", m.lights.len(), 2),
    ];
    for (what, got, exp) in want {
        if got != exp {
            return Err(format!("{name}: parsed model has {got} {what}, the seed was built with {exp}"));
        }
    }
    if m.name.as_deref() != Some("World\\Seed\\Rich_01.m2") {
        return Err(format!("{name}: model name reads back as {:?}", m.name));
    }
    if m.textures[0].filename.string.data != TEX_NAME.as_bytes() {
        return Err(format!("{name}: texture 0 name reads back as {:?}", String::from_utf8_lossy(&m.textures[0].filename.string.data)));
    }
    // sections in front of / behind the textures came back as written (a misplaced name patch
    // or a stale running offset of the writer shows here)
    for (i, v) in m.vertices.iter().enumerate() {
        if v.position != v3(i * 2) || v.normal != v3(i + 5) || v.tex_coords != v2(i + 1) || v.tex_coords2 != Some(v2(i + 6)) {
            return Err(format!("{name}: vertex {i} reads back differently: {v:?}"));
        }
    }
    if m.key_bone_lookup != vec![0xFFFF, 0, 2] || m.raw_data.texture_lookup_table != vec![0, 1, 2] || m.raw_data.camera_lookup_table != vec![0, 1, 0xFFFF] {
        return Err(format!("{name}: lookup tables read back differently"));
    }
    let t = &m.raw_data.bone_animation_data[0];
    if t.timestamps != u32s(&[0, 333, 666]) || t.values.len() != 36 {
        return Err(format!("{name}: bone 0 translation keys read back differently ({} ts bytes, {} value bytes)", t.timestamps.len(), t.values.len()));
    }
    let keyed: [(&str, &[f32], Vec<f32>); 5] = [
        ("particle emitter 0 emission speed", &m.particle_emitters[0].emission_speed_animation.track.values.data, vec![0.25, 0.5]),
        ("transparency animation 1 alpha", &m.transparency_animations[1].alpha.track.values.data, vec![0.25, 0.5]),
        ("attachment 1 scale", &m.attachments[1].scale_animation.track.values.data, vec![0.25, 0.5]),
        ("camera 1 roll", &m.cameras[1].roll_animation.track.values.data, vec![0.25, 0.5]),
        ("light 1 attenuation start", &m.lights[1].attenuation_start_animation.track.values.data, vec![0.25, 0.5]),
    ];
    for (what, got, exp) in keyed {
        if got != &exp[..] {
            return Err(format!("{name}: keys of {what} read back as {got:?}, written {exp:?}"));
        }
    }
    if m.particle_emitters[0].xy_scale_animation.track.values.data.len() != 3 || m.cameras[0].position_animation.track.values.data.len() != 2 {
        return Err(format!("{name}: vector keys not read back"));
    }
    let ev = &m.raw_data.event_data;
    if ev[0].timestamps != u32s(&[0]) || ev[1].timestamps != u32s(&[0, 333, 666]) || m.events[2].identifier != *b"$HIT" {
        return Err(format!("{name}: event timestamps read back differently"));
    }
    // optional constructs
    let has_ranges = m.events[0].ranges.count == 1 && ev[0].ranges == u32s(&[0, 333]);
    if !has_ranges && (m.events[0].ranges.count != 0 || !ev[0].ranges.is_empty()) {
        return Err(format!("{name}: event 0 ranges read back damaged: {:?} / {} bytes", m.events[0].ranges, ev[0].ranges.len()));
    }
    let flag8 = m.header.flags.bits() & 0x8 != 0;
    if flag8 && m.header.texture_combiner_combos != Some(M2Array::new(0, 0)) {
        return Err(format!("{name}: flag 0x8 set but texture_combiner_combos reads back as {:?}", m.header.texture_combiner_combos));
    }
    if m.header.flags.bits() & !0x8 != 0x4101 {
        return Err(format!("{name}: model flags read back as {:#x}", m.header.flags.bits()));
    }
    if let Some(f) = feat {
        if has_ranges != (f & F_EVRANGES != 0) || flag8 != (f & F_COMBOS != 0) {
            return Err(format!("{name}: optional constructs read back as ranges={has_ranges} flag8={flag8}, built with {f:#b}"));
        }
    }
    Ok(())
}

fn check_md21_all(m: &M2Model, name: &str) -> Result<(), String> {
    let have = [
        ("SFID", m.skin_file_ids.as_ref().map(|x| x.ids.len()) == Some(4)),
        ("AFID", m.animation_file_ids.as_ref().map(|x| x.ids.len()) == Some(4)),
        ("TXID", m.texture_file_ids.as_ref().map(|x| x.ids.len()) == Some(3)),
        ("PFID", m.physics_file_id.is_some()),
        ("SKID", m.skeleton_file_id.is_some()),
        ("BFID", m.bone_file_ids.as_ref().map(|x| x.ids.len()) == Some(2)),
        ("LDV1", m.lod_data.as_ref().map(|x| x.levels.len()) == Some(2)),
        ("TXAC", m.texture_animation_chunk.as_ref().map(|x| x.texture_animations.len()) == Some(2)),
        ("EXPT/EXP2", m.extended_particle_data.as_ref().map(|x| (x.version, x.enhanced_emitters.len(), x.particle_systems.len())) == Some((2, 2, 1))),
        ("PABC", m.parent_animation_blacklist.as_ref().map(|x| x.blacklisted_sequences.len()) == Some(3)),
        ("PADC", m.parent_animation_data.as_ref().map(|x| (x.texture_weights.len(), x.blending_modes.len())) == Some((2, 1))),
        ("PSBC", m.parent_sequence_bounds.as_ref().map(|x| x.sequence_bounds.len()) == Some(2)),
        ("PEDC", m.parent_event_data.as_ref().map(|x| x.event_entries.len()) == Some(2)),
        ("PCOL", m.collision_mesh_data.as_ref().map(|x| (x.vertices.len(), x.faces.len(), x.materials.len())) == Some((3, 1, 1))),
        ("PFDC", m.physics_file_data.as_ref().map(|x| x.physics_data.len()) == Some(8)),
        ("RPID", m.recursive_particle_ids.as_ref().map(|x| x.model_ids.len()) == Some(2)),
        ("GPID", m.geometry_particle_ids.as_ref().map(|x| x.model_ids.len()) == Some(1)),
        ("WFV3", m.waterfall_effect.as_ref().map(|x| (x.version, x.parameters.additional_params.len())) == Some((3, 5))),
        ("PGD1", m.particle_geoset_data.as_ref().map(|x| x.geoset_assignments.len()) == Some(3)),
        ("EDGF", m.edge_fade_data.as_ref().map(|x| (x.fade_distances.len(), x.fade_factors.len())) == Some((2, 2))),
        ("NERF", m.model_alpha_data.is_some()),
        ("DETL", m.lighting_details.is_some()),
        ("DBOC", m.dboc_chunk.as_ref().map(|x| x.data.len()) == Some(16)),
        ("AFRA", m.afra_chunk.as_ref().map(|x| x.data.len()) == Some(12)),
        ("DPIV", m.dpiv_chunk.as_ref().map(|x| (x.vertex_positions.len(), x.face_normals.len(), x.indices.len(), x.flags.len())) == Some((3, 1, 3, 1))),
    ];
    for (c, ok) in have {
        if !ok {
            return Err(format!("{name}: chunk {c} was not read back as emitted"));
        }
    }
    let tx = &m.texture_animation_chunk.as_ref().unwrap().texture_animations[0];
    if tx.base_animation.translation_u.track.values.data != vec![0.0f32, 1.0] {
        return Err(format!("{name}: TXAC entry 0 keys not read back"));
    }
    Ok(())
}

fn test_m2(s: &RawSeed) -> Result<(), String> {
    let b = &s.bytes;
    let n = &s.name;
    let f = guarded(&format!("{n}: parse_m2"), || wow_m2::parse_m2(&mut Cursor::new(&b[..])).map_err(|e| e.to_string()))?;
    let chunked = b.starts_with(b"MD21");
    if chunked != matches!(f, M2Format::Chunked(_)) {
        return Err(format!("{n}: parse_m2 took the wrong container branch"));
    }
    let direct = guarded(&format!("{n}: M2Model::parse"), || M2Model::parse(&mut Cursor::new(&b[..])).map_err(|e| e.to_string()));
    if chunked {
        // M2Model::parse only knows MD20; it must refuse, not panic
        if let Err(e) = &direct {
            if e.contains("PANIC") {
                return Err(e.clone());
            }
        }
        if n == "md21_all" {
            check_md21_all(f.model(), n)?;
        }
        // the MD21 payload is itself a valid MD20 file
        let size = get_u32(b, 4) as usize;
        let inner = &b[8..8 + size];
        let m = guarded(&format!("{n}: M2Model::parse(MD21 payload)"), || M2Model::parse(&mut Cursor::new(inner)).map_err(|e| e.to_string()))?;
        if size > 1024 {
            check_rich(&m, n, None)?;
        }
    } else {
        let m = direct?;
        if n.ends_with("_rich") {
            check_rich(&m, n, None)?;
            check_rich(f.model(), n, None)?;
        }
    }
    Ok(())
}

fn test_skin(s: &RawSeed) -> Result<(), String> {
    let b = &s.bytes;
    let n = &s.name;
    let Some((_, layout, n_idx, n_tri, n_verts, n_sub, n_bat)) = SKINS.iter().find(|x| x.0 == n.as_str()).copied() else {
        return Err(format!("{n}: not in the skin table"));
    };
    let new_layout = layout.is_some();
    let p1 = guarded(&format!("{n}: parse_skin"), || wow_m2::parse_skin(&mut Cursor::new(&b[..])).map_err(|e| e.to_string()))?;
    let p2 = guarded(&format!("{n}: SkinFile::parse"), || SkinFile::parse(&mut Cursor::new(&b[..])).map_err(|e| e.to_string()))?;
    let typed: SkinFile = if new_layout {
        guarded(&format!("{n}: Skin::parse"), || Skin::parse(&mut Cursor::new(&b[..])).map(SkinFile::New).map_err(|e| e.to_string()))?
    } else {
        guarded(&format!("{n}: OldSkin::parse"), || OldSkin::parse(&mut Cursor::new(&b[..])).map(SkinFile::Old).map_err(|e| e.to_string()))?
    };
    // the parser of the other layout must not panic on it either
    let other = if new_layout {
        guarded("OldSkin::parse", || OldSkin::parse(&mut Cursor::new(&b[..])).map(|_| ()).map_err(|e| e.to_string()))
    } else {
        guarded("Skin::parse", || Skin::parse(&mut Cursor::new(&b[..])).map(|_| ()).map_err(|e| e.to_string()))
    };
    if let Err(e) = other {
        if e.contains("PANIC") {
            return Err(format!("{n}: parser of the other layout: {e}"));
        }
    }
    for p in [&p1, &p2, &typed] {
        skin_content(p, new_layout, n_idx, n_tri, n_verts, n_sub, n_bat).map_err(|e| format!("{n}: {e}"))?;
    }
    Ok(())
}

fn test_anim(s: &RawSeed) -> Result<(), String> {
    let b = &s.bytes;
    let n = &s.name;
    let Some((_, modern, shape)) = ANIMS.iter().find(|x| x.0 == n.as_str()).copied() else {
        return Err(format!("{n}: not in the anim table"));
    };
    let a = guarded(&format!("{n}: AnimFile::parse"), || AnimFile::parse(&mut Cursor::new(&b[..])).map_err(|e| e.to_string()))?;
    if (a.format == AnimFormat::Modern) != modern {
        return Err(format!("{n}: detected as {:?}", a.format));
    }
    let own = if modern { AnimFormat::Modern } else { AnimFormat::Legacy };
    let a2 = guarded(&format!("{n}: AnimFile::parse_with_format({own:?})"), || AnimFile::parse_with_format(&mut Cursor::new(&b[..]), own).map_err(|e| e.to_string()))?;
    let other = if modern { AnimFormat::Legacy } else { AnimFormat::Modern };
    if let Err(e) = guarded("parse_with_format(other)", || AnimFile::parse_with_format(&mut Cursor::new(&b[..]), other).map(|_| ()).map_err(|e| e.to_string())) {
        if e.contains("PANIC") {
            return Err(format!("{n}: {e}"));
        }
    }
    if modern {
        for p in [&a, &a2] {
            anim_content(p, shape).map_err(|e| format!("{n}: {e}"))?;
        }
    }
    Ok(())
}

/// Every seed parses `Ok` with the crate's parser for its format (and carries what it was built with).
pub fn selftest() -> Result<(), String> {
    let all = build(&mut Vec::new())?;
    let listed = seeds();
    if all.len() != listed.len() || all.iter().zip(listed.iter()).any(|(a, b)| a.name != b.name || a.bytes != b.bytes || a.fmt != b.fmt) {
        return Err("seeds() is not deterministic".into());
    }
    if all.len() != 30 {
        return Err(format!("{} seeds instead of 30", all.len()));
    }
    let mut names = std::collections::BTreeSet::new();
    let mut errs = Vec::new();
    for s in &all {
        if !names.insert((s.fmt, s.name.clone())) {
            errs.push(format!("duplicate seed name {}", s.name));
        }
        let r = match s.fmt {
            "m2" => test_m2(s),
            "skin" => test_skin(s),
            "anim" => test_anim(s),
            other => Err(format!("{}: unexpected fmt {other}", s.name)),
        };
        if let Err(e) = r {
            errs.push(e);
        }
    }
    if errs.is_empty() {
        Ok(())
    } else {
        Err(errs.join("\n  "))
    }
}
