//! WMO seed files for C05 ("parsers are total").
//!
//! Every seed starts from bytes produced by the crate's own `WmoWriter`.  The writer of the /repo
//! snapshot did not produce complete WMO files: it mis-sized MOMT and MLIQ, wrote a 60-byte MOHD
//! and a 36-byte MOGP header; /repo is being corrected while this harness is built.  Therefore
//! every REPAIR here is conditional on the defect being detected in the writer's bytes (see
//! `split_stream`, `split_root`, `split_group`, `pad_mohd`, `mogp_header`, `complete_group`): a
//! corrected writer's chunk is passed through untouched, a defective one is repaired, and the
//! self test builds every seed both from the writer's bytes as they are and from the same bytes
//! rewritten into the snapshot writer's layout (`degrade_root` / `degrade_group`), so a writer fix
//! can never silently remove a seed.  Independently of repairs, the chunks no writer path
//! produces (MFOG, MCVP, MOPY, MOLR, MOBR, further MOTV/MOCV sets, MOSB below Wotlk, and the
//! later-expansion chunks) are hand-emitted from /repo/docs (docs/src/formats/graphics/wmo.md) and
//! the struct definitions in wow-wmo/src/chunks.rs.
//! Two seeds (`*_writer_verbatim`) are the writer's bytes with no post-processing at all.
//!
//! Deterministic: no randomness, no clock, no hash-map iteration.
#![allow(dead_code)]

use crate::seed::RawSeed;
use std::collections::HashMap;
use std::io::Cursor;
use std::panic::{catch_unwind, AssertUnwindSafe};
use wow_wmo::wmo_group_types::WmoGroup as LegacyGroup;
use wow_wmo::wmo_types::WmoRoot as LegacyRoot;
use wow_wmo::{
    BoundingBox, Color, ParsedWmo, TexCoord, Vec3, WmoBatch, WmoBspNode, WmoDoodadDef, WmoDoodadSet, WmoFlags,
    WmoGroupFlags, WmoGroupHeader, WmoGroupInfo, WmoGroupParser, WmoHeader, WmoLight, WmoLightProperties,
    WmoLightType, WmoLiquid, WmoLiquidVertex, WmoMaterial, WmoMaterialFlags, WmoParser, WmoPlane, WmoPortal,
    WmoPortalReference, WmoVersion, WmoWriter,
};

// ------------------------------------------------------------------ byte helpers

fn u16le(o: &mut Vec<u8>, v: u16) {
    o.extend_from_slice(&v.to_le_bytes());
}
fn i16le(o: &mut Vec<u8>, v: i16) {
    o.extend_from_slice(&v.to_le_bytes());
}
fn u32le(o: &mut Vec<u8>, v: u32) {
    o.extend_from_slice(&v.to_le_bytes());
}
fn f32le(o: &mut Vec<u8>, v: f32) {
    o.extend_from_slice(&v.to_le_bytes());
}

/// One chunk; `id` is the logical name ("MVER"); it is stored reversed ("REVM") unless `raw_magic`.
#[derive(Clone)]
struct Ck {
    id: [u8; 4],
    raw_magic: bool,
    data: Vec<u8>,
    /// set by `split_stream` when the chunk's size field did not lead to the next chunk header and
    /// one of the alternative lengths did (i.e. a writer size defect was detected and corrected)
    resized: bool,
}

fn ck(name: &str, data: Vec<u8>) -> Ck {
    let b = name.as_bytes();
    Ck { id: [b[0], b[1], b[2], b[3]], raw_magic: false, data, resized: false }
}

/// chunk whose 4 magic bytes are given exactly as they are stored in the file
fn ck_disk(magic: &str, data: Vec<u8>) -> Ck {
    let b = magic.as_bytes();
    Ck { id: [b[0], b[1], b[2], b[3]], raw_magic: true, data, resized: false }
}

fn emit(out: &mut Vec<u8>, c: &Ck) {
    let mut m = c.id;
    if !c.raw_magic {
        m.reverse();
    }
    out.extend_from_slice(&m);
    u32le(out, c.data.len() as u32);
    out.extend_from_slice(&c.data);
}

fn emit_all(cs: &[Ck]) -> Vec<u8> {
    let mut out = Vec::new();
    for c in cs {
        emit(&mut out, c);
    }
    out
}

fn pos(cs: &[Ck], name: &str) -> Option<usize> {
    cs.iter().position(|c| !c.raw_magic && &c.id == name.as_bytes())
}

fn insert_after(cs: &mut Vec<Ck>, after: &str, c: Ck) {
    match pos(cs, after) {
        Some(i) => cs.insert(i + 1, c),
        None => cs.push(c),
    }
}

fn rd_u32(b: &[u8], at: usize) -> u32 {
    u32::from_le_bytes([b[at], b[at + 1], b[at + 2], b[at + 3]])
}

/// Split a flat chunk stream into chunks.  Every repair in this module is conditional on a defect
/// being *detected* in the writer's bytes, so that the seeds come out valid with the defective
/// writer and with a corrected one: the size field of each chunk is believed first; only if the
/// bytes behind it do not continue as a well-formed chunk stream up to the exact end of the
/// buffer are the alternative lengths from `alt_len(name, claimed, chunks_so_far)` tried (they
/// describe the known writer size defects).  A chunk split with an alternative length is marked
/// `resized`.
fn split_stream(bytes: &[u8], alt_len: &dyn Fn(&[u8; 4], usize, &[Ck]) -> Vec<usize>) -> Result<Vec<Ck>, String> {
    fn rec(bytes: &[u8], p: usize, out: &mut Vec<Ck>, alt_len: &dyn Fn(&[u8; 4], usize, &[Ck]) -> Vec<usize>, deepest: &mut (usize, String)) -> bool {
        if p == bytes.len() {
            return true;
        }
        fn fail(deepest: &mut (usize, String), at: usize, why: String) -> bool {
            if at >= deepest.0 {
                *deepest = (at, why);
            }
            false
        }
        if p + 8 > bytes.len() {
            return fail(deepest, p, format!("dangling {} bytes at {}", bytes.len() - p, p));
        }
        let mut id = [bytes[p], bytes[p + 1], bytes[p + 2], bytes[p + 3]];
        id.reverse();
        if !id.iter().all(|b| b.is_ascii_uppercase() || b.is_ascii_digit()) {
            return fail(deepest, p, format!("non-magic bytes {:?} at {}", id, p));
        }
        let claimed = rd_u32(bytes, p + 4) as usize;
        let mut cands = vec![claimed];
        for a in alt_len(&id, claimed, out) {
            if !cands.contains(&a) {
                cands.push(a);
            }
        }
        for (k, n) in cands.into_iter().enumerate() {
            if p + 8 + n > bytes.len() {
                fail(deepest, p, format!("chunk {} at {} overruns ({} bytes)", String::from_utf8_lossy(&id), p, n));
                continue;
            }
            let keep = out.len();
            out.push(Ck { id, raw_magic: false, data: bytes[p + 8..p + 8 + n].to_vec(), resized: k > 0 });
            if rec(bytes, p + 8 + n, out, alt_len, deepest) {
                return true;
            }
            out.truncate(keep);
        }
        false
    }
    let mut out = Vec::new();
    let mut deepest = (0usize, String::new());
    if rec(bytes, 0, &mut out, alt_len, &mut deepest) {
        Ok(out)
    } else {
        Err(deepest.1)
    }
}

// ------------------------------------------------------------------ model helpers

fn v3(x: f32, y: f32, z: f32) -> Vec3 {
    Vec3 { x, y, z }
}
fn col(r: u8, g: u8, b: u8, a: u8) -> Color {
    Color { r, g, b, a }
}
fn bbox(a: (f32, f32, f32), b: (f32, f32, f32)) -> BoundingBox {
    BoundingBox { min: v3(a.0, a.1, a.2), max: v3(b.0, b.1, b.2) }
}
fn table_offset(strings: &[String], k: usize) -> u32 {
    strings[..k].iter().map(|s| s.len() as u32 + 1).sum()
}

const VERSIONS: [(WmoVersion, &str); 5] = [
    (WmoVersion::Classic, "classic"),
    (WmoVersion::Tbc, "tbc"),
    (WmoVersion::Wotlk, "wotlk"),
    (WmoVersion::Cataclysm, "cata"),
    (WmoVersion::Mop, "mop"),
];

const SKYBOX: &str = "environments\\stars\\deathskybox.mdx";

// ------------------------------------------------------------------ root model

/// `version` also selects small differences in the model (so the five rich roots are not the same
/// bytes: below MoP the writer's output does not depend on the target version once completed).
fn rich_root(version: WmoVersion) -> LegacyRoot {
    let k = VERSIONS.iter().position(|(v, _)| *v == version).unwrap_or(0);
    let mut textures: Vec<String> =
        vec!["dungeons\\textures\\wall.blp".into(), "dungeons\\textures\\wall_s.blp".into(), "t.blp".into()];
    textures.push(format!("world\\generic\\{}_trim{:02}.blp", VERSIONS[k].1, k));
    let materials: Vec<WmoMaterial> = (0..2usize)
        .map(|i| WmoMaterial {
            flags: [WmoMaterialFlags::UNLIT | WmoMaterialFlags::TWO_SIDED, WmoMaterialFlags::CLAMP_S | WmoMaterialFlags::SHADOW_BATCH_1][i],
            shader: [0u32, 6][i],
            blend_mode: [1u32, 0][i],
            texture1: table_offset(&textures, i),
            emissive_color: [col(255, 0, 128, 7), col(1, 2, 3, 4)][i],
            sidn_color: [col(9, 8, 7, 6), col(255, 255, 255, 255)][i],
            framebuffer_blend: Color::default(),
            texture2: table_offset(&textures, 2),
            diffuse_color: [col(10, 20, 30, 40), col(200, 100, 50, 25)][i],
            ground_type: [0u32, 5][i],
        })
        .collect();
    let groups: Vec<WmoGroupInfo> = vec![
        WmoGroupInfo {
            flags: WmoGroupFlags::INDOOR | WmoGroupFlags::HAS_NORMALS | WmoGroupFlags::HAS_DOODADS,
            bounding_box: bbox((-1.0, -2.0, -3.0), (4.0, 5.0, 6.0)),
            name: "antechamber".into(),
        },
        WmoGroupInfo {
            flags: WmoGroupFlags::HAS_WATER | WmoGroupFlags::HAS_VERTEX_COLORS,
            bounding_box: bbox((-10.5, 0.25, -0.125), (-9.5, 100.0, 7.75)),
            name: "hall".into(),
        },
    ];
    let portals = vec![
        WmoPortal {
            vertices: vec![v3(0.0, 0.0, 0.0), v3(1.0, 0.0, 0.0), v3(1.0, 0.0, 2.0), v3(0.0, 0.0, 2.0)],
            normal: v3(0.0, 1.0, 0.0),
        },
        WmoPortal { vertices: vec![v3(5.0, 6.0, 7.0), v3(-5.5, 6.0, 7.0), v3(5.0, -6.25, 7.0)], normal: v3(0.0, 0.0, -1.0) },
    ];
    let mut portal_references = vec![
        WmoPortalReference { portal_index: 0, group_index: 1, side: 1 },
        WmoPortalReference { portal_index: 1, group_index: 0, side: 0xFFFF },
    ];
    if k % 2 == 1 {
        portal_references.push(WmoPortalReference { portal_index: 1, group_index: 1, side: 1 });
    }
    // three lists => 12 bytes of MOVV (one Vec3 for the newer parser) and 14 bytes of MOVB
    let visible_block_lists: Vec<Vec<u16>> = vec![vec![0, 1], vec![1], vec![0]];
    let mkl = |t: WmoLightType, i: usize| WmoLight {
        light_type: t,
        position: v3(1.5 + i as f32, -2.25, 3.0 * i as f32),
        color: [col(255, 128, 64, 32), col(1, 2, 3, 4)][i],
        intensity: [1.0f32, 0.5][i],
        rotation: [[0.0f32, 0.0, 0.0, 1.0], [0.5, 0.5, 0.5, 0.5]][i],
        attenuation_start: [0.0f32, 1.25][i],
        attenuation_end: [10.0f32, 2.5][i],
        use_attenuation: i % 2 == 0,
        properties: match t {
            WmoLightType::Omni => WmoLightProperties::Omni,
            WmoLightType::Ambient => WmoLightProperties::Ambient,
            WmoLightType::Spot => WmoLightProperties::Spot { direction: v3(0.0, 0.0, -1.0), hotspot: 0.0, falloff: 0.0 },
            WmoLightType::Directional => WmoLightProperties::Directional { direction: v3(0.0, 0.0, -1.0) },
        },
    };
    let mut lights = vec![mkl(WmoLightType::Omni, 0), mkl(WmoLightType::Spot, 1)];
    if k >= 2 {
        lights.push(mkl([WmoLightType::Directional, WmoLightType::Ambient, WmoLightType::Omni][k - 2], 0));
    }
    let doodad_defs: Vec<WmoDoodadDef> = (0..2usize)
        .map(|i| WmoDoodadDef {
            name_offset: [0u32, 15][i],
            position: v3(10.0 * i as f32, -0.5, 2.0),
            orientation: [[0.0f32, 0.0, 0.0, 1.0], [0.0, 0.707_106_8, 0.0, 0.707_106_8]][i],
            scale: [1.0f32, 0.5][i],
            color: [col(255, 255, 255, 255), col(1, 2, 3, 4)][i],
            set_index: 0,
        })
        .collect();
    let mut doodad_sets = vec![
        WmoDoodadSet { name: "Set_$DefaultGlobal".into(), start_doodad: 0, n_doodads: 1 },
        WmoDoodadSet { name: "furniture".into(), start_doodad: 1, n_doodads: 1 },
    ];
    if k >= 3 {
        doodad_sets.push(WmoDoodadSet { name: format!("set_{}", VERSIONS[k].1), start_doodad: 0, n_doodads: 2 });
    }
    let header = WmoHeader {
        n_materials: materials.len() as u32,
        n_groups: groups.len() as u32,
        n_portals: portals.len() as u32,
        n_lights: lights.len() as u32,
        n_doodad_names: doodad_defs.len() as u32,
        n_doodad_defs: doodad_defs.len() as u32,
        n_doodad_sets: doodad_sets.len() as u32,
        flags: WmoFlags::OUTDOOR | WmoFlags::HAS_LIQUIDS | WmoFlags::HAS_VERTEX_COLORS | WmoFlags::HAS_SKYBOX,
        ambient_color: col(11, 22, 33, 44 + k as u8),
    };
    let mut texture_offset_index_map = HashMap::new();
    for k in 0..textures.len() {
        texture_offset_index_map.insert(table_offset(&textures, k), k as u32);
    }
    LegacyRoot {
        version,
        materials,
        groups,
        portals,
        portal_references,
        visible_block_lists,
        lights,
        doodad_defs,
        doodad_sets,
        bounding_box: bbox((-10.5, -2.0, -3.0), (4.0, 100.0, 7.75)),
        textures,
        texture_offset_index_map,
        header,
        skybox: Some(SKYBOX.to_string()),
        convex_volume_planes: None,
    }
}

fn min_root(version: WmoVersion) -> LegacyRoot {
    LegacyRoot {
        version,
        materials: vec![],
        groups: vec![],
        portals: vec![],
        portal_references: vec![],
        visible_block_lists: vec![],
        lights: vec![],
        doodad_defs: vec![],
        doodad_sets: vec![],
        bounding_box: bbox((0.0, 0.0, 0.0), (0.0, 0.0, 0.0)),
        textures: vec![],
        texture_offset_index_map: HashMap::new(),
        header: WmoHeader {
            n_materials: 0,
            n_groups: 0,
            n_portals: 0,
            n_lights: 0,
            n_doodad_names: 0,
            n_doodad_defs: 0,
            n_doodad_sets: 0,
            flags: WmoFlags::empty(),
            ambient_color: col(0, 0, 0, 0),
        },
        skybox: None,
        convex_volume_planes: None,
    }
}

fn write_root(x: &LegacyRoot, v: WmoVersion) -> Result<Vec<u8>, String> {
    let r = catch_unwind(AssertUnwindSafe(|| {
        let mut c = Cursor::new(Vec::new());
        WmoWriter::new().write_root(&mut c, x, v).map(|()| c.into_inner()).map_err(|e| e.to_string())
    }));
    match r {
        Ok(r) => r.map_err(|e| format!("WmoWriter::write_root error: {e}")),
        Err(_) => Err("WmoWriter::write_root panicked".into()),
    }
}

/// Writer defect detected here (snapshot writer; corrected later in /repo): for targets below MoP
/// `write_materials` set the MOMT size field to 40 bytes per material but wrote 64 bytes per
/// material, so a reader walking the chunk stream landed inside the material data.  If (and only
/// if) the claimed size does not lead to the next chunk, MOHD.n_materials * 64 is tried.
fn split_root(bytes: &[u8]) -> Result<Vec<Ck>, String> {
    split_stream(bytes, &|id, _claimed, so_far| {
        if id == b"MOMT" {
            let n = so_far.iter().find(|c| &c.id == b"MOHD").map(|c| rd_u32(&c.data, 0) as usize).unwrap_or(0);
            vec![n * 64]
        } else {
            vec![]
        }
    })
}

/// MOHD is 64 bytes on disk (docs; root_parser::Mohd); the snapshot writer emitted 60 (no `flags:
/// u16, num_lod: u16` tail; it put its 32-bit flags where wmo_id lives).  Only a 60-byte MOHD is
/// touched: padded to 64, copying the low flag bits to the on-disk position.
fn pad_mohd(cs: &mut [Ck]) {
    if let Some(i) = pos(cs, "MOHD") {
        let d = &mut cs[i].data;
        if d.len() == 60 {
            let fl = rd_u32(d, 32);
            u16le(d, (fl & 0xFFFF) as u16);
            u16le(d, 0);
        }
    }
}

fn mfog_payload() -> Vec<u8> {
    let mut o = Vec::new();
    for i in 0..2u32 {
        u32le(&mut o, i); // flags
        f32le(&mut o, 1.0 + i as f32);
        f32le(&mut o, -2.0);
        f32le(&mut o, 3.5);
        f32le(&mut o, 10.0); // small radius
        f32le(&mut o, 25.0 + i as f32); // large radius
        f32le(&mut o, 444.4445); // fog end
        f32le(&mut o, 0.25); // fog start multiplier
        u32le(&mut o, 0xFF80_4020); // colour BGRA
        f32le(&mut o, 222.2222); // underwater end
        f32le(&mut o, -0.5); // underwater start multiplier
        u32le(&mut o, 0xFF10_2030); // underwater colour
    }
    o
}

/// 80 bytes: five 16-byte planes for the newer parser (docs), four 20-byte planes for the older one.
fn mcvp_payload() -> Vec<u8> {
    let mut o = Vec::new();
    let planes: [[f32; 4]; 5] =
        [[1.0, 0.0, 0.0, -4.0], [-1.0, 0.0, 0.0, -4.0], [0.0, 1.0, 0.0, -2.5], [0.0, -1.0, 0.0, -2.5], [0.0, 0.0, 1.0, 0.0]];
    for p in planes {
        for f in p {
            f32le(&mut o, f);
        }
    }
    o
}

fn cstr(s: &str) -> Vec<u8> {
    let mut v = s.as_bytes().to_vec();
    v.push(0);
    v
}

/// writer output -> complete root: fixed MOMT size, 64-byte MOHD, MOSB for targets where the writer
/// skips it, MFOG, and MCVP for Cataclysm+.
fn complete_root(raw: &[u8], version: WmoVersion) -> Result<Vec<Ck>, String> {
    let mut cs = split_root(raw)?;
    pad_mohd(&mut cs);
    if pos(&cs, "MOSB").is_none() {
        insert_after(&mut cs, "MOGI", ck("MOSB", cstr(SKYBOX)));
    }
    cs.push(ck("MFOG", mfog_payload()));
    if version >= WmoVersion::Cataclysm {
        cs.push(ck("MCVP", mcvp_payload()));
    }
    Ok(cs)
}

/// chunks the newer parser generation names (root_parser.rs / chunks.rs / docs) but the writer never emits
fn root_new_chunks() -> Vec<Ck> {
    let mut v = Vec::new();
    // GFID: one u32 file id per group
    let mut d = Vec::new();
    u32le(&mut d, 1_000_001);
    u32le(&mut d, 1_000_002);
    v.push(ck("GFID", d));
    // MOUV: per material two C2Vector translation speeds
    let mut d = Vec::new();
    for f in [0.0f32, 0.5, -0.25, 0.0, 1.0, 1.0, 0.0, 0.0] {
        f32le(&mut d, f);
    }
    v.push(ck("MOUV", d));
    // MOSI: skybox file id
    let mut d = Vec::new();
    u32le(&mut d, 130_540);
    v.push(ck("MOSI", d));
    // MODI: doodad file ids, one per doodad name
    let mut d = Vec::new();
    u32le(&mut d, 198_000);
    u32le(&mut d, 198_001);
    v.push(ck("MODI", d));
    // MOPE: portal extra
    let mut d = Vec::new();
    for x in [1u32, 0, 0, 7] {
        u32le(&mut d, x);
    }
    v.push(ck("MOPE", d));
    // MOLV: light extension, 100 bytes
    let mut d = Vec::new();
    for i in 0..6 {
        for f in [1.0f32, 0.0, 0.0, 0.5 + i as f32] {
            f32le(&mut d, f);
        }
    }
    d.extend_from_slice(&[0, 0, 0, 1]);
    v.push(ck("MOLV", d));
    // MOM3: opaque
    v.push(ck("MOM3", (0u8..24).collect()));
    // MOLP (point lights), MNLD (new light defs), MDDI: opaque small payloads
    v.push(ck("MOLP", vec![0u8; 28]));
    v.push(ck("MNLD", vec![1u8; 16]));
    v.push(ck("MDDI", vec![2, 0, 0, 0]));
    v
}

// ------------------------------------------------------------------ group model

fn rich_group() -> LegacyGroup {
    let vertices = vec![v3(0.0, 0.0, 0.0), v3(1.5, 0.0, 0.0), v3(1.5, 2.0, 0.25), v3(0.0, 2.0, 0.5)];
    let normals = vec![v3(0.0, 0.0, 1.0), v3(0.0, -1.0, 0.0), v3(0.6, 0.8, 0.0), v3(-1.0, 0.0, 0.0)];
    let tex_coords: Vec<TexCoord> = (0..4).map(|i| TexCoord { u: 0.25 * i as f32, v: 1.0 - 0.125 * i as f32 }).collect();
    let indices: Vec<u16> = vec![0, 1, 2, 2, 3, 0];
    let mkb = |i: usize| WmoBatch {
        // the writer puts these 10 bytes + material_id where the on-disk i16[6] bounding box is
        flags: [[0, 0, 0, 0, 0, 0, 2, 0, 2, 0], [1, 0, 1, 0, 0, 0, 2, 0, 3, 0]][i],
        material_id: [0u16, 1][i],
        start_index: [0u32, 3][i],
        count: 3,
        start_vertex: [0u16, 0][i],
        end_vertex: [2u16, 3][i],
        use_large_material_id: false,
    };
    let batches = vec![mkb(0), mkb(1)];
    let mkn = |i: usize| WmoBspNode {
        plane: WmoPlane { normal: [v3(1.0, 0.0, 0.0), v3(0.0, 1.0, 0.0), v3(0.0, 0.0, 1.0)][i], distance: [0.75f32, -1.0, 0.125][i] },
        children: [[1i16, 2], [-1, -1], [-1, -1]][i],
        first_face: [0u16, 0, 1][i],
        num_faces: [0u16, 1, 1][i],
    };
    let bsp_nodes = Some(vec![mkn(0), mkn(1), mkn(2)]);
    let vertex_colors = Some((0..4u8).map(|i| col(10 + i, 20 + i, 30 + i, 255 - i)).collect());
    let (w, h) = (3u32, 2u32);
    let liquid = Some(WmoLiquid {
        liquid_type: 5,
        flags: 0,
        width: w,
        height: h,
        vertices: (0..(w * h) as usize).map(|i| WmoLiquidVertex { position: v3(i as f32, 2.0 * i as f32, 0.5), height: 0.25 + i as f32 }).collect(),
        tile_flags: Some(vec![0x40, 0x0F]),
    });
    let header = WmoGroupHeader {
        flags: WmoGroupFlags::HAS_BASE_VERTICES
            | WmoGroupFlags::HAS_NORMALS
            | WmoGroupFlags::HAS_LIGHT
            | WmoGroupFlags::HAS_DOODADS
            | WmoGroupFlags::HAS_WATER
            | WmoGroupFlags::INDOOR
            | WmoGroupFlags::HAS_VERTEX_COLORS,
        bounding_box: bbox((0.0, 0.0, 0.0), (1.5, 2.0, 0.5)),
        name_offset: 12,
        group_index: 1,
    };
    LegacyGroup {
        header,
        materials: vec![],
        vertices,
        normals,
        tex_coords,
        batches,
        indices,
        vertex_colors,
        bsp_nodes,
        liquid,
        doodad_refs: Some(vec![0u16, 1]),
    }
}

fn min_group() -> LegacyGroup {
    LegacyGroup {
        header: WmoGroupHeader {
            flags: WmoGroupFlags::empty(),
            bounding_box: bbox((0.0, 0.0, 0.0), (0.0, 0.0, 0.0)),
            name_offset: 0,
            group_index: 0,
        },
        materials: vec![],
        vertices: vec![],
        normals: vec![],
        tex_coords: vec![],
        batches: vec![],
        indices: vec![],
        vertex_colors: None,
        bsp_nodes: None,
        liquid: None,
        doodad_refs: None,
    }
}

fn write_group(g: &LegacyGroup, v: WmoVersion) -> Result<Vec<u8>, String> {
    let r = catch_unwind(AssertUnwindSafe(|| {
        let mut c = Cursor::new(Vec::new());
        WmoWriter::new().write_group(&mut c, g, v).map(|()| c.into_inner()).map_err(|e| e.to_string())
    }));
    match r {
        Ok(r) => r.map_err(|e| format!("WmoWriter::write_group error: {e}")),
        Err(_) => Err("WmoWriter::write_group panicked".into()),
    }
}

const SHORT_MOGP_HEADER: usize = 36;
const MOGP_HEADER: usize = 68;

/// Writer defects detected here (snapshot writer; corrected later in /repo):
///  * `write_group` emitted a 36-byte group header (name_offset, flags, bbox, u16 0, u16
///    group_index); the on-disk header (docs; group_parser::MogpHeader) is 68 bytes.  The header
///    length is whichever of 68 / 36 is followed by a well-formed sub-chunk stream (68 tried first);
///  * `write_liquid` claimed `32 + vertices + tiles` for MLIQ but wrote a 40-byte header; `claimed
///    + 8` is tried only when the claimed size does not lead to the next sub-chunk.
/// Returns (header bytes: 68 or 36, sub-chunks).
fn split_group(bytes: &[u8]) -> Result<(Vec<u8>, Vec<Ck>), String> {
    if bytes.len() < 20 || &bytes[0..4] != b"REVM" || &bytes[12..16] != b"PGOM" {
        return Err("writer group output does not start with MVER, MOGP".into());
    }
    let mogp_size = rd_u32(bytes, 16) as usize;
    if 20 + mogp_size != bytes.len() {
        return Err(format!("MOGP size {} does not cover the rest of the file ({})", mogp_size, bytes.len() - 20));
    }
    let mut why = Vec::new();
    for h in [MOGP_HEADER, SHORT_MOGP_HEADER] {
        if mogp_size < h {
            why.push(format!("MOGP payload shorter than a {h}-byte header"));
            continue;
        }
        match split_stream(&bytes[20 + h..], &|id, claimed, _| if id == b"MLIQ" { vec![claimed + 8] } else { vec![] }) {
            Ok(subs) => return Ok((bytes[20..20 + h].to_vec(), subs)),
            Err(e) => why.push(format!("with a {h}-byte header: {e}")),
        }
    }
    Err(format!("cannot locate the MOGP sub-chunks ({})", why.join("; ")))
}

struct GroupExtras {
    /// number of MOTV / MOCV sets in the file (the writer gives one of each)
    motv_sets: usize,
    mocv_sets: usize,
    flags2: u32,
    /// put MLIQ where real files have it (before the extra MOTV/MOCV sets) instead of last.
    /// group_parser::parse_nested_chunks reads 24 bytes of MLIQ and does not skip the rest, so the
    /// newer parser sees nothing behind an MLIQ chunk.
    mliq_canonical: bool,
    /// extra sub-chunks, placed after MOCV (before MLIQ unless `mliq_canonical`)
    extra: Vec<Ck>,
}

/// On-disk 68-byte MOGP header.  A 36-byte writer header is widened (its name offset, flags and
/// bounding box are kept).  A 68-byte writer header is kept as written, except that the fields the
/// writer has no source for in `WmoGroupHeader` and therefore writes as zero (descriptive name,
/// portal range, batch counts, fog ids, liquid, area id, flags2, split-group links) are filled in
/// *where they are zero*, so that the rich seeds do not carry 32 zero bytes there.
fn mogp_header(w: &[u8], x: &GroupExtras, n_batches: u16) -> Vec<u8> {
    let mut fill = Vec::new(); // the values for bytes 36..68 (and 4..8)
    u16le(&mut fill, 0); // portal_start
    u16le(&mut fill, 2); // portal_count
    u16le(&mut fill, 0); // trans batches
    u16le(&mut fill, n_batches.min(1)); // int batches
    u16le(&mut fill, n_batches.saturating_sub(1)); // ext batches
    u16le(&mut fill, 0);
    fill.extend_from_slice(&[0, 1, 0, 0]); // fog ids
    u32le(&mut fill, 5); // group liquid
    u32le(&mut fill, 0x0001_86A1); // unique id (WMOAreaTable)
    u32le(&mut fill, x.flags2);
    i16le(&mut fill, -1);
    i16le(&mut fill, -1);
    let mut o = Vec::new();
    if w.len() == SHORT_MOGP_HEADER {
        o.extend_from_slice(&w[0..4]); // group name offset
        u32le(&mut o, 24); // descriptive name offset
        o.extend_from_slice(&w[4..8]); // flags
        o.extend_from_slice(&w[8..32]); // bounding box
        o.extend_from_slice(&fill);
    } else {
        o.extend_from_slice(w);
        if n_batches > 0 {
            // rich seeds only; the minimal group stays exactly as written
            if o[4..8] == [0, 0, 0, 0] {
                o[4..8].copy_from_slice(&24u32.to_le_bytes());
            }
            let mut at = 36;
            for width in [2usize, 2, 2, 2, 2, 2, 4, 4, 4, 4, 2, 2] {
                if o[at..at + width].iter().all(|b| *b == 0) {
                    o[at..at + width].copy_from_slice(&fill[at - 36..at - 36 + width]);
                }
                at += width;
            }
        }
    }
    debug_assert_eq!(o.len(), MOGP_HEADER);
    o
}

/// MLIQ as documented: 30-byte header, 8 bytes per vertex, 1 byte per tile
fn mliq_payload(xv: u32, yv: u32) -> Vec<u8> {
    let mut o = Vec::new();
    u32le(&mut o, xv);
    u32le(&mut o, yv);
    u32le(&mut o, xv - 1);
    u32le(&mut o, yv - 1);
    f32le(&mut o, -4.1666665);
    f32le(&mut o, 8.333333);
    f32le(&mut o, 0.5);
    u16le(&mut o, 1); // material id
    for i in 0..(xv * yv) {
        o.extend_from_slice(&[i as u8, 0, 1, 0x40]); // flow1, flow2, flow1pct, filler
        f32le(&mut o, 0.5 + 0.125 * i as f32); // height
    }
    for i in 0..((xv - 1) * (yv - 1)) {
        o.push(if i % 2 == 0 { 0x04 } else { 0x0F });
    }
    o
}

/// writer output -> complete group file
fn complete_group(raw: &[u8], x: GroupExtras) -> Result<Vec<u8>, String> {
    let (whdr, subs) = split_group(raw)?;
    let get = |n: &str| -> Option<Ck> { pos(&subs, n).map(|i| subs[i].clone()) };
    let n_tris = get("MOVI").map(|c| c.data.len() / 6).unwrap_or(0);
    let n_verts = get("MOVT").map(|c| c.data.len() / 12).unwrap_or(0);
    let n_batches = get("MOBA").map(|c| c.data.len() / 24).unwrap_or(0) as u16;
    // the writer's MLIQ is kept when its size field is right; it is replaced by a doc-layout one
    // only when the size defect was detected (the chunk then does not even describe its own extent)
    let mliq = get("MLIQ").map(|c| if c.resized { ck("MLIQ", mliq_payload(3, 2)) } else { c });
    let rich = n_tris > 0;

    let mut cs: Vec<Ck> = Vec::new();
    if rich {
        // MOPY: flags, material per triangle
        let mut d = Vec::new();
        for t in 0..n_tris {
            d.push(if t % 2 == 0 { 0x20 } else { 0x28 });
            d.push(t as u8 % 2);
        }
        cs.push(ck("MOPY", d));
    }
    for n in ["MOVI", "MOVT", "MONR", "MOTV", "MOBA"] {
        if let Some(c) = get(n) {
            cs.push(c);
        }
    }
    if rich {
        let mut d = Vec::new();
        u16le(&mut d, 0);
        u16le(&mut d, 1);
        cs.push(ck("MOLR", d));
    }
    if let Some(c) = get("MODR") {
        cs.push(c);
    }
    if let Some(c) = get("MOBN") {
        cs.push(c);
        let mut d = Vec::new();
        for t in 0..n_tris.max(1) {
            u16le(&mut d, t as u16);
        }
        cs.push(ck("MOBR", d));
    }
    if let Some(c) = get("MOCV") {
        cs.push(c);
    }
    let mut tail: Vec<Ck> = Vec::new();
    for s in 1..x.motv_sets {
        let mut d = Vec::new();
        for i in 0..n_verts {
            f32le(&mut d, 0.5 * s as f32 + 0.0625 * i as f32);
            f32le(&mut d, 1.0 - 0.25 * i as f32);
        }
        tail.push(ck("MOTV", d));
    }
    for s in 1..x.mocv_sets {
        let mut d = Vec::new();
        for i in 0..n_verts {
            d.extend_from_slice(&[0x80 + i as u8, 0x70, 0x60 + s as u8, 0xFF]);
        }
        tail.push(ck("MOCV", d));
    }
    if x.mliq_canonical {
        cs.extend(mliq);
        cs.extend(x.extra.iter().cloned());
        cs.extend(tail);
    } else {
        cs.extend(tail);
        cs.extend(x.extra.iter().cloned());
        cs.extend(mliq);
    }

    let mut mogp = mogp_header(&whdr, &x, n_batches);
    mogp.extend_from_slice(&emit_all(&cs));
    let mut out = raw[0..12].to_vec(); // the writer's MVER chunk
    emit(&mut out, &ck("MOGP", mogp));
    Ok(out)
}

/// group sub-chunks the newer parser reads (group_parser.rs) and the writer never emits — classic-era set
fn group_new_chunks_a() -> Vec<Ck> {
    let mut v = Vec::new();
    // MORI: triangle strip indices
    let mut d = Vec::new();
    for i in [0u16, 1, 2, 3, 0xFFFF, 2, 3, 0] {
        u16le(&mut d, i);
    }
    v.push(ck("MORI", d));
    // MORB: 10 bytes per batch
    let mut d = Vec::new();
    for (s, n) in [(0u16, 4u16), (5, 3)] {
        u16le(&mut d, s);
        u16le(&mut d, n);
        u16le(&mut d, 0);
        u16le(&mut d, 3);
        d.push(0);
        d.push(1);
    }
    v.push(ck("MORB", d));
    // MOTA: one packed tangent per vertex
    let mut d = Vec::new();
    for i in 0..4i16 {
        for t in [32767i16, 0, -32767 + i, 32767] {
            i16le(&mut d, t);
        }
    }
    v.push(ck("MOTA", d));
    // MOBS: shadow batches, 10 bytes each
    let mut d = Vec::new();
    for (s, n) in [(0u16, 3i16), (3, -3)] {
        u16le(&mut d, s);
        i16le(&mut d, n);
        u16le(&mut d, 0);
        u16le(&mut d, 3);
        d.push(0x10);
        d.push(0);
    }
    v.push(ck("MOBS", d));
    v
}

/// later-expansion set
fn group_new_chunks_b() -> Vec<Ck> {
    let mut v = Vec::new();
    let mut d = Vec::new();
    u32le(&mut d, 1);
    v.push(ck("MOGX", d)); // query face start
    let mut d = Vec::new();
    for (f, m) in [(0x20u16, 0u16), (0x28, 1)] {
        u16le(&mut d, f);
        u16le(&mut d, m);
    }
    v.push(ck("MPY2", d));
    let mut d = Vec::new();
    for i in [0u32, 1, 2, 2, 3, 0] {
        u32le(&mut d, i);
    }
    v.push(ck("MOVX", d));
    let mut d = Vec::new();
    u32le(&mut d, 3);
    u32le(&mut d, 0);
    v.push(ck("MOQG", d));
    // MDAL: replacement ambient colour (one CArgb)
    v.push(ck("MDAL", vec![0x20, 0x40, 0x60, 0xFF]));
    // MOPL: terrain cutting planes (C4Plane each)
    let mut d = Vec::new();
    for f in [0.0f32, 0.0, 1.0, -0.25, 1.0, 0.0, 0.0, 3.0] {
        f32le(&mut d, f);
    }
    v.push(ck("MOPL", d));
    // MOPB: prepass batches (same 24-byte layout as MOBA)
    let mut d = vec![0u8; 12];
    u32le(&mut d, 0);
    u16le(&mut d, 6);
    u16le(&mut d, 0);
    u16le(&mut d, 3);
    d.push(0);
    d.push(1);
    v.push(ck("MOPB", d));
    // MOLS / MOLP: spot / point lights (opaque here; 56 and 44 bytes per entry)
    v.push(ck("MOLS", (0u8..56).collect()));
    v.push(ck("MOLP", (0u8..44).collect()));
    // MOLR-style reference lists from later versions
    v.push(ck("MOBR", vec![0, 0, 1, 0]));
    v
}

// ------------------------------------------------------------------ seed table

struct Built {
    fmt: &'static str,
    name: String,
    bytes: Result<Vec<u8>, String>,
    /// rich seeds: every section the newer parser exposes must come back non-empty
    expect_full: bool,
    /// writer-verbatim seeds: entry points known to reject them are listed in `tolerated`
    tolerated: &'static [&'static str],
}

/// emit with an explicit (possibly wrong) size field
fn emit_claiming(out: &mut Vec<u8>, c: &Ck, claimed: usize) {
    let mut m = c.id;
    m.reverse();
    out.extend_from_slice(&m);
    u32le(out, claimed as u32);
    out.extend_from_slice(&c.data);
}

/// Rewrite a root written by a corrected writer into what the snapshot writer produced: 60-byte
/// MOHD (flags as u32 at +32, no tail) and a MOMT size field of 40 per material below MoP.  Bytes
/// that already have that shape are left alone.
fn degrade_root(raw: &[u8], ver: WmoVersion) -> Result<Vec<u8>, String> {
    let cs = split_root(raw)?;
    let mut out = Vec::new();
    for c in &cs {
        let mut c = c.clone();
        if &c.id == b"MOHD" && c.data.len() == 64 {
            let fl = u16::from_le_bytes([c.data[60], c.data[61]]) as u32;
            c.data.truncate(60);
            c.data[32..36].copy_from_slice(&fl.to_le_bytes());
        }
        let mut claimed = c.data.len();
        if &c.id == b"MOMT" && ver < WmoVersion::Mop {
            claimed = c.data.len() / 64 * 40;
        }
        emit_claiming(&mut out, &c, claimed);
    }
    Ok(out)
}

/// Same for a group: 36-byte MOGP header, MLIQ size field 8 short.
fn degrade_group(raw: &[u8]) -> Result<Vec<u8>, String> {
    let (hdr, subs) = split_group(raw)?;
    let mut body = Vec::new();
    if hdr.len() == MOGP_HEADER {
        body.extend_from_slice(&hdr[0..4]);
        body.extend_from_slice(&hdr[8..36]);
        u16le(&mut body, 0);
        u16le(&mut body, 1);
    } else {
        body.extend_from_slice(&hdr);
    }
    for c in &subs {
        let claimed = if &c.id == b"MLIQ" && !c.resized { c.data.len() - 8 } else { c.data.len() };
        emit_claiming(&mut body, c, claimed);
    }
    let mut out = raw[0..12].to_vec();
    emit(&mut out, &ck("MOGP", body));
    Ok(out)
}

fn build() -> Vec<Built> {
    build_with(false)
}

/// `old_layout`: first rewrite the writer's bytes into the layout of the snapshot (defective)
/// writer, see `degrade_root` / `degrade_group`; used by the self test to prove that every seed is
/// also built, and valid, from that writer's output.
fn build_with(old_layout: bool) -> Vec<Built> {
    let mut v: Vec<Built> = Vec::new();
    let write_root = |x: &LegacyRoot, ver: WmoVersion| -> Result<Vec<u8>, String> {
        let raw = write_root(x, ver)?;
        if old_layout {
            degrade_root(&raw, ver)
        } else {
            Ok(raw)
        }
    };
    let write_group = |g: &LegacyGroup, ver: WmoVersion| -> Result<Vec<u8>, String> {
        let raw = write_group(g, ver)?;
        if old_layout {
            degrade_group(&raw)
        } else {
            Ok(raw)
        }
    };

    // 1. rich roots, one per version
    for (ver, tag) in VERSIONS {
        let bytes = write_root(&rich_root(ver), ver).and_then(|raw| complete_root(&raw, ver)).map(|cs| emit_all(&cs));
        v.push(Built { fmt: "wmo_root", name: format!("root_{tag}_rich"), bytes, expect_full: true, tolerated: &[] });
    }
    // minimal root (MVER + MOHD), MOHD padded to 64 bytes
    let bytes = write_root(&min_root(WmoVersion::Wotlk), WmoVersion::Wotlk).and_then(|raw| {
        let mut cs = split_root(&raw)?;
        pad_mohd(&mut cs);
        Ok(emit_all(&cs))
    });
    v.push(Built { fmt: "wmo_root", name: "root_min".into(), bytes, expect_full: false, tolerated: &[] });
    // writer bytes untouched (MoP target: the only one whose MOMT size field is right)
    let bytes = write_root(&rich_root(WmoVersion::Mop), WmoVersion::Mop);
    v.push(Built { fmt: "wmo_root", name: "root_mop_writer_verbatim".into(), bytes, expect_full: false, tolerated: &[] });
    // rich + chunks of later expansions
    let bytes = write_root(&rich_root(WmoVersion::Wotlk), WmoVersion::Wotlk).and_then(|raw| complete_root(&raw, WmoVersion::Wotlk)).map(|mut cs| {
        let extra = root_new_chunks();
        // GFID directly after MOGI like in real files, the rest at the end
        insert_after(&mut cs, "MOGI", extra[0].clone());
        cs.extend(extra[1..].iter().cloned());
        emit_all(&cs)
    });
    v.push(Built { fmt: "wmo_root", name: "root_wotlk_newchunks".into(), bytes, expect_full: true, tolerated: &[] });
    // the magic spellings chunk_id.rs lists first for MOVB / MFOG ("VBOM", "GFOM"; the writer and
    // the older parser use "BVOM", "GOFM"), doc-layout MOVV/MOVB, and the other root ids chunk_id.rs names
    let bytes = write_root(&rich_root(WmoVersion::Mop), WmoVersion::Mop).and_then(|raw| complete_root(&raw, WmoVersion::Mop)).map(|mut cs| {
        if let Some(i) = pos(&cs, "MOVV") {
            let mut d = Vec::new();
            for p in [(0.0f32, 0.0f32, 0.0f32), (1.0, 0.0, 0.0), (1.0, 1.0, 0.0), (0.0, 1.0, 0.5)] {
                f32le(&mut d, p.0);
                f32le(&mut d, p.1);
                f32le(&mut d, p.2);
            }
            cs[i].data = d;
        }
        if let Some(i) = pos(&cs, "MOVB") {
            let mut d = Vec::new();
            u16le(&mut d, 0);
            u16le(&mut d, 4);
            cs[i] = ck_disk("VBOM", d);
        }
        if let Some(i) = pos(&cs, "MFOG") {
            let d = cs[i].data.clone();
            cs[i] = ck_disk("GFOM", d);
        }
        cs.push(ck_disk("VFOM", vec![0u8; 8]));
        cs.push(ck_disk("HPOM", vec![0u8; 8]));
        cs.push(ck_disk("BGOM", vec![0u8; 8]));
        cs.push(ck_disk("GDMM", vec![0u8; 8]));
        let mut d = Vec::new();
        u32le(&mut d, 7);
        u32le(&mut d, 8);
        cs.push(ck("GFID", d));
        emit_all(&cs)
    });
    v.push(Built { fmt: "wmo_root", name: "root_mop_altmagic".into(), bytes, expect_full: true, tolerated: &[] });

    // 2. groups
    let rich_raw = |ver| write_group(&rich_group(), ver);
    let bytes = rich_raw(WmoVersion::Classic)
        .and_then(|raw| complete_group(&raw, GroupExtras { motv_sets: 1, mocv_sets: 1, flags2: 0, mliq_canonical: false, extra: vec![] }));
    v.push(Built { fmt: "wmo_group", name: "group_classic_rich".into(), bytes, expect_full: true, tolerated: &[] });
    let bytes = rich_raw(WmoVersion::Tbc)
        .and_then(|raw| complete_group(&raw, GroupExtras { motv_sets: 2, mocv_sets: 1, flags2: 0, mliq_canonical: true, extra: vec![] }));
    v.push(Built { fmt: "wmo_group", name: "group_tbc_rich".into(), bytes, expect_full: false, tolerated: &[] });
    let bytes = rich_raw(WmoVersion::Wotlk)
        .and_then(|raw| complete_group(&raw, GroupExtras { motv_sets: 2, mocv_sets: 2, flags2: 0, mliq_canonical: false, extra: vec![] }));
    v.push(Built { fmt: "wmo_group", name: "group_wotlk_rich".into(), bytes, expect_full: true, tolerated: &[] });
    let bytes = rich_raw(WmoVersion::Mop)
        .and_then(|raw| complete_group(&raw, GroupExtras { motv_sets: 3, mocv_sets: 2, flags2: 0x41, mliq_canonical: false, extra: vec![] }));
    v.push(Built { fmt: "wmo_group", name: "group_mop_rich".into(), bytes, expect_full: true, tolerated: &[] });
    let bytes = write_group(&min_group(), WmoVersion::Wotlk)
        .and_then(|raw| complete_group(&raw, GroupExtras { motv_sets: 1, mocv_sets: 1, flags2: 0, mliq_canonical: false, extra: vec![] }));
    v.push(Built { fmt: "wmo_group", name: "group_min".into(), bytes, expect_full: false, tolerated: &[] });
    // writer bytes untouched: 36-byte header, so the newer parser reads the first 32 sub-chunk bytes
    // as header fields and then finds no sub-chunk; kept because parse_wmo returns Ok for it
    let bytes = rich_raw(WmoVersion::Wotlk);
    v.push(Built { fmt: "wmo_group", name: "group_wotlk_writer_verbatim".into(), bytes, expect_full: false, tolerated: &[] });
    let bytes = rich_raw(WmoVersion::Wotlk).and_then(|raw| {
        complete_group(&raw, GroupExtras { motv_sets: 2, mocv_sets: 2, flags2: 0, mliq_canonical: false, extra: group_new_chunks_a() })
    });
    v.push(Built { fmt: "wmo_group", name: "group_wotlk_newchunks".into(), bytes, expect_full: true, tolerated: &[] });
    let bytes = rich_raw(WmoVersion::Mop).and_then(|raw| {
        let mut extra = group_new_chunks_a();
        extra.extend(group_new_chunks_b());
        complete_group(&raw, GroupExtras { motv_sets: 2, mocv_sets: 2, flags2: 0x1, mliq_canonical: false, extra })
    });
    v.push(Built { fmt: "wmo_group", name: "group_mop_newchunks".into(), bytes, expect_full: true, tolerated: &[] });
    v
}

pub fn seeds() -> Vec<RawSeed> {
    build().into_iter().filter_map(|b| b.bytes.ok().map(|bytes| RawSeed::new(b.fmt, b.name, bytes))).collect()
}

/// Additional seeds of the thorough tier: the MVER values the writer emits beyond MoP (18..23) for
/// rich roots and groups, a Cataclysm group, and roots / groups with every later-expansion chunk.
/// A seed the writer refuses or `parse_wmo` does not accept is left out.
pub fn seeds_thorough_extra() -> Vec<RawSeed> {
    const MORE: [(WmoVersion, &str); 6] = [
        (WmoVersion::Wod, "wod"),
        (WmoVersion::Legion, "legion"),
        (WmoVersion::Bfa, "bfa"),
        (WmoVersion::Shadowlands, "shadowlands"),
        (WmoVersion::Dragonflight, "dragonflight"),
        (WmoVersion::WarWithin, "tww"),
    ];
    let accepted = |b: &[u8]| guard(|| wow_wmo::parse_wmo(&mut Cursor::new(b)).map(|_| ()).map_err(|e| e.to_string())).is_ok();
    let mut out = Vec::new();
    for (ver, tag) in MORE {
        if let Ok(b) = write_root(&rich_root(ver), ver).and_then(|raw| complete_root(&raw, ver)).map(|cs| emit_all(&cs)) {
            if accepted(&b) {
                out.push(RawSeed::new("wmo_root", format!("root_{tag}_rich"), b));
            }
        }
    }
    // later-expansion chunks on the newest container version
    if let Ok(b) = write_root(&rich_root(WmoVersion::WarWithin), WmoVersion::WarWithin).and_then(|raw| complete_root(&raw, WmoVersion::WarWithin)).map(|mut cs| {
        let extra = root_new_chunks();
        insert_after(&mut cs, "MOGI", extra[0].clone());
        cs.extend(extra[1..].iter().cloned());
        emit_all(&cs)
    }) {
        if accepted(&b) {
            out.push(RawSeed::new("wmo_root", "root_tww_newchunks", b));
        }
    }
    let groups: [(WmoVersion, &str, usize, usize, u32, bool); 7] = [
        (WmoVersion::Cataclysm, "cata", 2, 2, 0, false),
        (WmoVersion::Wod, "wod", 3, 2, 0x41, false),
        (WmoVersion::Legion, "legion", 2, 2, 0x1, true),
        (WmoVersion::Bfa, "bfa", 3, 2, 0, false),
        (WmoVersion::Shadowlands, "shadowlands", 2, 1, 0x40, false),
        (WmoVersion::Dragonflight, "dragonflight", 1, 2, 0, true),
        (WmoVersion::WarWithin, "tww", 3, 2, 0x41, false),
    ];
    for (ver, tag, motv_sets, mocv_sets, flags2, mliq_canonical) in groups {
        let newchunks = matches!(ver, WmoVersion::Legion | WmoVersion::WarWithin);
        let extra = if newchunks {
            let mut e = group_new_chunks_a();
            e.extend(group_new_chunks_b());
            e
        } else {
            vec![]
        };
        if let Ok(b) = write_group(&rich_group(), ver).and_then(|raw| complete_group(&raw, GroupExtras { motv_sets, mocv_sets, flags2, mliq_canonical, extra })) {
            if accepted(&b) {
                out.push(RawSeed::new("wmo_group", format!("group_{tag}_{}", if newchunks { "newchunks" } else { "rich" }), b));
            }
        }
    }
    out
}

// ------------------------------------------------------------------ self test

fn guard<T>(f: impl FnOnce() -> Result<T, String>) -> Result<T, String> {
    match catch_unwind(AssertUnwindSafe(f)) {
        Ok(r) => r,
        Err(p) => {
            let m = p.downcast_ref::<String>().cloned().or_else(|| p.downcast_ref::<&str>().map(|s| s.to_string())).unwrap_or_default();
            Err(format!("PANIC {m}"))
        }
    }
}

/// (entry point, outcome) for every parser entry point that applies to `fmt`
fn run_entry_points(fmt: &str, bytes: &[u8]) -> Vec<(&'static str, Result<String, String>)> {
    let mut out: Vec<(&'static str, Result<String, String>)> = Vec::new();
    let want_root = fmt == "wmo_root";
    let kind = |w: &ParsedWmo| match w {
        ParsedWmo::Root(_) => "root",
        ParsedWmo::Group(_) => "group",
    };
    let right_kind = |k: &str| -> Result<String, String> {
        if (k == "root") == want_root {
            Ok(k.to_string())
        } else {
            Err(format!("detected as {k}"))
        }
    };
    out.push((
        "parse_wmo",
        guard(|| {
            let w = wow_wmo::parse_wmo(&mut Cursor::new(bytes)).map_err(|e| e.to_string())?;
            right_kind(kind(&w))
        }),
    ));
    out.push((
        "parse_wmo_with_metadata",
        guard(|| {
            let r = wow_wmo::parse_wmo_with_metadata(&mut Cursor::new(bytes)).map_err(|e| e.to_string())?;
            right_kind(kind(&r.wmo))
        }),
    ));
    out.push((
        "discover_wmo_chunks",
        guard(|| {
            let d = wow_wmo::discover_wmo_chunks(&mut Cursor::new(bytes)).map_err(|e| e.to_string())?;
            if d.is_truncated() || d.has_malformed_chunks() {
                return Err("discovery flags the file truncated/malformed".into());
            }
            Ok(format!("{} chunks", d.total_chunks()))
        }),
    ));
    if want_root {
        out.push((
            "WmoParser::parse_root",
            guard(|| WmoParser::new().parse_root(&mut Cursor::new(bytes)).map(|r| format!("{} groups", r.groups.len())).map_err(|e| e.to_string())),
        ));
        out.push((
            "root_parser::parse_root_file",
            guard(|| {
                let d = wow_wmo::discover_wmo_chunks(&mut Cursor::new(bytes)).map_err(|e| e.to_string())?;
                wow_wmo::root_parser::parse_root_file(&mut Cursor::new(bytes), d).map(|r| format!("{} groups", r.n_groups)).map_err(|e| e.to_string())
            }),
        ));
    } else {
        out.push((
            "WmoGroupParser::parse_group",
            guard(|| WmoGroupParser::new().parse_group(&mut Cursor::new(bytes), 0).map(|g| format!("{} verts", g.vertices.len())).map_err(|e| e.to_string())),
        ));
        out.push((
            "group_parser::parse_group_file",
            guard(|| {
                let d = wow_wmo::discover_wmo_chunks(&mut Cursor::new(bytes)).map_err(|e| e.to_string())?;
                wow_wmo::group_parser::parse_group_file(&mut Cursor::new(bytes), d).map(|g| format!("{} verts", g.n_vertices)).map_err(|e| e.to_string())
            }),
        ));
    }
    out
}

/// names of sections the newer parser returns empty
fn empty_sections(fmt: &str, name: &str, bytes: &[u8]) -> Result<Vec<&'static str>, String> {
    guard(|| {
        let w = wow_wmo::parse_wmo(&mut Cursor::new(bytes)).map_err(|e| e.to_string())?;
        let mut e: Vec<&'static str> = Vec::new();
        match w {
            ParsedWmo::Root(r) => {
                if fmt != "wmo_root" {
                    return Err("detected as root".into());
                }
                let mut t = |c: bool, n: &'static str| {
                    if c {
                        e.push(n)
                    }
                };
                t(r.version != 17, "MVER");
                t(r.n_materials == 0, "MOHD");
                t(r.textures.is_empty(), "MOTX");
                t(r.materials.is_empty(), "MOMT");
                t(r.group_names.is_empty(), "MOGN");
                t(r.group_info.is_empty(), "MOGI");
                t(r.skybox.is_none(), "MOSB");
                t(r.portal_vertices.is_empty(), "MOPV");
                t(r.portals.is_empty(), "MOPT");
                t(r.portal_refs.is_empty(), "MOPR");
                t(r.visible_vertices.is_empty(), "MOVV");
                t(r.visible_blocks.is_empty(), "MOVB");
                t(r.lights.is_empty(), "MOLT");
                t(r.doodad_sets.is_empty(), "MODS");
                t(r.doodad_names.is_empty(), "MODN");
                t(r.doodad_defs.is_empty(), "MODD");
                t(r.fogs.is_empty(), "MFOG");
                if name.contains("cata") || name.contains("mop") {
                    t(r.convex_volume_planes.is_empty(), "MCVP");
                }
                if name.contains("newchunks") || name.contains("altmagic") {
                    t(r.group_file_ids.is_empty(), "GFID");
                }
            }
            ParsedWmo::Group(g) => {
                if fmt != "wmo_group" {
                    return Err("detected as group".into());
                }
                let mut t = |c: bool, n: &'static str| {
                    if c {
                        e.push(n)
                    }
                };
                t(g.version != 17, "MVER");
                t(g.bounding_box.len() != 6, "MOGP");
                t(g.material_info.is_empty(), "MOPY");
                t(g.vertex_indices.is_empty(), "MOVI");
                t(g.vertex_positions.is_empty(), "MOVT");
                t(g.vertex_normals.is_empty(), "MONR");
                t(g.texture_coords.is_empty(), "MOTV");
                t(g.render_batches.is_empty(), "MOBA");
                t(g.vertex_colors.is_empty(), "MOCV");
                t(g.bsp_nodes.is_empty(), "MOBN");
                t(g.bsp_face_indices.is_empty(), "MOBR");
                t(g.liquid_header.is_none(), "MLIQ");
                if name.contains("newchunks") {
                    t(g.triangle_strip_indices.is_empty(), "MORI");
                    t(g.additional_render_batches.is_empty(), "MORB");
                    t(g.tangent_arrays.is_empty(), "MOTA");
                    t(g.shadow_batches.is_empty(), "MOBS");
                }
            }
        }
        Ok(e)
    })
}

/// The older group parser is a stub that returns this error for every input.
const LEGACY_GROUP_STUB: &str = "Legacy parser not yet migrated";

const EXPECTED_NAMES: [&str; 17] = [
    "root_classic_rich",
    "root_tbc_rich",
    "root_wotlk_rich",
    "root_cata_rich",
    "root_mop_rich",
    "root_min",
    "root_mop_writer_verbatim",
    "root_wotlk_newchunks",
    "root_mop_altmagic",
    "group_classic_rich",
    "group_tbc_rich",
    "group_wotlk_rich",
    "group_mop_rich",
    "group_min",
    "group_wotlk_writer_verbatim",
    "group_wotlk_newchunks",
    "group_mop_newchunks",
];

pub fn selftest() -> Result<(), String> {
    let mut errs: Vec<String> = Vec::new();
    for (old_layout, tag) in [(false, ""), (true, " [from snapshot-writer layout]")] {
        let built = build_with(old_layout);
        let names: Vec<&str> = built.iter().map(|b| b.name.as_str()).collect();
        if names != EXPECTED_NAMES {
            errs.push(format!("seed names{tag}: {:?}", names));
        }
        for b in &built {
            let bytes = match &b.bytes {
                Ok(x) => x,
                Err(e) => {
                    errs.push(format!("{}{tag}: not built: {e}", b.name));
                    continue;
                }
            };
            for (ep, r) in run_entry_points(b.fmt, bytes) {
                if let Err(e) = r {
                    let stub = ep == "WmoGroupParser::parse_group" && e.contains(LEGACY_GROUP_STUB);
                    if !stub && !b.tolerated.contains(&ep) {
                        errs.push(format!("{}{tag}: {ep}: {e}", b.name));
                    }
                }
            }
            if b.expect_full {
                match empty_sections(b.fmt, &b.name, bytes) {
                    Ok(e) if e.is_empty() => {}
                    Ok(e) => errs.push(format!("{}{tag}: sections empty after parse_wmo: {}", b.name, e.join(","))),
                    Err(e) => errs.push(format!("{}{tag}: {e}", b.name)),
                }
            }
        }
    }
    if seeds().len() != EXPECTED_NAMES.len() {
        errs.push(format!("seeds() returns {} of {} seeds", seeds().len(), EXPECTED_NAMES.len()));
    }
    // determinism
    let a = seeds();
    let b2 = seeds();
    if a.len() != b2.len() || a.iter().zip(b2.iter()).any(|(x, y)| x.name != y.name || x.bytes != y.bytes) {
        errs.push("seeds() is not deterministic".into());
    }
    if errs.is_empty() {
        Ok(())
    } else {
        Err(errs.join("\n"))
    }
}

/// Human-readable acceptance matrix (used by the st_wmo test binary with `-v`).
pub fn report() -> String {
    let mut s = String::new();
    for b in build() {
        match &b.bytes {
            Err(e) => s.push_str(&format!("{} {}: NOT BUILT: {e}\n", b.fmt, b.name)),
            Ok(bytes) => {
                s.push_str(&format!("{} {} ({} bytes)\n", b.fmt, b.name, bytes.len()));
                if let Ok(d) = wow_wmo::discover_wmo_chunks(&mut Cursor::new(bytes)) {
                    let ids: Vec<String> = d.chunks.iter().map(|c| format!("{}:{}", c.id.as_str(), c.size)).collect();
                    s.push_str(&format!("    top-level: {}\n", ids.join(" ")));
                }
                for (ep, r) in run_entry_points(b.fmt, bytes) {
                    match r {
                        Ok(m) => s.push_str(&format!("    ok   {ep} ({m})\n")),
                        Err(e) => s.push_str(&format!("    FAIL {ep}: {e}\n")),
                    }
                }
                match empty_sections(b.fmt, &b.name, bytes) {
                    Ok(e) => s.push_str(&format!("    empty after parse_wmo: [{}]\n", e.join(","))),
                    Err(e) => s.push_str(&format!("    empty_sections: {e}\n")),
                }
            }
        }
    }
    // writer outputs that are NOT seeds: what the parsers make of them without any completion
    let probes: Vec<(&'static str, &'static str, Result<Vec<u8>, String>)> = vec![
        ("wmo_root", "probe: rich root, Classic target, writer bytes untouched", write_root(&rich_root(WmoVersion::Classic), WmoVersion::Classic)),
        ("wmo_root", "probe: rich root, Wotlk target, writer bytes untouched", write_root(&rich_root(WmoVersion::Wotlk), WmoVersion::Wotlk)),
        ("wmo_root", "probe: minimal root, writer bytes untouched", write_root(&min_root(WmoVersion::Wotlk), WmoVersion::Wotlk)),
        ("wmo_group", "probe: minimal group, writer bytes untouched", write_group(&min_group(), WmoVersion::Wotlk)),
        ("wmo_group", "probe: rich group, Wod target (LiquidV2), writer bytes untouched", write_group(&rich_group(), WmoVersion::Wod)),
    ];
    // which writer defects are detected (= which conditional repairs fire) on the writer's bytes as
    // they are today, and on the same bytes rewritten into the snapshot writer's layout
    let root_defects = |raw: &[u8]| -> String {
        match split_root(raw) {
            Err(e) => format!("unsplittable: {e}"),
            Ok(cs) => {
                let mut d: Vec<String> = Vec::new();
                if let Some(i) = pos(&cs, "MOHD") {
                    if cs[i].data.len() != 64 {
                        d.push(format!("MOHD is {} bytes (padded to 64)", cs[i].data.len()));
                    }
                }
                if let Some(i) = pos(&cs, "MOMT") {
                    if cs[i].resized {
                        d.push("MOMT size field wrong (re-sized to 64/material)".into());
                    }
                }
                if pos(&cs, "MOSB").is_none() && pos(&cs, "MOGI").is_some() {
                    d.push("no MOSB (inserted)".into());
                }
                if d.is_empty() { "none".into() } else { d.join("; ") }
            }
        }
    };
    let group_defects = |raw: &[u8]| -> String {
        match split_group(raw) {
            Err(e) => format!("unsplittable: {e}"),
            Ok((h, subs)) => {
                let mut d: Vec<String> = Vec::new();
                if h.len() != MOGP_HEADER {
                    d.push(format!("MOGP header is {} bytes (widened to 68)", h.len()));
                }
                if subs.iter().any(|c| &c.id == b"MLIQ" && c.resized) {
                    d.push("MLIQ size field wrong (chunk replaced by a doc-layout one)".into());
                }
                if d.is_empty() { "none".into() } else { d.join("; ") }
            }
        }
    };
    for (ver, tag) in VERSIONS {
        if let Ok(raw) = write_root(&rich_root(ver), ver) {
            s.push_str(&format!("repairs needed, rich root {tag}: today's writer: {} | snapshot layout: {}\n", root_defects(&raw), degrade_root(&raw, ver).map(|r| root_defects(&r)).unwrap_or_else(|e| e)));
        }
    }
    if let Ok(raw) = write_root(&min_root(WmoVersion::Wotlk), WmoVersion::Wotlk) {
        s.push_str(&format!("repairs needed, min root: today's writer: {} | snapshot layout: {}\n", root_defects(&raw), degrade_root(&raw, WmoVersion::Wotlk).map(|r| root_defects(&r)).unwrap_or_else(|e| e)));
    }
    for (label, g) in [("rich group", rich_group()), ("min group", min_group())] {
        if let Ok(raw) = write_group(&g, WmoVersion::Wotlk) {
            s.push_str(&format!("repairs needed, {label}: today's writer: {} | snapshot layout: {}\n", group_defects(&raw), degrade_group(&raw).map(|r| group_defects(&r)).unwrap_or_else(|e| e)));
        }
    }
    // which of the later-expansion chunks in the *_newchunks seeds reach the parsed structures
    for b in build() {
        if let (true, Ok(bytes)) = (b.name.contains("newchunks"), &b.bytes) {
            let r = guard(|| {
                Ok(match wow_wmo::parse_wmo(&mut Cursor::new(bytes)).map_err(|e| e.to_string())? {
                    ParsedWmo::Root(r) => format!(
                        "GFID={} MOUV={} MOPE={} MOLV={} MODI={} MOM3={}",
                        r.group_file_ids.len(), r.uv_transforms.len(), r.portal_extras.len(), r.light_extensions.len(), r.doodad_ids.len(), r.new_materials.len()
                    ),
                    ParsedWmo::Group(g) => format!(
                        "MORI={} MORB={} MOTA={} MOBS={} MOGX={:?} MPY2={} MOVX={} MOQG={} MOLR={} MODR={}",
                        g.triangle_strip_indices.len(), g.additional_render_batches.len(), g.tangent_arrays.len(), g.shadow_batches.len(),
                        g.query_face_start, g.extended_materials.len(), g.extended_vertex_indices.len(), g.query_faces.len(), g.light_refs.len(), g.doodad_refs.len()
                    ),
                })
            });
            s.push_str(&format!("parsed element counts, {}: {:?}\n", b.name, r));
        }
    }
    // MOGP size field smaller than the 68-byte header while 68 bytes are present
    if let Some(Ok(mut bytes)) = build().into_iter().find(|b| b.name == "group_min").map(|b| b.bytes) {
        bytes[16..20].copy_from_slice(&10u32.to_le_bytes());
        let r = guard(|| wow_wmo::parse_wmo(&mut Cursor::new(&bytes)).map(|_| "ok".to_string()).map_err(|e| e.to_string()));
        s.push_str(&format!("probe: group_min with MOGP size field = 10: {:?}\n", r));
    }
    for (fmt, label, bytes) in probes {
        match bytes {
            Err(e) => s.push_str(&format!("{label}: writer failed: {e}\n")),
            Ok(bytes) => {
                s.push_str(&format!("{label} ({} bytes)\n", bytes.len()));
                if let Ok(d) = wow_wmo::discover_wmo_chunks(&mut Cursor::new(&bytes)) {
                    let ids: Vec<String> = d.chunks.iter().map(|c| format!("{}:{}", c.id.as_str(), c.size)).collect();
                    s.push_str(&format!("    top-level: {} (truncated={} malformed={})\n", ids.join(" "), d.is_truncated(), d.malformed_count()));
                }
                for (ep, r) in run_entry_points(fmt, &bytes) {
                    match r {
                        Ok(m) => s.push_str(&format!("    ok   {ep} ({m})\n")),
                        Err(e) => s.push_str(&format!("    FAIL {ep}: {e}\n")),
                    }
                }
            }
        }
    }
    s
}
