//! C06 — in-place archive modification behaves as a persistent name→bytes map.
//!
//! Explicit-state search over the REAL implementation.  A *state* is an archive image at
//! quiescence (closed file) together with the reference map that the library's own return values
//! produced.  From every state, every operation sequence of length 1..=L over the alphabet is
//! executed on a private copy through the real `MutableArchive`, the handle is dropped (close),
//! the archive is reopened read-only and compared with the reference map; the resulting image is
//! a successor state, deduplicated by a canonical key of the file (all bytes except the
//! (attributes) payload, whose time stamps differ between runs).  Because the in-memory state
//! after a reopen is a function of the file alone, equal keys have equal futures.
use refimpl::mpqref::{self, WFile, WOptions};
use serde_json::{json, Value};
use std::collections::{BTreeMap, BTreeSet, HashMap};
use std::path::{Path, PathBuf};
use vcore::*;
use wow_mpq::compression::CompressionMethod;
use wow_mpq::{AddFileOptions, Archive, ArchiveBuilder, AttributesOption, FormatVersion, ListfileOption, MutableArchive};

const W_NAME: &str = "Witness\\Keep.dat";

fn names() -> [String; 5] {
    // A, B collide in the start slot (low 4 bits => also for 4- and 8-slot tables); C is A in another
    // spelling; D is fresh (different slot)
    let a = "dir\\alpha.txt".to_string();
    let slot = refimpl::mpqcrypt::hash_name(a.as_bytes(), 0) & 15;
    let mut b = String::new();
    let mut d = String::new();
    for k in 0..100000 {
        let cand = format!("other\\beta{k}.bin");
        let s = refimpl::mpqcrypt::hash_name(cand.as_bytes(), 0) & 15;
        if b.is_empty() && s == slot {
            b = cand;
        } else if d.is_empty() && s != slot && (s & 3) != (slot & 3) {
            d = cand;
        }
        if !b.is_empty() && !d.is_empty() {
            break;
        }
    }
    // E is a proper substring of A's name (and of its listfile line): listfile bookkeeping must compare whole lines
    [a, b, "DIR/ALPHA.TXT".to_string(), d, "alpha.txt".to_string()]
}
fn fold(n: &str) -> String {
    mpqx::fold(n)
}
fn contents(id: usize) -> Vec<u8> {
    match id {
        0 => b"hello".to_vec(),
        1 => gen::content("period251", 700, 4096, 3),
        2 => vec![],
        3 => gen::content("half", 9001, 4096, 5),
        9 => gen::content("incompressible", 600, 4096, 77), // witness
        10 => gen::content("period2", 333, 4096, 1),        // second pre-existing file in small tables
        _ => unreachable!(),
    }
}

#[derive(Clone, Debug, PartialEq)]
enum Op {
    Add(usize, usize, usize), // name, content, opt
    Remove(usize),
    Rename(usize, usize),
    Compact,
    Flush,
}
const OPTS: [&str; 5] = ["default", "no-compress", "encrypt", "no-replace", "encrypt+fixkey"];
fn opt_of(o: usize) -> AddFileOptions {
    match o {
        0 => AddFileOptions::new(),
        1 => AddFileOptions::new().compression(CompressionMethod::None),
        2 => AddFileOptions::new().encrypt(),
        3 => AddFileOptions::new().replace_existing(false),
        _ => AddFileOptions::new().encrypt().fix_key(),
    }
}
fn op_str(o: &Op) -> String {
    let n = ["A", "B", "C", "D", "E"];
    match o {
        Op::Add(a, c, p) => format!("add({},c{},{})", n[*a], c, OPTS[*p]),
        Op::Remove(a) => format!("remove({})", n[*a]),
        Op::Rename(a, b) => format!("rename({},{})", n[*a], n[*b]),
        Op::Compact => "compact".into(),
        Op::Flush => "flush".into(),
    }
}
/// focused alphabet on the two colliding names (A, B) plus the fresh name D: deep sequences stay cheap
fn alphabet_collide() -> Vec<Op> {
    let mut v = vec![];
    for n in [0usize, 1] {
        for c in [0usize, 1] {
            for p in [0usize, 3] {
                v.push(Op::Add(n, c, p));
            }
        }
        v.push(Op::Remove(n));
    }
    for (a, b) in [(0, 3), (1, 3), (3, 0), (3, 1)] {
        v.push(Op::Rename(a, b));
    }
    v.push(Op::Flush);
    v
}
fn alphabet(tier: Tier) -> Vec<Op> {
    let mut v = vec![];
    let (cs, ps, add_names): (Vec<usize>, Vec<usize>, Vec<usize>) = match tier {
        Tier::Quick => (vec![0, 1], vec![0, 2, 3], vec![0, 1, 3]),
        Tier::Thorough => (vec![0, 1, 2, 3], vec![0, 1, 2, 3, 4], vec![0, 1, 2, 3]),
    };
    for &n in &add_names {
        for &c in &cs {
            for &p in &ps {
                v.push(Op::Add(n, c, p));
            }
        }
    }
    if tier == Tier::Quick {
        v.push(Op::Add(2, 1, 0)); // C spelling replaces A
        v.push(Op::Add(0, 2, 0)); // empty content
        v.push(Op::Add(3, 1, 4)); // position-adjusted key on a compressible (shrinking) content
    }
    v.push(Op::Add(4, 0, 0)); // E: its name is a substring of A's
    for n in 0..5 {
        v.push(Op::Remove(n));
    }
    for (a, b) in [(0, 3), (0, 1), (1, 0), (3, 0), (2, 3), (1, 3), (3, 1), (4, 3), (0, 4)] {
        v.push(Op::Rename(a, b));
    }
    v.push(Op::Compact);
    v.push(Op::Flush);
    v
}

/// reference model: folded name -> content id (or raw bytes for pre-existing files)
type Model = BTreeMap<String, Vec<u8>>;

struct InitialSpec {
    label: String,
    bytes: Vec<u8>,
    model: Model,
    listfile: bool,
}

fn initial_states(tier: Tier, scratch: &Scratch) -> Vec<InitialSpec> {
    let mut out = vec![];
    let vers = [FormatVersion::V1, FormatVersion::V2, FormatVersion::V3, FormatVersion::V4];
    for (vi, v) in vers.iter().enumerate() {
        for lf in [true, false] {
            for at in [false, true] {
                if tier == Tier::Quick && !((vi == 0 && !at) || (vi == 2 && lf && !at) || (vi == 1 && lf && at)) {
                    continue;
                }
                let p = scratch.path("init.mpq");
                let _ = std::fs::remove_file(&p);
                let b = ArchiveBuilder::new()
                    .version(*v)
                    .block_size(3)
                    .listfile_option(if lf { ListfileOption::Generate } else { ListfileOption::None })
                    .attributes_option(if at { AttributesOption::GenerateFull } else { AttributesOption::None })
                    .add_file_data(contents(9), W_NAME);
                b.build(&p).expect("initial archive");
                let bytes = std::fs::read(&p).unwrap();
                let mut m = Model::new();
                m.insert(fold(W_NAME), contents(9));
                out.push(InitialSpec { label: format!("builder V{} listfile={} attributes={}", vi + 1, lf, at), bytes, model: m, listfile: lf });
            }
        }
    }
    // small hash tables written by the independent writer: 4 and 8 slots, 2 files + listfile in use
    for (ver, hs) in [(0u16, 4u32), (0, 8), (1, 4), (1, 8)] {
        if tier == Tier::Quick && ver == 1 {
            continue;
        }
        let files = vec![WFile { method: mpqref::M_ZLIB, ..WFile::plain(W_NAME, &contents(9)) }, WFile::plain("pre\\existing.bin", &contents(10))];
        let opt = WOptions { version: ver, shift: 3, hash_size: hs, listfile: true, userdata_prefix: 0, deleted_slots: vec![], reuse_deleted: true };
        let bytes = mpqref::write(&files, &opt).unwrap();
        let mut m = Model::new();
        m.insert(fold(W_NAME), contents(9));
        m.insert(fold("pre\\existing.bin"), contents(10));
        out.push(InitialSpec { label: format!("reference-written V{} hash_size={}", ver + 1, hs), bytes, model: m, listfile: true });
    }
    out
}

/// canonical key of a closed archive image: all bytes except the (attributes) payload
fn canon_key(bytes: &[u8]) -> String {
    let mut b = bytes.to_vec();
    if let Ok(p) = mpqref::parse(bytes) {
        if let Some(hi) = p.find(b"(attributes)") {
            let blk = p.block[p.hash[hi].block as usize];
            let s = (p.header.offset as usize + blk.pos as usize).min(b.len());
            let e = (s + blk.csize as usize).min(b.len());
            for x in &mut b[s..e] {
                *x = 0;
            }
        }
    }
    // V4 header digests cover tables; the header MD5 changes with attributes position only (kept)
    format!("{:016x}{:08x}", fnv_bytes(&b), b.len())
}
fn fnv_bytes(b: &[u8]) -> u64 {
    let mut h: u64 = 0xcbf29ce484222325;
    for x in b {
        h ^= *x as u64;
        h = h.wrapping_mul(0x100000001b3);
    }
    h
}

#[derive(Clone)]
struct StateRef {
    key: String,
    label: String, // history reaching it
    model: Model,
    unjudged: BTreeSet<String>,
    listfile: bool,
    init: String,
}

struct Epoch {
    dir: PathBuf,
    states: Vec<StateRef>,
    alpha: Vec<Op>,
    max_len: usize,
    seqs_per_state: u64,
}
impl Epoch {
    fn load(arg: &str, tier: Tier) -> Epoch {
        let v: Value = serde_json::from_str(&std::fs::read_to_string(arg).expect("frontier file")).unwrap();
        let dir = PathBuf::from(v["dir"].as_str().unwrap());
        let max_len = v["max_len"].as_u64().unwrap() as usize;
        let states = v["states"]
            .as_array()
            .unwrap()
            .iter()
            .map(|s| StateRef {
                key: s["key"].as_str().unwrap().into(),
                label: s["label"].as_str().unwrap().into(),
                init: s["init"].as_str().unwrap().into(),
                listfile: s["listfile"].as_bool().unwrap(),
                model: s["model"].as_object().unwrap().iter().map(|(k, v)| (k.clone(), hex_dec(v.as_str().unwrap()))).collect(),
                unjudged: s["unjudged"].as_array().unwrap().iter().map(|x| x.as_str().unwrap().to_string()).collect(),
            })
            .collect();
        let alpha = if v["alphabet"].as_str() == Some("collide") { alphabet_collide() } else { alphabet(tier) };
        let k = alpha.len() as u64;
        let mut n = 0u64;
        for l in 1..=max_len {
            n += k.pow(l as u32);
        }
        Epoch { dir, states, alpha, max_len, seqs_per_state: n }
    }
    fn decode(&self, i: u64) -> (usize, Vec<Op>) {
        let s = (i / self.seqs_per_state) as usize;
        let mut j = i % self.seqs_per_state;
        let k = self.alpha.len() as u64;
        let mut l = 1;
        loop {
            let c = k.pow(l as u32);
            if j < c {
                break;
            }
            j -= c;
            l += 1;
        }
        let mut ops = vec![];
        for _ in 0..l {
            ops.push(self.alpha[(j % k) as usize].clone());
            j /= k;
        }
        let _ = self.max_len;
        (s, ops)
    }
}
fn hex_enc(b: &[u8]) -> String {
    // contents are compared by bytes; store compactly as id when known
    for id in [0usize, 1, 2, 3, 9, 10] {
        if contents(id) == b {
            return format!("#{id}");
        }
    }
    b.iter().map(|x| format!("{x:02x}")).collect()
}
fn hex_dec(s: &str) -> Vec<u8> {
    if let Some(id) = s.strip_prefix('#') {
        return contents(id.parse().unwrap());
    }
    (0..s.len() / 2).map(|i| u8::from_str_radix(&s[2 * i..2 * i + 2], 16).unwrap()).collect()
}

/// apply one op to the real archive and, driven by its return value, to the model
fn apply(m: &mut MutableArchive, op: &Op, nm: &[String; 5], model: &mut Model, unjudged: &mut BTreeSet<String>, trace: &mut Vec<String>) {
    match op {
        Op::Add(n, c, p) => {
            let r = m.add_file_data(&contents(*c), &nm[*n], opt_of(*p));
            trace.push(format!("{}={}", op_str(op), if r.is_ok() { "Ok".to_string() } else { format!("Err({})", r.as_ref().unwrap_err()) }));
            if r.is_ok() {
                model.insert(fold(&nm[*n]), contents(*c));
            }
        }
        Op::Remove(n) => {
            let r = m.remove_file(&nm[*n]);
            trace.push(format!("{}={}", op_str(op), if r.is_ok() { "Ok" } else { "Err" }));
            if r.is_ok() {
                model.remove(&fold(&nm[*n]));
            }
        }
        Op::Rename(a, b) => {
            let r = m.rename_file(&nm[*a], &nm[*b]);
            trace.push(format!("{}={}", op_str(op), if r.is_ok() { "Ok" } else { "Err" }));
            if r.is_ok() {
                let (fa, fb) = (fold(&nm[*a]), fold(&nm[*b]));
                if fa == fb {
                    // renaming a name onto its own other spelling: identity
                } else if model.contains_key(&fa) && !model.contains_key(&fb) {
                    let v = model.remove(&fa).unwrap();
                    model.insert(fb, v);
                } else {
                    // the library accepted a rename the plain map does not define: do not judge these names
                    unjudged.insert(fa);
                    unjudged.insert(fb);
                }
            }
        }
        Op::Compact => {
            let r = m.compact();
            trace.push(format!("compact={}", if r.is_ok() { "Ok".to_string() } else { format!("Err({})", r.as_ref().unwrap_err()) }));
        }
        Op::Flush => {
            let r = m.flush();
            trace.push(format!("flush={}", if r.is_ok() { "Ok".to_string() } else { format!("Err({})", r.as_ref().unwrap_err()) }));
        }
    }
}

fn judge(path: &Path, model: &Model, unjudged: &BTreeSet<String>, listfile: bool, nm: &[String; 5], r: &mut CaseResult, ctx: &str) -> bool {
    let mut a = match Archive::open(path) {
        Ok(a) => a,
        Err(e) => {
            r.viol("archive does not reopen after the history", format!("{ctx}: {e}"));
            return false;
        }
    };
    let mut pool: Vec<String> = nm.to_vec();
    pool.push(W_NAME.to_string());
    pool.push("pre\\existing.bin".to_string());
    pool.push("never\\added.xyz".to_string());
    let mut ok = true;
    for n in &pool {
        let f = fold(n);
        if unjudged.contains(&f) {
            continue;
        }
        let sp = mpqx::spellings(n);
        for s in [&sp[0], &sp[sp.len() - 1]] {
            let got = a.read_file(s);
            match (model.get(&f), got) {
                (Some(want), Ok(got)) => {
                    if &got != want {
                        let who = if f == fold(W_NAME) || f == fold("pre\\existing.bin") { "a file the history never touched" } else { "a file the model holds" };
                        let class = if got.len() != want.len() { "wrong length" } else { "same length, wrong bytes" };
                        r.viol(format!("after reopen: {who} reads back different content ({class})"), format!("{ctx}: name={s} want_len={} got_len={}", want.len(), got.len()));
                        ok = false;
                    }
                }
                (Some(want), Err(e)) => {
                    let who = if f == fold(W_NAME) || f == fold("pre\\existing.bin") { "a file the history never touched" } else { "a file the model holds" };
                    let cls = match &e {
                        wow_mpq::Error::FileNotFound(_) => "not found".to_string(),
                        o => panic_class("", &o.to_string()).trim_start_matches("panic at : ").to_string(),
                    };
                    r.viol(format!("after reopen: {who} cannot be read ({cls})"), format!("{ctx}: name={s} want_len={} err={e}", want.len()));
                    ok = false;
                }
                (None, Ok(got)) => {
                    r.viol("after reopen: a name the model lacks is readable", format!("{ctx}: name={s} got_len={}", got.len()));
                    ok = false;
                }
                (None, Err(_)) => {}
            }
        }
    }
    if listfile && ok {
        if let Ok(l) = a.list() {
            let got: BTreeSet<String> = l.iter().map(|e| fold(&e.name)).filter(|n| !n.starts_with('(')).collect();
            let want: BTreeSet<String> = model.keys().cloned().collect();
            let missing: Vec<&String> = want.difference(&got).filter(|n| !unjudged.contains(*n)).collect();
            let extra: Vec<&String> = got.difference(&want).filter(|n| !unjudged.contains(*n)).collect();
            if !missing.is_empty() {
                r.viol("after reopen: list() omits a readable name the model holds", format!("{ctx}: missing={missing:?}"));
                ok = false;
            }
            if !extra.is_empty() {
                r.viol("after reopen: list() reports a name the model lacks", format!("{ctx}: extra={extra:?}"));
                ok = false;
            }
        }
    }
    ok
}

impl Space for Epoch {
    fn len(&self) -> u64 {
        self.states.len() as u64 * self.seqs_per_state
    }
    fn describe(&self, i: u64) -> Value {
        let (s, ops) = self.decode(i);
        json!({"initial": self.states[s].init, "prefix": self.states[s].label, "ops": ops.iter().map(op_str).collect::<Vec<_>>()})
    }
    fn case_timeout(&self) -> u64 {
        20
    }
    fn run(&self, i: u64) -> CaseResult {
        let (s, ops) = self.decode(i);
        let st = &self.states[s];
        let nm = names();
        let mut r = CaseResult::new();
        r.key = format!("{}|{}", st.key, ops.iter().map(op_str).collect::<Vec<_>>().join(";"));
        r.nontrivial = true;
        let work = self.dir.join(format!("work-{}.mpq", std::process::id()));
        std::fs::copy(self.dir.join(format!("{}.mpq", st.key)), &work).expect("copy state image");
        let mut model = st.model.clone();
        let mut unjudged = st.unjudged.clone();
        let mut trace = vec![];
        let opened = guarded(|| MutableArchive::open(&work));
        match opened {
            Ok(Ok(mut m)) => {
                let res = guarded(|| {
                    for op in &ops {
                        apply(&mut m, op, &nm, &mut model, &mut unjudged, &mut trace);
                    }
                    drop(m);
                });
                if let Err((file, line, msg)) = res {
                    r.viol(panic_class(&file, &msg), format!("ops={:?} trace={:?} at {}:{}: {}", ops.iter().map(op_str).collect::<Vec<_>>(), trace, file, line, msg));
                }
            }
            Ok(Err(e)) => {
                r.viol("MutableArchive::open fails on a state the library itself produced", format!("{e}"));
            }
            Err((file, _, msg)) => r.viol(panic_class(&file, &msg), "MutableArchive::open".to_string()),
        }
        r.count("transitions", ops.len() as u64);
        r.outcome = trace.iter().map(|t| if t.contains("=Ok") { 'o' } else { 'e' }).collect();
        if r.viols.is_empty() {
            let ctx = format!("trace={trace:?}");
            let ok = judge(&work, &model, &unjudged, st.listfile, &nm, &mut r, &ctx);
            if ok {
                let bytes = std::fs::read(&work).unwrap();
                let key = canon_key(&bytes);
                let img = self.dir.join(format!("{key}.mpq"));
                if !img.exists() {
                    let tmp = self.dir.join(format!("tmp-{}-{}", std::process::id(), i));
                    std::fs::write(&tmp, &bytes).unwrap();
                    let _ = std::fs::rename(&tmp, &img);
                }
                let label = if st.label.is_empty() { ops.iter().map(op_str).collect::<Vec<_>>().join(";") } else { format!("{} | {}", st.label, ops.iter().map(op_str).collect::<Vec<_>>().join(";")) };
                r.payload = Some(json!({"key": key, "label": label, "init": st.init, "listfile": st.listfile,
                    "model": model.iter().map(|(k, v)| (k.clone(), json!(hex_enc(v)))).collect::<serde_json::Map<_, _>>(),
                    "unjudged": unjudged.iter().collect::<Vec<_>>()}));
            }
        }
        let _ = std::fs::remove_file(&work);
        r
    }
}

/// scripted long histories (macro events), each from every initial state
struct Scripts {
    dir: PathBuf,
    states: Vec<StateRef>,
}
const SCRIPTS: [&str; 6] = ["add20-flush-every-1", "add20-flush-every-5", "add20-flush-at-end", "add-remove-same-name-x20", "fill-table-remove-all-readd", "replace-same-name-x20-growing"];
impl Space for Scripts {
    fn len(&self) -> u64 {
        (self.states.len() * SCRIPTS.len()) as u64
    }
    fn describe(&self, i: u64) -> Value {
        json!({"initial": self.states[i as usize / SCRIPTS.len()].init, "script": SCRIPTS[i as usize % SCRIPTS.len()]})
    }
    fn case_timeout(&self) -> u64 {
        60
    }
    fn run(&self, i: u64) -> CaseResult {
        let st = &self.states[i as usize / SCRIPTS.len()];
        let sc = i as usize % SCRIPTS.len();
        let mut r = CaseResult::new();
        r.key = format!("script{i}");
        r.nontrivial = true;
        let work = self.dir.join(format!("swork-{}.mpq", std::process::id()));
        std::fs::copy(self.dir.join(format!("{}.mpq", st.key)), &work).expect("copy");
        let mut model = st.model.clone();
        let mut trace: Vec<String> = vec![];
        let mut steps = 0u64;
        let res = guarded(|| -> Result<(), String> {
            let mut m = MutableArchive::open(&work).map_err(|e| e.to_string())?;
            let mut reopen = |m: MutableArchive| -> Result<MutableArchive, String> {
                drop(m);
                MutableArchive::open(&work).map_err(|e| e.to_string())
            };
            let mut add = |m: &mut MutableArchive, name: &str, data: Vec<u8>, model: &mut Model, trace: &mut Vec<String>| {
                let ok = m.add_file_data(&data, name, AddFileOptions::new()).is_ok();
                trace.push(format!("add({name},{})={}", data.len(), if ok { "Ok" } else { "Err" }));
                if ok {
                    model.insert(fold(name), data);
                }
            };
            match sc {
                0 | 1 | 2 => {
                    let every = [1, 5, 100][sc];
                    for k in 0..20 {
                        add(&mut m, &format!("many\\f{k}.dat"), gen::content("period251", 10 + k * 37, 4096, k as u64), &mut model, &mut trace);
                        steps += 1;
                        if (k + 1) % every == 0 {
                            m = reopen(m)?;
                        }
                    }
                }
                3 => {
                    for k in 0..20 {
                        add(&mut m, "same\\name.bin", gen::content("period2", 50 + k, 4096, k as u64), &mut model, &mut trace);
                        if m.remove_file("same\\name.bin").is_ok() {
                            model.remove(&fold("same\\name.bin"));
                        }
                        steps += 2;
                        if k % 7 == 6 {
                            m = reopen(m)?;
                        }
                    }
                }
                4 => {
                    for k in 0..14 {
                        add(&mut m, &format!("fill\\g{k}.dat"), vec![k as u8; 20 + k], &mut model, &mut trace);
                        steps += 1;
                    }
                    m = reopen(m)?;
                    for k in 0..14 {
                        if m.remove_file(&format!("fill\\g{k}.dat")).is_ok() {
                            model.remove(&fold(&format!("fill\\g{k}.dat")));
                        }
                        steps += 1;
                    }
                    m = reopen(m)?;
                    for k in 0..6 {
                        add(&mut m, &format!("fill\\g{k}.dat"), vec![0x40 + k as u8; 31], &mut model, &mut trace);
                        steps += 1;
                    }
                }
                _ => {
                    for k in 0..20 {
                        add(&mut m, "grow\\same.bin", gen::content("half", 100 + k * 600, 4096, k as u64), &mut model, &mut trace);
                        steps += 1;
                        if k % 4 == 3 {
                            m = reopen(m)?;
                        }
                    }
                }
            }
            drop(m);
            Ok(())
        });
        r.count("transitions", steps);
        match res {
            Err((file, line, msg)) => r.viol(panic_class(&file, &msg), format!("script {} at {}:{}: {}", SCRIPTS[sc], file, line, msg)),
            Ok(Err(e)) => {
                r.viol("script: archive does not reopen in the middle of the history", format!("{}: {e} trace={trace:?}", SCRIPTS[sc]));
            }
            Ok(Ok(())) => {
                // judge: every model name reads back; witness intact
                match Archive::open(&work) {
                    Ok(mut a) => {
                        for (n, want) in &model {
                            match a.read_file(n) {
                                Ok(g) if &g == want => {}
                                Ok(g) => r.viol("script: after reopen a file reads back different content", format!("{}: {n} want_len={} got_len={}", SCRIPTS[sc], want.len(), g.len())),
                                Err(e) => r.viol("script: after reopen a file the model holds cannot be read", format!("{}: {n}: {e}", SCRIPTS[sc])),
                            }
                            if r.viols.len() > 2 {
                                break;
                            }
                        }
                        for k in 0..20 {
                            for n in [format!("many\\f{k}.dat"), format!("fill\\g{k}.dat"), "same\\name.bin".to_string()] {
                                if !model.contains_key(&fold(&n)) && a.read_file(&n).is_ok() {
                                    r.viol("script: after reopen a name the model lacks is readable", format!("{}: {n}", SCRIPTS[sc]));
                                }
                            }
                        }
                    }
                    Err(e) => r.viol("script: archive does not reopen after the history", format!("{}: {e}", SCRIPTS[sc])),
                }
            }
        }
        r.outcome = format!("{}:{}", sc, trace.iter().filter(|t| t.ends_with("Ok")).count());
        let _ = std::fs::remove_file(&work);
        r
    }
}

fn build(name: &str, arg: &str, tier: Tier) -> Box<dyn Space> {
    match name {
        "epoch" => Box::new(Epoch::load(arg, tier)),
        "scripts" => {
            let e = Epoch::load(arg, tier);
            Box::new(Scripts { dir: e.dir, states: e.states })
        }
        _ => panic!("space {name}"),
    }
}

fn write_frontier_kind(scratch: &Scratch, n: usize, states: &[StateRef], max_len: usize, kind: &str) -> String {
    let p = scratch.path(&format!("frontier{n}.json"));
    let v = json!({"dir": scratch.0.to_string_lossy(), "max_len": max_len, "alphabet": kind, "states": states.iter().map(|s| json!({
        "key": s.key, "label": s.label, "init": s.init, "listfile": s.listfile,
        "model": s.model.iter().map(|(k, v)| (k.clone(), json!(hex_enc(v)))).collect::<serde_json::Map<_, _>>(),
        "unjudged": s.unjudged.iter().collect::<Vec<_>>() })).collect::<Vec<_>>()});
    std::fs::write(&p, v.to_string()).unwrap();
    p.to_string_lossy().to_string()
}

fn write_frontier(scratch: &Scratch, n: usize, states: &[StateRef], max_len: usize) -> String {
    write_frontier_kind(scratch, n, states, max_len, "full")
}

fn main() {
    let Mode::Supervisor(mut c) = start("C06", "model_checking", build) else { return };
    let scratch = Scratch::new("c06");
    let inits = initial_states(c.tier, &scratch);
    let mut seen: HashMap<String, ()> = HashMap::new();
    let mut frontier: Vec<StateRef> = vec![];
    for s in &inits {
        let key = canon_key(&s.bytes);
        std::fs::write(scratch.path(&format!("{key}.mpq")), &s.bytes).unwrap();
        seen.insert(key.clone(), ());
        frontier.push(StateRef { key, label: String::new(), model: s.model.clone(), unjudged: BTreeSet::new(), listfile: s.listfile, init: s.label.clone() });
    }
    let n_init = frontier.len();
    // scripted long histories from every initial state
    let f0 = write_frontier(&scratch, 0, &frontier, 1);
    c.run_space("scripts", &f0);
    // focused search: initial states that already hold the two colliding names (B stored behind A in the
    // probe chain), every sequence of length <= 3 (quick) / 4 (thorough) over the 15-event collide alphabet
    {
        let nm = names();
        let mut cstates = vec![];
        for (label, ver, lf) in [("builder V1 listfile=true with A,B present", FormatVersion::V1, true), ("builder V2 listfile=false with A,B present", FormatVersion::V2, false)] {
            let p = scratch.path("cinit.mpq");
            let _ = std::fs::remove_file(&p);
            ArchiveBuilder::new()
                .version(ver)
                .block_size(3)
                .listfile_option(if lf { ListfileOption::Generate } else { ListfileOption::None })
                .add_file_data(contents(9), W_NAME)
                .add_file_data(contents(1), &nm[0])
                .add_file_data(contents(0), &nm[1])
                .build(&p)
                .expect("collide initial archive");
            let bytes = std::fs::read(&p).unwrap();
            let key = canon_key(&bytes);
            std::fs::write(scratch.path(&format!("{key}.mpq")), &bytes).unwrap();
            let mut m = Model::new();
            m.insert(fold(W_NAME), contents(9));
            m.insert(fold(&nm[0]), contents(1));
            m.insert(fold(&nm[1]), contents(0));
            cstates.push(StateRef { key, label: String::new(), model: m, unjudged: BTreeSet::new(), listfile: lf, init: label.to_string() });
        }
        {
            // independently written archive, 8-slot table: W, A, B + listfile
            let files = vec![WFile::plain(W_NAME, &contents(9)), WFile { method: mpqref::M_ZLIB, ..WFile::plain(&nm[0], &contents(1)) }, WFile::plain(&nm[1], &contents(0))];
            let opt = WOptions { version: 0, shift: 3, hash_size: 8, listfile: true, userdata_prefix: 0, deleted_slots: vec![], reuse_deleted: true };
            let bytes = mpqref::write(&files, &opt).unwrap();
            let key = canon_key(&bytes);
            std::fs::write(scratch.path(&format!("{key}.mpq")), &bytes).unwrap();
            let mut m = Model::new();
            m.insert(fold(W_NAME), contents(9));
            m.insert(fold(&nm[0]), contents(1));
            m.insert(fold(&nm[1]), contents(0));
            cstates.push(StateRef { key, label: String::new(), model: m, unjudged: BTreeSet::new(), listfile: true, init: "reference-written V1 hash_size=8 with A,B present".to_string() });
        }
        let f = write_frontier_kind(&scratch, 90, &cstates, c.tier.pick(3, 4), "collide");
        let p = c.run_space("epoch", &f);
        eprintln!("C06 collide search: {} initial states, sequences of length <= {}, {} distinct successor states", cstates.len(), c.tier.pick(3, 4), p.iter().map(|x| x.1["key"].as_str().unwrap_or("").to_string()).collect::<std::collections::BTreeSet<_>>().len());
    }
    // epochs: (max sequence length, cap on states expanded)
    let plan: Vec<(usize, usize)> = c.tier.pick(vec![(2, usize::MAX), (2, 120), (1, 600)], vec![(2, usize::MAX), (2, 300), (1, 3000)]);
    let mut total_states = n_init as u64;
    let mut depth_ops = 0;
    let mut samples = vec![];
    let mut capped_note = vec![];
    for (ei, (max_len, cap)) in plan.iter().enumerate() {
        if frontier.is_empty() {
            break;
        }
        let mut fr = frontier.clone();
        if fr.len() > *cap {
            capped_note.push(format!("epoch {}: {} of {} frontier states expanded (cap)", ei + 1, cap, fr.len()));
            fr.truncate(*cap);
            c.agg.complete = false;
        }
        let f = write_frontier(&scratch, ei + 1, &fr, *max_len);
        let payloads = c.run_space("epoch", &f);
        depth_ops += max_len;
        let mut next = vec![];
        for (_, p) in payloads {
            let key = p["key"].as_str().unwrap().to_string();
            if seen.contains_key(&key) {
                continue;
            }
            seen.insert(key.clone(), ());
            let st = StateRef {
                key,
                label: p["label"].as_str().unwrap().into(),
                init: p["init"].as_str().unwrap().into(),
                listfile: p["listfile"].as_bool().unwrap(),
                model: p["model"].as_object().unwrap().iter().map(|(k, v)| (k.clone(), hex_dec(v.as_str().unwrap()))).collect(),
                unjudged: p["unjudged"].as_array().unwrap().iter().map(|x| x.as_str().unwrap().to_string()).collect(),
            };
            if samples.len() < 6 {
                samples.push(json!({"history": st.label, "from": st.init, "model_names": st.model.keys().collect::<Vec<_>>() }));
            }
            next.push(st);
        }
        // expansion priority when a cap applies: states holding both colliding names first, then more names
        // (deterministic; the sort is stable on the discovery order)
        let nmx = names();
        let (fa, fb) = (fold(&nmx[0]), fold(&nmx[1]));
        next.sort_by_key(|s: &StateRef| {
            let both = s.model.contains_key(&fa) as i32 + s.model.contains_key(&fb) as i32;
            (-(both), -(s.model.len() as i32))
        });
        total_states += next.len() as u64;
        eprintln!("C06 epoch {}: expanded {} states x sequences of length <= {}, {} new states", ei + 1, fr.len(), max_len, next.len());
        frontier = next;
    }
    let transitions = c.agg.counters.get("transitions").copied().unwrap_or(0);
    c.extra_cov.insert("states".into(), json!(total_states));
    c.extra_cov.insert("traces_validated_against_impl".into(), json!(c.agg.evaluations));
    c.extra_cov.insert("initial_states".into(), json!(inits.iter().map(|s| s.label.clone()).collect::<Vec<_>>()));
    c.extra_cov.insert("max_depth_ops".into(), json!(depth_ops));
    c.extra_cov.insert("alphabet".into(), json!(alphabet(c.tier).iter().map(op_str).collect::<Vec<_>>()));
    c.extra_cov.insert("unexpanded_frontier".into(), json!(frontier.len()));
    c.extra_cov.insert("caps".into(), json!(capped_note));
    if !samples.is_empty() {
        c.agg.samples.extend(samples);
    }
    let _ = transitions;
    c.rule = "state = closed archive image (canonical key: all bytes except the (attributes) payload) + reference map; transition = one operation sequence of length <= L executed on the real MutableArchive followed by close and reopen; every history is compared with a BTreeMap driven by the library's own return values. Non-trivial = every executed history; distinct by (state key, sequence).".into();
    c.assume("closing = dropping the handle (Drop flushes); judged only after reopen");
    c.assume("an Ok rename whose source is absent or whose target exists is not defined by a plain map: those names are not judged afterwards");
    c.assume("equal canonical keys have equal futures because a reopened handle's state is a function of the file bytes; the (attributes) payload carries time stamps and is excluded from the key");
    c.finish();
}
