//! Damaged sources: archives in which exactly ONE listed file cannot be read (every other file
//! is intact).  The archive is first written undamaged (real `ArchiveBuilder` V1..V4, or the
//! independent writer `refimpl::mpqref` V1/V2), then one structure-aware fault is applied to the
//! bytes of the archive: either to the stored data of the victim or to its classic block-table
//! entry (decrypt, edit, re-encrypt with the independent cipher).  Ground truth stays the
//! generator's UNDAMAGED (name, bytes) list.
use crate::opts::{Group, Opt};
use crate::truth::{crypto_of, GFile, Truth, CRYPTO};
use mpqx::{Config, COMP_FLAGS};
use refimpl::mpqcrypt::{decrypt_dwords, encrypt_dwords};
use refimpl::mpqref::{self, WFile, WOptions, F_COMPRESS, F_CRC, F_ENCRYPTED, F_IMPLODE, F_PATCH, F_SINGLE};
use serde_json::{json, Value};
use std::path::Path;
use vcore::{gen, guarded, Tier};

pub const KINDS: [&str; 7] = [
    "stored-bytes-0xFF",        // every stored byte of the file's sectors after the first method byte := 0xFF
    "unsupported-method-byte",  // method byte of the first compressed sector := 0x04 (no such method)
    "sector-offset-table-0xFF", // the sector offset table of a sectored compressed file := 0xFF..
    "compressed-size-halved",   // block entry: compressed size := half (compressed data truncated)
    "patch-flag",               // block entry: flags |= PATCH_FILE (not readable as a plain file)
    "position-beyond-archive",  // block entry: file position := past the end of the archive
    "sector-checksum-mismatch", // one bit of the first stored sector checksum flipped (data itself intact)
];
/// kinds that edit the classic block table (only meaningful where it is the table in use: V1/V2)
fn table_kind(kind: usize) -> bool {
    (3..=5).contains(&kind)
}
pub const WRITERS: [&str; 2] = ["ArchiveBuilder", "mpqref"];
pub const DCOMP: [&str; 3] = ["zlib", "bzip2", "none"];
pub const LAYOUTS: [&str; 3] = ["writer-default", "all-sectored", "all-single-unit"];
const SECTOR: usize = 4096;
const NAMES: [&str; 4] = ["Units\\First.txt", "World\\Maps\\Multi.bin", "tiny.dat", "Sound\\Last.wav"];
const TEXTURE: [&str; 4] = ["period251", "period2", "constant", "constant"];
fn lengths() -> [usize; 4] {
    [900, 2 * SECTOR + 11, 5, SECTOR + 1]
}

#[derive(Clone, Debug)]
pub struct DamagedSrc {
    pub writer: usize,  // index into WRITERS
    pub version: usize, // 0..4 (mpqref: 0,1)
    pub comp: usize,    // index into DCOMP
    pub crypto: usize,  // index into truth::CRYPTO
    pub layout: usize,  // index into LAYOUTS (mpqref only; the builder decides by itself)
    pub crc: bool,      // sector checksums (ADLER32) written for the files that can carry them
    pub victim: usize,  // index of the file that is made unreadable
    pub kind: usize,    // index into KINDS
}

impl DamagedSrc {
    pub fn key(&self) -> String {
        format!("{}.{}.{}.{}.{}.{}.{}.{}", self.writer, self.version, self.comp, self.crypto, self.layout, self.crc as u8, self.victim, self.kind)
    }
    pub fn json(&self) -> Value {
        json!({"writer": WRITERS[self.writer], "version": format!("V{}", self.version + 1), "compression": DCOMP[self.comp], "crypto": CRYPTO[self.crypto],
               "layout": LAYOUTS[self.layout], "sector_crc": self.crc, "shift": 3, "names": NAMES, "lengths": lengths(),
               "victim": {"index": self.victim, "name": NAMES[self.victim]}, "damage": KINDS[self.kind]})
    }
    /// ground truth = what the UNDAMAGED source held
    pub fn truth(&self) -> Truth {
        let files = (0..4)
            .map(|k| {
                let (enc, fix) = crypto_of(self.crypto, k);
                GFile { name: NAMES[k].to_string(), data: gen::content(TEXTURE[k], lengths()[k], SECTOR, 70 + k as u64), enc, fix, listed: true }
            })
            .collect();
        Truth { files, has_listfile: true, has_attributes: false, version: self.version, sector: SECTOR, origin: if self.writer == 0 { "builder" } else { "mpqref" } }
    }
    fn write_undamaged(&self, t: &Truth, path: &Path) -> Result<(), String> {
        if self.writer == 0 {
            let ci = [1usize, 2, 0][self.comp]; // index into mpqx::COMP_*
            let cfg = Config { version: self.version, shift: 3, comp: ci, crypto: 0, crc: self.crc, attrs: 0, listfile: true, tcomp: false };
            let mut b = cfg.builder();
            for f in &t.files {
                let c = COMP_FLAGS[ci];
                b = if f.enc { b.add_file_data_with_encryption(f.data.clone(), &f.name, c, f.fix, 0) } else { b.add_file_data_with_options(f.data.clone(), &f.name, c, false, 0) };
            }
            b.build(path).map_err(|e| format!("builder: {e}"))
        } else {
            let method = [mpqref::M_ZLIB, mpqref::M_BZIP2, 0][self.comp];
            let wf: Vec<WFile> = t
                .files
                .iter()
                .enumerate()
                .map(|(k, f)| WFile {
                    name: f.name.as_bytes().to_vec(),
                    data: f.data.clone(),
                    method,
                    encrypt: f.enc,
                    fix_key: f.fix,
                    single_unit: match self.layout {
                        0 => k % 2 == 0,
                        1 => false,
                        _ => true,
                    },
                    raw_flags: 0,
                    in_listfile: true,
                })
                .collect();
            let o = WOptions { version: self.version as u16, shift: 3, hash_size: 16, listfile: true, userdata_prefix: 0, deleted_slots: vec![], reuse_deleted: true };
            let bytes = mpqref::write_with(&wf, &o, &mpqref::WExt { sector_crc: self.crc, crc_sector_compressed: false })?;
            std::fs::write(path, bytes).map_err(|e| format!("write: {e}"))
        }
    }
    /// write the source and damage the victim. `Err` = this damage does not apply to the way the
    /// victim happens to be stored (nothing to judge).
    pub fn build(&self, t: &Truth, path: &Path) -> Result<(), String> {
        self.write_undamaged(t, path)?;
        let mut bytes = std::fs::read(path).map_err(|e| format!("read back: {e}"))?;
        self.damage(&mut bytes, path)?;
        std::fs::write(path, bytes).map_err(|e| format!("write: {e}"))
    }

    fn damage(&self, bytes: &mut Vec<u8>, path: &Path) -> Result<(), String> {
        let name = NAMES[self.victim];
        // where the victim is stored: independent parse for the classic formats, the library's own
        // lookup for V3/V4 (HET/BET); set-up only, the oracle never relies on it
        let parsed = if self.version < 2 { Some(mpqref::parse(bytes).map_err(|e| format!("independent parse of the undamaged source: {e}"))?) } else { None };
        let (start, csize, fsize, flags, bi) = match &parsed {
            Some(p) => {
                let hi = p.find(name.as_bytes()).ok_or("victim not found by the independent reader")?;
                let bi = p.hash[hi].block as usize;
                let b = p.block[bi];
                ((p.header.offset + b.pos as u64) as usize, b.csize as usize, b.fsize as usize, b.flags, bi)
            }
            None => {
                let a = wow_mpq::Archive::open(path).map_err(|e| format!("open undamaged: {e}"))?;
                let fi = a.find_file(name).map_err(|e| format!("find: {e}"))?.ok_or("victim not found")?;
                (fi.file_pos as usize, fi.compressed_size as usize, fi.file_size as usize, fi.flags, fi.block_index)
            }
        };
        if start + csize > bytes.len() {
            return Err("stored range out of file".into());
        }
        let single = flags & F_SINGLE != 0;
        let compressed = flags & (F_COMPRESS | F_IMPLODE) != 0 && csize < fsize;
        let n_sect = fsize.div_ceil(SECTOR);
        let tbl = if single || flags & F_COMPRESS == 0 { 0 } else { 4 * (n_sect + 1 + (flags & F_CRC != 0) as usize) };
        if table_kind(self.kind) {
            let p = parsed.as_ref().ok_or("block-table damage needs the classic table to be the one in use")?;
            let bs = (p.header.offset + p.header.block_pos) as usize + 16 * bi;
            let tstart = (p.header.offset + p.header.block_pos) as usize;
            let tlen = 16 * p.header.block_count as usize;
            let mut w: Vec<u32> = bytes[tstart..tstart + tlen].chunks_exact(4).map(|c| u32::from_le_bytes([c[0], c[1], c[2], c[3]])).collect();
            decrypt_dwords(&mut w, mpqref::key_block_table());
            let e = (bs - tstart) / 4;
            match self.kind {
                3 => {
                    if !compressed || csize < 8 {
                        return Err("victim is not stored compressed".into());
                    }
                    w[e + 1] = (csize / 2) as u32;
                }
                4 => w[e + 3] |= F_PATCH,
                _ => w[e] = (bytes.len() as u64 - p.header.offset + 0x1_0000) as u32,
            }
            encrypt_dwords(&mut w, mpqref::key_block_table());
            for (i, x) in w.iter().enumerate() {
                bytes[tstart + 4 * i..tstart + 4 * i + 4].copy_from_slice(&x.to_le_bytes());
            }
            return Ok(());
        }
        match self.kind {
            0 => {
                if !compressed || csize < tbl + 3 {
                    return Err("victim is not stored compressed".into());
                }
                for x in &mut bytes[start + tbl + 1..start + csize] {
                    *x = 0xFF;
                }
            }
            1 => {
                if !compressed || flags & F_ENCRYPTED != 0 {
                    return Err("victim is not stored compressed and unencrypted".into());
                }
                if !single {
                    let o = |i: usize| u32::from_le_bytes(bytes[start + 4 * i..start + 4 * i + 4].try_into().unwrap()) as usize;
                    if o(0) != tbl || o(1) < o(0) || o(1) - o(0) >= SECTOR.min(fsize) {
                        return Err("first sector of the victim is not stored compressed".into());
                    }
                }
                bytes[start + tbl] = 0x04;
            }
            2 => {
                if tbl == 0 || csize < tbl {
                    return Err("victim has no sector offset table".into());
                }
                for x in &mut bytes[start..start + tbl] {
                    *x = 0xFF;
                }
            }
            _ => {
                if tbl == 0 || flags & F_CRC == 0 || flags & F_ENCRYPTED != 0 {
                    return Err("victim is not a sectored, unencrypted file with sector checksums".into());
                }
                let o = |i: usize| u32::from_le_bytes(bytes[start + 4 * i..start + 4 * i + 4].try_into().unwrap()) as usize;
                let (cs, ce) = (o(n_sect), o(n_sect + 1));
                if o(0) != tbl || ce != cs + 4 * n_sect || ce > csize {
                    return Err("checksum sector of the victim is not stored raw".into());
                }
                bytes[start + cs] ^= 0x01;
            }
        }
        Ok(())
    }
}

/// What the set-up of a damaged source turned out to be; the case is judged only when exactly
/// the victim is unreadable.
pub fn probe(t: &Truth, victim: usize, src: &Path) -> Result<(), String> {
    // (a) the real reader: archive opens, every other file reads back identical, the victim does not read
    let mut a = wow_mpq::Archive::open(src).map_err(|_| "damaged source does not open".to_string())?;
    for (k, f) in t.files.iter().enumerate() {
        let got = guarded(|| a.read_file(&f.name));
        match (k == victim, got) {
            (true, Ok(Ok(_))) => return Err("library reads the damaged file without error".into()),
            (true, _) => {}
            (false, Ok(Ok(d))) if d == f.data => {}
            (false, _) => return Err("an undamaged file does not read back".into()),
        }
    }
    // (b) the independent reader (classic formats): same verdict, or it refuses the archive as a whole
    //     (a block entry pointing outside the archive)
    if t.version < 2 {
        let bytes = std::fs::read(src).map_err(|_| "read".to_string())?;
        if let Ok(p) = mpqref::parse(&bytes) {
            for (k, f) in t.files.iter().enumerate() {
                let got = guarded(|| p.read(f.name.as_bytes()).map(|x| x.0));
                match (k == victim, got) {
                    (true, Ok(Ok(d))) if d == f.data => return Err("independent reader still reads the damaged file".into()),
                    (true, _) => {}
                    (false, Ok(Ok(d))) if d == f.data => {}
                    (false, _) => return Err("independent reader: an undamaged file does not read back".into()),
                }
            }
        }
    }
    Ok(())
}

/// Statically plausible (writer, version, compression, crypto, layout, victim, kind) tuples; a
/// tuple whose damage turns out not to apply to the stored form is reported as `inapplicable`.
pub fn damaged_sources(tier: Tier) -> Vec<DamagedSrc> {
    let comps: Vec<usize> = tier.pick(vec![0], vec![0, 1, 2]);
    let cryptos: Vec<usize> = tier.pick(vec![0, 1], vec![0, 1, 2, 3]);
    let victims: Vec<usize> = tier.pick(vec![0, 1], vec![0, 1, 2, 3]);
    let mut v = vec![];
    // slowest axis first in the loop nest; simplest values first
    for &comp in &comps {
        for layout in 0..3usize {
            for &crypto in &cryptos {
                for (writer, version) in [(0usize, 0usize), (1, 0), (0, 1), (1, 1), (0, 2), (0, 3)] {
                    if layout != 0 && (writer == 0 || tier == Tier::Quick) {
                        continue;
                    }
                    for &victim in &victims {
                        for crc in [false, true] {
                            // quick: checksums exactly where the victim is stored in sectors
                            if tier == Tier::Quick && crc != (lengths()[victim] > SECTOR) {
                                continue;
                            }
                            for kind in 0..KINDS.len() {
                                let s = DamagedSrc { writer, version, comp, crypto, layout, crc, victim, kind };
                                if s.plausible() {
                                    v.push(s);
                                }
                            }
                        }
                    }
                }
            }
        }
    }
    v
}

impl DamagedSrc {
    fn plausible(&self) -> bool {
        let (enc, _) = crypto_of(self.crypto, self.victim);
        let len = lengths()[self.victim];
        let compressible = DCOMP[self.comp] != "none" && len > 64;
        // the builder stores a file that fits one sector as a single unit
        let single = if self.writer == 0 { len <= SECTOR } else { self.layout == 2 || (self.layout == 0 && self.victim % 2 == 0) };
        // a sectored file WITHOUT sector checksums is read leniently by the library (an undecodable
        // sector is replaced by zeros, with a log line): such a file is not "unreadable"
        let detectable = single || self.crc;
        if table_kind(self.kind) && self.version >= 2 {
            return false;
        }
        match self.kind {
            0 => compressible && detectable,
            // (the sectored read path never consults the compressed size: only a single unit is truncated by it)
            3 => compressible && single,
            1 => compressible && !enc && detectable,
            // (an encrypted table of 0xFF decrypts to arbitrary offsets, which only the strict path refuses)
            2 => compressible && !single && (!enc || self.crc),
            6 => compressible && !single && self.crc && !enc,
            _ => true,
        }
    }
}

/// Option tuples crossed with the damaged sources. quick: targets preserve/V1/V3/V4 without override,
/// preserve with compression override none, V2 with override bzip2, each with the seven flag
/// combinations below; thorough: the full option product of the other spaces.
pub fn damaged_groups(tier: Tier) -> Vec<Group> {
    if tier == Tier::Thorough {
        return crate::opts::option_groups(tier);
    }
    let heads: [[u8; 3]; 6] = [[0, 0, 0], [1, 0, 0], [3, 0, 0], [4, 0, 0], [0, 1, 0], [2, 3, 0]];
    // (skip_encrypted, skip_signatures(0 = on), verify, list_only, preserve_order(0 = on))
    let flags: [[u8; 5]; 7] = [[0, 0, 0, 0, 0], [1, 0, 0, 0, 0], [0, 1, 0, 0, 0], [0, 0, 1, 0, 0], [0, 0, 0, 1, 0], [0, 0, 0, 0, 1], [1, 0, 1, 0, 0]];
    heads
        .iter()
        .map(|h| Group { head: *h, opts: flags.iter().map(|f| Opt { d: [h[0], h[1], h[2], f[0], f[1], f[2], f[3], f[4]] }).collect() })
        .collect()
}

pub fn damaged_axes_json(tier: Tier) -> Value {
    json!({
        "writer_x_version": ["ArchiveBuilder V1", "mpqref V1", "ArchiveBuilder V2", "mpqref V2", "ArchiveBuilder V3", "ArchiveBuilder V4"],
        "compression": tier.pick(vec!["zlib"], DCOMP.to_vec()),
        "crypto": tier.pick(CRYPTO[..2].to_vec(), CRYPTO.to_vec()),
        "layout (mpqref)": tier.pick(LAYOUTS[..1].to_vec(), LAYOUTS.to_vec()),
        "sector_crc": tier.pick("on exactly for the multi-sector victim", "off, on"),
        "files": {"names": NAMES, "lengths": lengths()},
        "victim": tier.pick(vec![0, 1], vec![0, 1, 2, 3]),
        "damage": KINDS,
        "options": tier.pick("6 heads x 7 flag combinations", "full option product"),
    })
}
