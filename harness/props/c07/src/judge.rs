//! The oracle: run the real `rebuild_archive` / `compare_archives` and judge against ground truth.
use crate::opts::Opt;
use crate::truth::{GFile, Truth};
use refimpl::mpqref;
use std::path::Path;
use vcore::*;
use wow_mpq::{compare_archives, rebuild_archive, Archive};

const SPECIALS: [&str; 5] = ["(listfile)", "(attributes)", "(signature)", "(strong signature)", "(patch_metadata)"];

fn fold(s: &str) -> String {
    s.chars().map(|c| if c == '/' { '\\' } else { c.to_ascii_uppercase() }).collect()
}

fn err_class(e: &wow_mpq::Error) -> String {
    // error text with digits and quoted/path-like parts collapsed
    let s = e.to_string();
    let s: String = s.split(|c| c == '\'' || c == '"').next().unwrap_or("").to_string();
    let mut out = panic_class("", &s);
    out = out.replace("panic at : ", "");
    out.chars().take(60).collect()
}

/// What the target archive turned out to hold.
struct TargetFacts {
    /// per truth file: present in the target (found by name)
    present: Vec<bool>,
    /// number of violations raised about the target itself
    faults: usize,
    /// special names found in the target that are not truth files
    specials: Vec<&'static str>,
}

/// how the source lists its files
pub fn listing_class(t: &Truth) -> &'static str {
    if !t.has_listfile {
        "source without listfile"
    } else if t.origin == "builder" {
        "source listfile names itself"
    } else {
        "source listfile does not name itself"
    }
}

fn file_ctx(t: &Truth, f: &GFile) -> String {
    format!("{} {} file", f.crypto_class(), t.size_class(f))
}

/// `victim`: index of the one source file that cannot be read from the (damaged) source, if any
fn judge_target(t: &Truth, listed: &[bool], excluded: &[bool], victim: Option<usize>, dst: &Path, o: &Opt, r: &mut CaseResult) -> Option<TargetFacts> {
    let before = r.viols.len();
    let mut a = match Archive::open(dst) {
        Ok(a) => a,
        Err(e) => {
            r.viol(format!("rebuilt target does not open [{} source]", t.src_class()), format!("{e}"));
            return None;
        }
    };
    let mut present = vec![false; t.files.len()];
    // total loss is its own failure mode: every listed, not excluded file is absent
    let keepers: Vec<usize> = (0..t.files.len()).filter(|&k| listed[k] && !excluded[k] && Some(k) != victim).collect();
    let total_loss = !keepers.is_empty() && keepers.iter().all(|&k| matches!(a.find_file(&t.files[k].name), Ok(None)));
    if total_loss {
        r.viol(
            format!("every listed, not excluded source file is missing from the target (empty rebuild) [{} source]", t.src_class()),
            format!("{} files expected, e.g. {}; requested target={}", keepers.len(), t.files[keepers[0]].name, o.target()),
        );
    }
    for (k, f) in t.files.iter().enumerate() {
        let found = match a.find_file(&f.name) {
            Ok(x) => x,
            Err(e) => {
                r.viol(format!("find_file on the rebuilt target errors [{} source]", t.src_class()), format!("{}: {e}", f.name));
                None
            }
        };
        let keep = listed[k] && !excluded[k];
        match found {
            None if keep && Some(k) == victim => {
                // the call reported success, so the file had to be carried over; it could not be read, so it was not
                r.viol(
                    format!("rebuild reports success although a listed file of the source is missing from the target [file unreadable in the source, not excluded by the options, {} source, {}]", t.src_class(), file_ctx(t, f)),
                    format!("name={} len={} requested target={} verify={}", f.name, f.data.len(), o.target(), o.verify()),
                );
            }
            None => {
                if keep && !total_loss {
                    let why = if f.is_signature() { "signature entry, skip_signatures off" } else { "" };
                    r.viol(
                        format!("listed, not excluded source file is missing from the target [{} source, {}{}]", t.src_class(), file_ctx(t, f), if why.is_empty() { String::new() } else { format!(", {why}") }),
                        format!("name={} len={} requested target={}", f.name, f.data.len(), o.target()),
                    );
                }
            }
            Some(fi) => {
                present[k] = true;
                if excluded[k] {
                    let which = if f.is_signature() { "skip_signatures" } else { "skip_encrypted" };
                    r.viol(format!("file excluded by {which} is present in the target"), format!("name={} flags={:#x}", f.name, fi.flags));
                }
                match a.read_file(&f.name) {
                    Ok(got) if Some(k) == victim && keep => {
                        if got != f.data {
                            r.viol(
                                format!("rebuild reports success although a listed file of the source could not be carried over: the target holds other content under its name [file unreadable in the source, {} source, {}]", t.src_class(), file_ctx(t, f)),
                                format!("name={} len={} got_len={} requested target={}", f.name, f.data.len(), got.len(), o.target()),
                            );
                        }
                    }
                    Ok(got) => {
                        if got != f.data {
                            let class = if got.len() != f.data.len() { "wrong length" } else { "same length, wrong bytes" };
                            r.viol(
                                format!("file in the target differs from the source content ({class}) [{} source, {}]", t.src_class(), file_ctx(t, f)),
                                format!("name={} len={} got_len={} target={} comp_override={}", f.name, f.data.len(), got.len(), o.target(), crate::opts::COMP_OV[o.d[1] as usize]),
                            );
                        }
                    }
                    Err(e) => {
                        r.viol(
                            format!("file present in the target cannot be read back [{} source, {}]", t.src_class(), file_ctx(t, f)),
                            format!("name={} len={} err={e}", f.name, f.data.len()),
                        );
                    }
                }
            }
        }
    }
    // entry census: nothing but source files and special files may be in the target
    let mut specials = vec![];
    for s in SPECIALS {
        if t.files.iter().any(|f| fold(&f.name) == fold(s)) {
            continue;
        }
        if let Ok(Some(_)) = a.find_file(s) {
            specials.push(s);
        }
    }
    let exists: Option<usize> = match std::fs::read(dst).ok().and_then(|b| mpqref::parse(&b).ok()) {
        Some(p) => {
            r.count("target_census_independent", 1);
            Some(p.block.iter().filter(|b| b.flags & mpqref::F_EXISTS != 0).count())
        }
        None => {
            r.count("target_census_library_fallback", 1);
            a.block_table().map(|bt| bt.entries().iter().filter(|e| e.exists()).count())
        }
    };
    if let Some(n) = exists {
        let known = present.iter().filter(|&&p| p).count() + specials.len();
        // files the source does not list could legitimately be carried under a synthetic name
        let anonymous_allowance = (0..t.files.len()).filter(|&k| !listed[k] && !present[k]).count();
        if n > known + anonymous_allowance {
            r.viol(
                format!("target holds entries that are neither source files nor special files [{} source]", t.src_class()),
                format!("existing block entries={n} source files found={} specials={:?}", known - specials.len(), specials),
            );
        }
    }
    Some(TargetFacts { present, faults: r.viols.len() - before, specials })
}

/// `victim`: `Some(k)` when the source was damaged so that file `k` (and only it) cannot be read.  Then
/// `Err` is always an acceptable answer; `Ok` is judged like any other rebuild against the UNDAMAGED truth.
pub fn judge_rebuild(t: &Truth, src: &Path, dst: &Path, o: &Opt, victim: Option<usize>, r: &mut CaseResult) {
    // listed names: the source's own (listfile) through the independent reader
    let mut listed: Vec<bool> = t.files.iter().map(|f| f.listed && t.has_listfile).collect();
    if t.has_listfile {
        match std::fs::read(src).ok().and_then(|b| mpqref::parse(&b).ok()).and_then(|p| p.listfile()) {
            Some(lines) => {
                r.count("source_listing_independent", 1);
                let set: std::collections::BTreeSet<String> = lines.iter().map(|l| fold(l)).collect();
                let ind: Vec<bool> = t.files.iter().map(|f| set.contains(&fold(&f.name))).collect();
                if ind != listed {
                    // the writer of the source did not list what the generator asked for: go by the archive
                    r.count("source_listing_differs_from_generator", 1);
                    listed = ind;
                }
            }
            None => r.count("source_listing_from_generator", 1),
        }
    }
    let excluded: Vec<bool> = t.files.iter().map(|f| (o.skip_encrypted() && f.enc) || (o.skip_signatures() && f.is_signature())).collect();
    let n_user = t.files.len();
    let n_keep = (0..n_user).filter(|&k| listed[k] && !excluded[k]).count();
    // files the source's own listing names (a summary may count by listing or by table: both accepted)
    let n_listed = listed.iter().filter(|&&l| l).count();
    let n_spec_src = t.has_listfile as usize + t.has_attributes as usize;

    let res = guarded(|| rebuild_archive(src, dst, o.to_real(), None));
    let sum = match res {
        Err((file, line, msg)) => {
            r.outcome = "panic".into();
            r.viol(panic_class(&file, &msg), format!("rebuild_archive: panic at {file}:{line}: {msg}"));
            return;
        }
        Ok(Err(e)) => {
            r.outcome = format!("err:{}", err_class(&e));
            if !dst.exists() {
                r.err_return = true;
                return;
            }
            if victim.is_some() {
                // a source with an unreadable listed file may be refused at any stage (e.g. by the
                // verification after the target was written): the loss is reported, nothing is demanded
                r.err_return = true;
                r.count("err_with_target_left_behind_damaged_source", 1);
                return;
            }
            // Err after the target was produced (verification or late failure): judge what was left behind
            let facts = judge_target(t, &listed, &excluded, victim, dst, o, r);
            if let Some(f) = facts {
                if f.faults == 0 && !t.has_listfile {
                    // nothing was listed, nothing was demanded: the Err (verification noticing the empty
                    // result) is counted as a refusal although a target was left behind
                    r.err_return = true;
                    r.count("err_with_target_left_behind_source_without_listfile", 1);
                } else if f.faults == 0 {
                    r.viol(
                        format!(
                            "rebuild_archive returns Err ({}) although the target it left behind holds exactly the expected files [verify={}, {} source, {}]",
                            err_class(&e),
                            o.verify(),
                            t.src_class(),
                            listing_class(t)
                        ),
                        format!("{e}"),
                    );
                }
            }
            return;
        }
        Ok(Ok(s)) => s,
    };
    r.nontrivial = true;
    r.count("rebuild_ok", 1);

    // ---- counts: extracted + skipped = source, each within the convention-free interval
    let check_sum = |r: &mut CaseResult| -> bool {
        if sum.extracted_files.checked_add(sum.skipped_files) != Some(sum.source_files) {
            r.viol(
                "RebuildSummary counts do not add up (extracted + skipped != source)",
                format!("source={} extracted={} skipped={}", sum.source_files, sum.extracted_files, sum.skipped_files),
            );
            return false;
        }
        true
    };
    if o.list_only() {
        r.outcome = "ok-list-only".into();
        if dst.exists() {
            r.count("list_only_wrote_a_target", 1);
        }
        if check_sum(r) {
            if sum.source_files < n_listed || sum.source_files > n_user + n_spec_src {
                r.viol(
                    format!("RebuildSummary.source_files is not the number of files in the source [{} source]", t.src_class()),
                    format!("source_files={} listed user files={} user files={} special files={} empty files={}", sum.source_files, n_listed, n_user, n_spec_src, t.files.iter().filter(|f| f.data.is_empty()).count()),
                );
            }
            let n_excl = excluded.iter().filter(|&&x| x).count();
            // a file that cannot be read is truthfully reported as not extracted
            let n_keep = n_keep - victim.map_or(0, |k| (listed[k] && !excluded[k]) as usize);
            if sum.extracted_files < n_keep || sum.extracted_files > (n_user - n_excl) + n_spec_src {
                let what = if sum.extracted_files < n_keep { "reports listed, not excluded source files as skipped" } else { "reports more extracted files than the options keep" };
                r.viol(
                    format!("list_only RebuildSummary {what} [{} source]", t.src_class()),
                    format!("extracted={} kept listed user files={} special files={} user files={}", sum.extracted_files, n_keep, n_spec_src, n_user),
                );
            }
        }
        return;
    }
    r.outcome = "ok".into();
    if !dst.exists() {
        r.viol("rebuild_archive returned Ok without producing the target", "");
        return;
    }
    let Some(facts) = judge_target(t, &listed, &excluded, victim, dst, o, r) else { return };
    let p_user = facts.present.iter().filter(|&&p| p).count();
    let carried_spec = facts.specials.iter().filter(|s| (**s == "(listfile)" && t.has_listfile) || (**s == "(attributes)" && t.has_attributes)).count();
    if check_sum(r) {
        if sum.source_files < n_listed || sum.source_files > n_user + n_spec_src {
            r.viol(
                format!("RebuildSummary.source_files is not the number of files in the source [{} source]", t.src_class()),
                format!("source_files={} listed user files={} user files={} special files={} empty files={}", sum.source_files, n_listed, n_user, n_spec_src, t.files.iter().filter(|f| f.data.is_empty()).count()),
            );
        }
        if sum.extracted_files < p_user || sum.extracted_files > p_user + carried_spec {
            r.viol(
                format!("RebuildSummary.extracted_files disagrees with the source files actually present in the target [{} source]", t.src_class()),
                format!("extracted={} source files present in target={} special files carried={}", sum.extracted_files, p_user, carried_spec),
            );
        }
        // (a special file found in the target may have been regenerated rather than carried: either count is accepted)
        let listed_absent = (0..n_user).filter(|&k| listed[k] && !facts.present[k]).count();
        if sum.skipped_files < listed_absent || sum.skipped_files > (n_user - p_user) + n_spec_src {
            r.viol(
                format!("RebuildSummary.skipped_files disagrees with the source files actually absent from the target [{} source]", t.src_class()),
                format!("skipped={} listed source files absent from target={} all source files absent from target={} special files in source={}", sum.skipped_files, listed_absent, n_user - p_user, n_spec_src),
            );
        }
    }
    if sum.verified != o.verify() {
        r.count("verified_flag_differs_from_request", 1);
    }
    if let Ok(a) = Archive::open(dst) {
        if a.header().format_version as usize != o.requested_version(t.version) {
            r.count("target_version_differs_from_request", 1);
        }
    }

    // ---- comparison must report no content difference (judged when the target is faithful; a
    //      panic or Err of the comparison is judged always)
    let faithful = facts.faults == 0;
    if victim.is_some() {
        // comparing against a source with an unreadable file is outside what the property states
        return;
    }
    for detailed in [false, true] {
        let mode = if detailed { "detailed" } else { "plain" };
        match guarded(|| compare_archives(src, dst, detailed, true, false, true, None)) {
            Err((file, line, msg)) => {
                r.viol(panic_class(&file, &msg), format!("compare_archives({mode}): panic at {file}:{line}: {msg}; target faithful={faithful}"));
                r.count(if faithful { "compare_panics_on_faithful_target" } else { "compare_panics_on_unfaithful_target" }, 1);
            }
            Ok(Err(e)) => r.viol(format!("compare_archives fails on (source, rebuilt target) [{} source]", t.src_class()), format!("{mode}: {e}")),
            Ok(Ok(c)) => {
                r.count("compared", 1);
                let Some(files) = &c.files else { continue };
                if faithful {
                    if !files.content_differences.is_empty() {
                        let special = files.content_differences.iter().all(|n| SPECIALS.contains(&n.as_str()));
                        r.viol(
                            format!(
                                "compare_archives reports a content difference although every common user file is bit-identical [{} source, {}, {}]",
                                t.src_class(),
                                listing_class(t),
                                if special { "special files only" } else { "user files" }
                            ),
                            format!("{mode}: {:?}", files.content_differences),
                        );
                    }
                    let sz: Vec<&str> = files.size_differences.iter().filter(|d| d.source_size != d.target_size).map(|d| d.name.as_str()).collect();
                    if !sz.is_empty() {
                        let special = sz.iter().all(|n| SPECIALS.contains(n));
                        r.viol(
                            format!(
                                "compare_archives reports an uncompressed-size difference although every common user file is bit-identical [{} source, {}, {}]",
                                t.src_class(),
                                listing_class(t),
                                if special { "special files only" } else { "user files" }
                            ),
                            format!("{mode}: {sz:?}"),
                        );
                    }
                } else if files.content_differences.is_empty() && files.source_only.is_empty() {
                    r.count("compare_silent_on_unfaithful_target", 1);
                }
                if n_keep == n_user && t.has_listfile && (!files.source_only.is_empty() || !files.target_only.is_empty()) {
                    r.count("compare_reports_set_difference_on_full_rebuild", 1);
                }
                // a complete rebuild of a source that carries a listfile: the comparison must not report a listed
                // USER file of the source as missing from the target (special files may legitimately differ)
                if faithful && n_keep == n_user && t.has_listfile {
                    let special = |n: &str| n.starts_with('(') && n.ends_with(')');
                    // names are compared modulo ASCII case and slash direction: the rebuilt listing may spell a name
                    // differently, which shows up as one source-only and one target-only entry
                    let fold = |n: &str| n.to_ascii_uppercase().replace('/', "\\");
                    let there: std::collections::BTreeSet<String> = files.target_only.iter().map(|n| fold(&n.to_string())).collect();
                    let missing: Vec<String> = files.source_only.iter().map(|n| n.to_string()).filter(|n| !special(n) && !there.contains(&fold(n))).collect();
                    if !missing.is_empty() {
                        r.viol(
                            format!("compare_archives reports listed source files as missing from a rebuilt target that holds every one of them bit-identical [{} source]", t.src_class()),
                            format!("{mode}: {} names, first {:?} (the target's own listing no longer names them)", missing.len(), missing.first()),
                        );
                    }
                }
                if c.identical {
                    r.count("compare_identical", 1);
                }
            }
        }
    }
}

