//! C07 — rebuilding an MPQ archive preserves its file set and contents.
//!
//! Bounded exhaustive exploration: every source archive of a finite configuration product
//! x every rebuild option tuple of a finite option product.  Ground truth (names, bytes,
//! per-file encryption) comes from the generator in `truth.rs`, never from the library.
//! Two spaces: `built` (sources produced by the real `ArchiveBuilder`, V1..V4) and `foreign`
//! (sources produced by the independent writer `refimpl::mpqref`, V1/V2, with features the
//! builder cannot produce: a `(signature)` entry, single-unit large files, files that are in
//! the archive but not in its listfile, user-data prefix).  A third space `damaged` holds sources of
//! both writers in which exactly one listed file cannot be read (`damaged.rs`): there `Err` is the
//! expected answer, and `Ok` is held against the undamaged ground truth.
mod damaged;
mod judge;
mod opts;
mod repro;
mod truth;

use damaged::*;
use judge::*;
use opts::*;
use serde_json::{json, Value};
use truth::*;
use vcore::*;

// ------------------------------------------------------------------ the two spaces

enum Srcs {
    Built(Vec<BuiltSrc>),
    Foreign(Vec<ForeignSrc>),
    Damaged(Vec<DamagedSrc>),
}

/// case index = group + n_groups * source  (options vary fastest, simplest source first)
struct Rebuilds {
    name: &'static str,
    tier: Tier,
    groups: Vec<Group>,
    srcs: Srcs,
    scratch: Scratch,
}

impl Rebuilds {
    fn new(name: &'static str, tier: Tier) -> Rebuilds {
        let (srcs, groups, tag) = match name {
            "built" => (Srcs::Built(built_sources(tier)), option_groups(tier), "c07b"),
            "foreign" => (Srcs::Foreign(foreign_sources(tier)), option_groups(tier), "c07f"),
            _ => (Srcs::Damaged(damaged_sources(tier)), damaged_groups(tier), "c07d"),
        };
        Rebuilds { name, tier, groups, srcs, scratch: Scratch::new(tag) }
    }
    fn n_src(&self) -> usize {
        match &self.srcs {
            Srcs::Built(v) => v.len(),
            Srcs::Foreign(v) => v.len(),
            Srcs::Damaged(v) => v.len(),
        }
    }
    fn split(&self, i: u64) -> (usize, &Group) {
        let ng = self.groups.len() as u64;
        ((i / ng) as usize, &self.groups[(i % ng) as usize])
    }
}

impl Space for Rebuilds {
    fn len(&self) -> u64 {
        (self.groups.len() * self.n_src()) as u64
    }
    fn describe(&self, i: u64) -> Value {
        let (si, g) = self.split(i);
        let sj = match &self.srcs {
            Srcs::Built(v) => v[si].json(),
            Srcs::Foreign(v) => v[si].json(),
            Srcs::Damaged(v) => v[si].json(),
        };
        let mut oj = g.json(self.tier);
        if self.name == "damaged" && self.tier == Tier::Quick {
            oj["flags"] = json!("(skip_encrypted,skip_signatures,verify,list_only,preserve_order): default, each flag flipped alone, skip_encrypted+verify");
        }
        json!({"space": self.name, "source": sj, "options": oj})
    }
    fn case_timeout(&self) -> u64 {
        300
    }
    fn run(&self, i: u64) -> CaseResult {
        let (si, g) = self.split(i);
        let mut r = CaseResult::new();
        let src = self.scratch.path(&format!("s{i}.mpq"));
        let dst = self.scratch.path(&format!("d{i}.mpq"));
        let _ = std::fs::remove_file(&src);
        let mut victim: Option<usize> = None;
        let truth = match &self.srcs {
            Srcs::Damaged(v) => {
                let s = &v[si];
                r.key = format!("d/{}/{}", s.key(), g.key());
                let t = s.truth();
                // set-up: write, damage, and make sure that exactly the victim is unreadable; anything
                // else is not a case of this space (counted, never judged)
                let setup = match guarded(|| s.build(&t, &src)) {
                    Ok(Ok(())) => probe(&t, s.victim, &src),
                    Ok(Err(e)) => Err(format!("inapplicable: {e}")),
                    Err((f, l, m)) => Err(format!("set-up panic at {f}:{l}: {}", panic_class("", &m))),
                };
                if let Err(why) = setup {
                    let _ = std::fs::remove_file(&src);
                    r.outcome = format!("setup:{why}");
                    r.count("damaged_setup_not_a_case", 1);
                    return r;
                }
                victim = Some(s.victim);
                t
            }
            Srcs::Built(v) => {
                let s = &v[si];
                r.key = format!("b/{}/{}", s.key(), g.key());
                let t = s.truth();
                if let Err(e) = s.build(&t, &src) {
                    // the generator's own builder call was refused: nothing to rebuild
                    r.outcome = format!("source-build-err:{}", panic_class("", &e.to_string()));
                    r.err_return = true;
                    return r;
                }
                t
            }
            Srcs::Foreign(v) => {
                let s = &v[si];
                r.key = format!("f/{}/{}", s.key(), g.key());
                let t = s.truth();
                std::fs::write(&src, s.write(&t)).expect("write source");
                t
            }
        };
        // every flag combination of the group on the same source; identical symptoms are merged
        let mut merged: std::collections::BTreeMap<String, (u64, String, Vec<String>)> = Default::default();
        let mut outcomes: std::collections::BTreeSet<String> = Default::default();
        let (mut oks, mut refusals) = (0u64, 0u64);
        for o in &g.opts {
            let _ = std::fs::remove_file(&dst);
            let mut rr = CaseResult::new();
            guard_case(&mut rr, "judge", |x| judge_rebuild(&truth, &src, &dst, o, victim, x));
            if rr.nontrivial {
                oks += 1;
            }
            if rr.err_return {
                refusals += 1;
            }
            outcomes.insert(rr.outcome.clone());
            for (k, n) in &rr.counters {
                r.count(k, *n);
            }
            let mut seen = std::collections::BTreeSet::new();
            for v in rr.viols {
                if !seen.insert(v.symptom.clone()) {
                    continue;
                }
                let e = merged.entry(v.symptom).or_insert((0, v.detail, vec![]));
                e.0 += 1;
                e.2.push(o.flags_string());
            }
        }
        let _ = std::fs::remove_file(&src);
        let _ = std::fs::remove_file(&dst);
        for (sym, (n, detail, flags)) in merged {
            r.viol(sym, format!("{detail} | in {n} of {} flag combinations; (skip_encrypted,skip_signatures,verify,list_only,preserve_order)={}", g.opts.len(), flags.join(",")));
        }
        r.count("rebuild_calls", g.opts.len() as u64);
        r.count("refusals", refusals);
        // damaged space: the case is one as soon as the set-up was confirmed (exactly the victim unreadable);
        // a refusal by every flag combination is the expected observation there
        r.nontrivial = oks > 0 || victim.is_some();
        r.err_return = oks == 0 && refusals > 0;
        r.outcome = outcomes.into_iter().collect::<Vec<_>>().join("|");
        r
    }
}

fn build(name: &str, _arg: &str, tier: Tier) -> Box<dyn Space> {
    match name {
        "built" => Box::new(Rebuilds::new("built", tier)),
        "foreign" => Box::new(Rebuilds::new("foreign", tier)),
        "damaged" => Box::new(Rebuilds::new("damaged", tier)),
        _ => panic!("space {name}"),
    }
}

fn survey(space: &str, tier: Tier, dump: bool) {
    // sequential in-process enumeration printing a histogram of symptom classes (development aid)
    install_panic_hook();
    let sp = build(space, "", tier);
    if std::env::var("C07_COUNT_ONLY").is_ok() {
        println!("space {space}: {} cases", sp.len());
        return;
    }
    let mut hist: std::collections::BTreeMap<String, (u64, u64, String)> = Default::default();
    let mut outcomes: std::collections::BTreeMap<String, u64> = Default::default();
    let stride: u64 = std::env::var("C07_STRIDE").ok().and_then(|s| s.parse().ok()).unwrap_or(1);
    let mut i = 0;
    while i < sp.len() {
        let r = match guarded(|| sp.run(i)) {
            Ok(r) => r,
            Err((f, l, m)) => {
                let mut r = CaseResult::new();
                r.viol(panic_class(&f, &m), format!("{f}:{l}: {m}"));
                r.outcome = "panic".into();
                r
            }
        };
        *outcomes.entry(r.outcome.clone()).or_default() += 1;
        if let Ok(pat) = std::env::var("C07_OUTCOME") {
            if r.outcome.contains(&pat) {
                println!("{i}\t{}\t{}", r.outcome, sp.describe(i));
            }
        }
        for v in &r.viols {
            let e = hist.entry(v.symptom.clone()).or_insert((0, i, format!("{} :: {}", sp.describe(i), v.detail)));
            e.0 += 1;
            if dump {
                println!("{i}\t{}\t{}\t{}", v.symptom, sp.describe(i), v.detail);
            }
        }
        i += stride;
    }
    println!("space {space}: {} cases", sp.len());
    for (o, n) in outcomes {
        println!("  outcome {n:8}  {o}");
    }
    for (s, (n, first, d)) in hist {
        println!("  viol {n:8}  first={first}  {s}\n        {d}");
    }
}

fn main() {
    let args: Vec<String> = std::env::args().collect();
    if let Some(p) = args.iter().position(|a| a == "--survey") {
        let tier = if args.get(p + 2).map(|s| s.as_str()) == Some("thorough") { Tier::Thorough } else { Tier::Quick };
        survey(&args[p + 1], tier, std::env::var("C07_DUMP").is_ok());
        return;
    }
    if args.iter().any(|a| a == "--repro") {
        install_panic_hook();
        std::process::exit(repro::repro());
    }
    let Mode::Supervisor(mut c) = start("C07", "exploration", build) else { return };
    let tier = c.tier;
    let groups = option_groups(tier);
    let ng = groups.len();
    let no: usize = groups.iter().map(|g| g.opts.len()).sum();
    let nb = built_sources(tier).len();
    let nf = foreign_sources(tier).len();
    let nd = damaged_sources(tier).len();
    let dgroups = damaged_groups(tier);
    let (ndg, ndo) = (dgroups.len(), dgroups.iter().map(|g| g.opts.len()).sum::<usize>());
    c.rule = format!(
        "case = (source archive, option head (target, compression override, block-size override)); inside a case every admitted \
         combination of the five boolean options is run on the same source, so every (source, option tuple) pair of the bound is \
         executed ({no} tuples in {ng} heads; counter rebuild_calls). Sources: space `built` = real ArchiveBuilder over file-set shape x \
         per-file crypto x compression x listfile x attributes x sector shift x format version ({nb} sources); space `foreign` = \
         independent mpqref writer over V1/V2 x feature shape x crypto x method ({nf} sources). Option tuples: target \
         {{preserve,V1..V4,modernize}} x compression override {{-,none,zlib,bzip2}} x block-size override {{-,0,8}} x skip_encrypted x \
         skip_signatures x verify x list_only x preserve_order; quick = all tuples with at most 2 deviations from \
         RebuildOptions::default(), thorough = full product. A case is non-trivial when rebuild_archive returned Ok for at least one \
         flag combination (every source holds at least one user file); distinct by (source configuration, option head). \
         Space `damaged` = sources in which exactly ONE listed file cannot be read and every other file is intact ({nd} sources): four files \
         (single-sector, multi-sector, 5-byte, sector+1) written by the real ArchiveBuilder (V1..V4) or by the independent mpqref writer \
         (V1/V2; layouts {{mixed, all sectored, all single-unit}}) x compression x per-file crypto x sector checksums on/off x victim x damage \
         {{stored bytes := 0xFF, method byte := 0x04, sector offset table := 0xFF, block entry: compressed size halved / PATCH flag / position \
         beyond the archive (classic block table decrypted, edited, re-encrypted: V1/V2 only), one bit of a stored sector checksum flipped}}, \
         keeping only the tuples whose damage makes the read fail (a sectored file without checksums is read leniently, see assumptions); \
         crossed with {ndo} option tuples in {ndg} heads (quick: targets preserve/V1/V3/V4, preserve+override none, V2+override bzip2, each with the \
         default flags, every flag flipped alone and skip_encrypted+verify; thorough: the full option product). A damaged case is \
         non-trivial when its set-up was confirmed (the library's reader and, for V1/V2, the independent reader fail on the victim and \
         return every other file bit-identical) and rebuild_archive was called; distinct by (source tuple incl. victim and damage, option head)."
    );
    c.assume("ground truth = the generator's own (name, bytes, encrypted) list; the listed names of a source are the lines of its (listfile) as read by the independent reader refimpl::mpqref (fallback: generator knowledge)");
    c.assume("a source without (listfile) has no listed names: nothing is demanded to be carried over, but whatever user file is present in the target must be bit-identical and nothing unknown may appear");
    c.assume("special files (listfile)/(attributes)/(signature) are not compared for content and may or may not be counted by RebuildSummary: counts are judged by interval bounds that hold under either convention");
    c.assume("rebuild_archive returning Err without leaving a target file is a legitimate refusal (err_return); Err with a target left behind is judged by the target's content");
    c.assume("compare_archives is required to report no content difference (content_differences empty, no uncompressed-size difference) for every Ok rebuild; set differences and compressed-size/flag differences are not judged");
    c.assume("the target's entry count is taken from an independent parse (mpqref) of the target's classic block table; the library's own block_table() is the fallback when the independent parse refuses the file");
    c.assume("damaged space: ground truth is what the UNDAMAGED source held. rebuild_archive returning Err (at any stage, with or without a target left behind) is the acceptable answer; Ok is judged like any other rebuild: every listed file the options do not exclude, the unreadable one included, must be in the target bit-identical to the undamaged content, files excluded by skip_encrypted/skip_signatures must be absent (the victim too when it is excluded, in which case Ok is expected), counts must be truthful (list_only: the unreadable file may be reported as skipped). compare_archives is not judged on damaged sources");
    c.assume("damaged space: 'cannot be read' is established per case by Archive::read_file failing on the victim and (V1/V2) the independent reader failing or disagreeing with the undamaged bytes; a set-up where the library reads the damaged file without error, or where another file does not read back, is counted (damaged_setup_not_a_case) and not judged. Not in the space: sectored files without sector checksums whose sector data is damaged — Archive::read_file replaces an undecodable sector by zeros and returns Ok, so the rebuild has no way to notice");
    c.run_space("built", "");
    c.run_space("foreign", "");
    c.run_space("damaged", "");
    c.extra_cov.insert("axes".into(), axes_json(tier));
    c.extra_cov.insert("option_tuples".into(), json!(no));
    c.extra_cov.insert("option_heads".into(), json!(ng));
    c.extra_cov.insert("built_sources".into(), json!(nb));
    c.extra_cov.insert("foreign_sources".into(), json!(nf));
    c.extra_cov.insert("damaged_sources".into(), json!(nd));
    c.extra_cov.insert("damaged_option_tuples".into(), json!(ndo));
    c.extra_cov.insert("damaged_option_heads".into(), json!(ndg));
    c.extra_cov.insert("damaged_axes".into(), damaged_axes_json(tier));
    c.finish();
}
