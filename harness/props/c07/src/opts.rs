//! Rebuild option tuples (finite product; quick = at most two deviations from the default).
use serde_json::{json, Value};
use vcore::Tier;
use wow_mpq::{FormatVersion, RebuildOptions};

pub const TARGETS: [&str; 6] = ["preserve", "V1", "V2", "V3", "V4", "modernize"];
pub const COMP_OV: [&str; 4] = ["-", "none", "zlib", "bzip2"];
pub const BS_OV: [&str; 3] = ["-", "0", "8"];
/// radices in the order of `Opt::d`
pub const RADICES: [u64; 8] = [6, 4, 3, 2, 2, 2, 2, 2];

#[derive(Clone, Debug)]
pub struct Opt {
    /// digits: target, compression override, block-size override, skip_encrypted,
    /// skip_signatures(0 = true = default), verify, list_only, preserve_order(0 = true = default)
    pub d: [u8; 8],
}

impl Opt {
    pub fn target(&self) -> &'static str {
        TARGETS[self.d[0] as usize]
    }
    pub fn skip_encrypted(&self) -> bool {
        self.d[3] == 1
    }
    pub fn skip_signatures(&self) -> bool {
        self.d[4] == 0
    }
    pub fn verify(&self) -> bool {
        self.d[5] == 1
    }
    pub fn list_only(&self) -> bool {
        self.d[6] == 1
    }
    pub fn preserve_order(&self) -> bool {
        self.d[7] == 0
    }
    pub fn deviations(&self) -> usize {
        self.d.iter().filter(|&&x| x != 0).count()
    }
    /// the format version the options request for a source of version `src` (0..4)
    pub fn requested_version(&self, src: usize) -> usize {
        match self.d[0] {
            0 => src,
            5 => 3,
            v => v as usize - 1,
        }
    }
    pub fn to_real(&self) -> RebuildOptions {
        let vers = [FormatVersion::V1, FormatVersion::V2, FormatVersion::V3, FormatVersion::V4];
        RebuildOptions {
            preserve_format: self.d[0] != 5,
            target_format: match self.d[0] {
                0 | 5 => None,
                v => Some(vers[v as usize - 1]),
            },
            preserve_order: self.preserve_order(),
            skip_encrypted: self.skip_encrypted(),
            skip_signatures: self.skip_signatures(),
            verify: self.verify(),
            override_compression: match self.d[1] {
                0 => None,
                1 => Some(0x00),
                2 => Some(0x02),
                _ => Some(0x10),
            },
            override_block_size: match self.d[2] {
                0 => None,
                1 => Some(0),
                _ => Some(8),
            },
            list_only: self.list_only(),
        }
    }
}

impl Opt {
    pub fn flags_string(&self) -> String {
        // skip_encrypted, skip_signatures, verify, list_only, preserve_order as real booleans
        [self.skip_encrypted(), self.skip_signatures(), self.verify(), self.list_only(), self.preserve_order()].iter().map(|&b| if b { '1' } else { '0' }).collect()
    }
}

/// One case = one (target, compression override, block-size override) head with every boolean
/// flag combination the tier admits.
#[derive(Clone, Debug)]
pub struct Group {
    pub head: [u8; 3],
    pub opts: Vec<Opt>,
}
impl Group {
    pub fn key(&self) -> String {
        format!("{}.{}.{}", self.head[0], self.head[1], self.head[2])
    }
    pub fn json(&self, tier: Tier) -> Value {
        json!({
            "target": TARGETS[self.head[0] as usize],
            "compression": COMP_OV[self.head[1] as usize],
            "block_size": BS_OV[self.head[2] as usize],
            "flag_combinations": self.opts.len(),
            "flags": tier.pick("every (skip_encrypted,skip_signatures,verify,list_only,preserve_order) combination keeping the whole tuple within 2 deviations from RebuildOptions::default()",
                               "every (skip_encrypted,skip_signatures,verify,list_only,preserve_order) combination"),
        })
    }
}

/// All option groups of the tier, ordered by number of deviations of the head from the default,
/// then lexicographically (simplest first); inside a group the flag combinations are ordered the same way.
/// quick = every tuple with at most 2 deviations from `RebuildOptions::default()`; thorough = full product.
pub fn option_groups(tier: Tier) -> Vec<Group> {
    let total: u64 = RADICES.iter().product();
    let mut all: Vec<Opt> = (0..total)
        .map(|i| {
            let d = vcore::gen::mixed_radix(i, &RADICES);
            let mut a = [0u8; 8];
            for k in 0..8 {
                a[k] = d[k] as u8;
            }
            Opt { d: a }
        })
        .collect();
    if tier == Tier::Quick {
        all.retain(|o| o.deviations() <= 2);
    }
    all.sort_by_key(|o| (o.deviations(), o.d));
    let mut groups: Vec<Group> = vec![];
    for o in all {
        let head = [o.d[0], o.d[1], o.d[2]];
        match groups.iter_mut().find(|g| g.head == head) {
            Some(g) => g.opts.push(o),
            None => groups.push(Group { head, opts: vec![o] }),
        }
    }
    groups.sort_by_key(|g| (g.head.iter().filter(|&&x| x != 0).count(), g.head));
    groups
}
