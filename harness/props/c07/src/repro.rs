//! `c07 --repro`: minimal stand-alone reproductions of the defects this check reports on the
//! unchanged tree, written directly against the public API (no engine, no generators).
use refimpl::mpqref::{self, WFile, WOptions};
use vcore::{guarded, Scratch};
use wow_mpq::{compare_archives, rebuild_archive, Archive, ArchiveBuilder, FormatVersion, RebuildOptions};

pub fn repro() -> i32 {
    let sc = Scratch::new("c07r");
    let mut hits = 0;

    // D1: a V3 (or V4) source loses every file; the call still returns Ok
    {
        let (src, dst) = (sc.path("d1s.mpq"), sc.path("d1d.mpq"));
        ArchiveBuilder::new().version(FormatVersion::V3).add_file_data(b"hello".to_vec(), "a.txt").build(&src).unwrap();
        let sum = rebuild_archive(&src, &dst, RebuildOptions::default(), None);
        let found = Archive::open(&dst).ok().and_then(|a| a.find_file("a.txt").ok().flatten()).is_some();
        println!("D1 V3 source, default options: summary={sum:?}; a.txt present in target: {found} (expected: true)");
        if sum.is_ok() && !found {
            hits += 1;
            println!("   => DEFECT D1 reproduced: rebuild returned Ok but the target is empty");
        }
    }
    // D3: an empty file in the source makes the count arithmetic underflow (panic with overflow checks,
    //     skipped_files = usize::MAX without)
    {
        let (src, dst) = (sc.path("d3s.mpq"), sc.path("d3d.mpq"));
        ArchiveBuilder::new().add_file_data(b"abc".to_vec(), "a.txt").add_file_data(vec![], "empty.txt").build(&src).unwrap();
        match guarded(|| rebuild_archive(&src, &dst, RebuildOptions::default(), None)) {
            Err((f, l, m)) => {
                hits += 1;
                println!("D3 V1 source with a 0-byte file: panic at {f}:{l}: {m}\n   => DEFECT D3 reproduced");
            }
            Ok(r) => {
                println!("D3 V1 source with a 0-byte file: {r:?} (expected source=3 extracted=3 skipped=0)");
                if let Ok(s) = r {
                    if s.extracted_files.checked_add(s.skipped_files) != Some(s.source_files) || s.source_files < 2 {
                        hits += 1;
                        println!("   => DEFECT D3 reproduced (untruthful counts)");
                    }
                }
            }
        }
    }
    // D2: compare_archives(detailed) panics on a faithful rebuild whose compression differs
    {
        let (src, dst) = (sc.path("d2s.mpq"), sc.path("d2d.mpq"));
        ArchiveBuilder::new().default_compression(0).add_file_data(vec![7u8; 300], "a.txt").add_file_data(vec![9u8; 300], "b.txt").build(&src).unwrap();
        let o = RebuildOptions { override_compression: Some(0x02), ..Default::default() };
        let sum = rebuild_archive(&src, &dst, o, None);
        let same = Archive::open(&dst).ok().and_then(|mut a| a.read_file("a.txt").ok()) == Some(vec![7u8; 300]);
        match guarded(|| compare_archives(&src, &dst, true, true, false, true, None)) {
            Err((f, l, m)) => {
                hits += 1;
                println!("D2 rebuild with compression override zlib: {sum:?}, content identical={same}; compare_archives(detailed=true) panics at {f}:{l}: {m}\n   => DEFECT D2 reproduced");
            }
            Ok(c) => println!("D2 compare_archives(detailed=true): {:?}", c.map(|c| c.summary)),
        }
    }
    // D5: verify=true fails on a faithful rebuild when the source's (listfile) does not name itself
    {
        let (src, dst) = (sc.path("d5s.mpq"), sc.path("d5d.mpq"));
        let bytes = mpqref::write(&[WFile::plain("a.txt", b"hello")], &WOptions::default()).unwrap();
        std::fs::write(&src, bytes).unwrap();
        let o = RebuildOptions { verify: true, ..Default::default() };
        let res = rebuild_archive(&src, &dst, o, None);
        let same = Archive::open(&dst).ok().and_then(|mut a| a.read_file("a.txt").ok()) == Some(b"hello".to_vec());
        println!("D5 source whose (listfile) is just \"a.txt\", verify=true: {res:?}; a.txt identical in target: {same}");
        if res.is_err() && same {
            hits += 1;
            println!("   => DEFECT D5 reproduced: verification rejects a faithful rebuild");
        }
    }
    println!("{hits} defect(s) reproduced");
    if hits > 0 {
        1
    } else {
        0
    }
}
