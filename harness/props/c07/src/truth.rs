//! Ground truth (names, bytes, per-file encryption) and the two source generators.
use mpqx::{colliding_names, Config, COMP_FLAGS, COMP_NAMES};
use refimpl::mpqref::{self, WFile, WOptions};
use serde_json::{json, Value};
use vcore::{gen, Tier};

#[derive(Clone, Debug)]
pub struct GFile {
    /// name as handed to the writer (may contain '/')
    pub name: String,
    pub data: Vec<u8>,
    pub enc: bool,
    pub fix: bool,
    /// appears in the source's (listfile)
    pub listed: bool,
}
impl GFile {
    pub fn is_signature(&self) -> bool {
        self.name == "(signature)" || self.name == "(strong signature)"
    }
    pub fn crypto_class(&self) -> &'static str {
        match (self.enc, self.fix) {
            (false, _) => "plain",
            (true, false) => "encrypted",
            (true, true) => "encrypted+fixkey",
        }
    }
}

#[derive(Clone, Debug)]
pub struct Truth {
    pub files: Vec<GFile>,
    pub has_listfile: bool,
    pub has_attributes: bool,
    /// format version of the source, 0..4
    pub version: usize,
    pub sector: usize,
    /// "builder" | "mpqref"
    pub origin: &'static str,
}
impl Truth {
    pub fn size_class(&self, f: &GFile) -> &'static str {
        if f.data.is_empty() {
            "empty"
        } else if f.data.len() <= self.sector {
            "within-one-sector"
        } else {
            "multi-sector"
        }
    }
    pub fn src_class(&self) -> &'static str {
        if self.version >= 2 {
            "V3/V4"
        } else {
            "V1/V2"
        }
    }
}

pub const SHAPES: [&str; 4] = ["one", "ladder", "ladder+empty", "many"];
pub const CRYPTO: [&str; 4] = ["plain", "encrypted", "encrypted+fixkey", "mixed"];

pub fn crypto_of(axis: usize, k: usize) -> (bool, bool) {
    let c = if axis == 3 { k % 3 } else { axis };
    (c >= 1, c == 2)
}

fn shape_lengths(shape: usize, s: usize) -> Vec<usize> {
    match shape {
        0 => vec![5],
        1 => vec![1, 2, s - 1, s, s + 1, 2 * s + 1, 5 * s + 3],
        2 => vec![0, 1, s, s + 1, 3 * s, 0],
        _ => {
            let mut v: Vec<usize> = (0..24).map(|k| (k * 37) % 300 + 1).collect();
            v.push(2 * s + 7);
            v
        }
    }
}

fn make_files(shape: usize, crypto: usize, sector: usize) -> Vec<GFile> {
    let lens = shape_lengths(shape, sector);
    let names = colliding_names(lens.len(), 32, 7);
    lens.iter()
        .enumerate()
        .map(|(k, &l)| {
            let (enc, fix) = crypto_of(crypto, k);
            GFile { name: names[k].clone(), data: gen::content(gen::TEXTURES[(k + shape) % 6], l, sector, k as u64 + 1), enc, fix, listed: true }
        })
        .collect()
}

// ------------------------------------------------------------------ built sources

#[derive(Clone, Debug)]
pub struct BuiltSrc {
    pub shape: usize,
    pub crypto: usize,
    pub comp: usize, // index into mpqx::COMP_*
    pub listfile: bool,
    pub attrs: usize, // 0 none, 1 crc32 (not "full": its wall-clock timestamps would make stored sizes differ between runs)
    pub shift: u16,
    pub version: usize,
}

impl BuiltSrc {
    pub fn key(&self) -> String {
        format!("{}.{}.{}.{}.{}.{}.{}", self.shape, self.crypto, self.comp, self.listfile, self.attrs, self.shift, self.version)
    }
    pub fn json(&self) -> Value {
        json!({"writer": "ArchiveBuilder", "version": format!("V{}", self.version + 1), "shape": SHAPES[self.shape], "crypto": CRYPTO[self.crypto],
               "compression": COMP_NAMES[self.comp], "listfile": self.listfile, "attributes": if self.attrs == 0 { "none" } else { "crc32" },
               "shift": self.shift, "lengths": shape_lengths(self.shape, 512usize << self.shift)})
    }
    pub fn cfg(&self) -> Config {
        Config { version: self.version, shift: self.shift, comp: self.comp, crypto: 0, crc: false, attrs: self.attrs, listfile: self.listfile, tcomp: false }
    }
    pub fn truth(&self) -> Truth {
        let sector = 512usize << self.shift;
        let mut files = make_files(self.shape, self.crypto, sector);
        for f in files.iter_mut() {
            f.listed = self.listfile;
        }
        Truth { files, has_listfile: self.listfile, has_attributes: self.attrs != 0, version: self.version, sector, origin: "builder" }
    }
    pub fn build(&self, t: &Truth, path: &std::path::Path) -> Result<(), wow_mpq::Error> {
        let cfg = self.cfg();
        let mut b = cfg.builder();
        for f in &t.files {
            let c = COMP_FLAGS[self.comp];
            b = if f.enc { b.add_file_data_with_encryption(f.data.clone(), &f.name, c, f.fix, 0) } else { b.add_file_data_with_options(f.data.clone(), &f.name, c, false, 0) };
        }
        b.build(path)
    }
}

pub fn built_sources(tier: Tier) -> Vec<BuiltSrc> {
    let comps: Vec<usize> = tier.pick(vec![0, 1], vec![0, 1, 2]);
    let shifts: Vec<u16> = tier.pick(vec![3], vec![3, 0]);
    let mut v = vec![];
    // slowest axis first in the loop nest => fastest axis varies fastest in the index
    for version in 0..4 {
        for &shift in &shifts {
            for attrs in [0usize, 1] {
                for listfile in [true, false] {
                    for &comp in &comps {
                        for crypto in 0..4 {
                            for shape in 0..4 {
                                v.push(BuiltSrc { shape, crypto, comp, listfile, attrs, shift, version });
                            }
                        }
                    }
                }
            }
        }
    }
    v
}

// ------------------------------------------------------------------ foreign sources (independent writer)

pub const FSHAPES: [&str; 6] = ["signature", "single-unit-large+sectored-small", "partly-unlisted", "userdata+tight-hash+deleted-slots", "no-listfile", "forward-slash-lowercase-names"];
pub const FMETHODS: [&str; 3] = ["none", "zlib", "bzip2"];

#[derive(Clone, Debug)]
pub struct ForeignSrc {
    pub shape: usize,
    pub crypto: usize,
    pub method: usize,
    pub version: usize, // 0,1
}

impl ForeignSrc {
    pub fn key(&self) -> String {
        format!("{}.{}.{}.{}", self.shape, self.crypto, self.method, self.version)
    }
    pub fn json(&self) -> Value {
        json!({"writer": "mpqref", "version": format!("V{}", self.version + 1), "shape": FSHAPES[self.shape], "crypto": CRYPTO[self.crypto], "compression": FMETHODS[self.method], "shift": 3})
    }
    pub fn truth(&self) -> Truth {
        let s = 4096usize;
        let mk = |k: usize, name: &str, len: usize| {
            let (enc, fix) = crypto_of(self.crypto, k);
            GFile { name: name.to_string(), data: gen::content(gen::TEXTURES[(k + 2) % 6], len, s, 40 + k as u64), enc, fix, listed: true }
        };
        let mut files = match self.shape {
            0 => {
                let mut v = vec![mk(0, "Units\\Human\\Footman.mdx", 700), mk(1, "war3map.j", 2 * s + 11), mk(2, "Scripts\\common.ai", 1)];
                // a weak-signature shaped entry: 8 zero bytes + 64 signature bytes; never encrypted/compressed
                let mut sig = vec![0u8; 8];
                sig.extend((0..64u32).map(|x| (x * 3 + 1) as u8));
                v.push(GFile { name: "(signature)".into(), data: sig, enc: false, fix: false, listed: true });
                v
            }
            1 => vec![mk(0, "big\\single-unit.bin", 3 * s + 5), mk(1, "small\\sectored.txt", 17), mk(2, "big\\two.bin", s + 1), mk(3, "exact.bin", s)],
            2 => {
                let mut v = vec![mk(0, "listed\\a.txt", 100), mk(1, "Unlisted\\b.txt", 200), mk(2, "listed\\c.bin", s + 2), mk(3, "unlisted-d.bin", 3)];
                v[1].listed = false;
                v[3].listed = false;
                v
            }
            3 => (0..6).map(|k| mk(k, &colliding_names(6, 8, 3)[k], [9, s + 9, 300, 1, 2 * s, 77][k])).collect(),
            4 => {
                let mut v = vec![mk(0, "a.txt", 10), mk(1, "dir\\b.txt", s + 10)];
                for f in v.iter_mut() {
                    f.listed = false;
                }
                v
            }
            _ => vec![mk(0, "dir/sub/file.txt", 50), mk(1, "dir/other.bin", s + 3), mk(2, "top.dat", 4)],
        };
        if self.shape == 4 {
            for f in files.iter_mut() {
                f.listed = false;
            }
        }
        Truth { files, has_listfile: self.shape != 4, has_attributes: false, version: self.version, sector: s, origin: "mpqref" }
    }
    pub fn write(&self, t: &Truth) -> Vec<u8> {
        let method = [0u8, mpqref::M_ZLIB, mpqref::M_BZIP2][self.method];
        let wf: Vec<WFile> = t
            .files
            .iter()
            .enumerate()
            .map(|(k, f)| WFile {
                name: f.name.as_bytes().to_vec(),
                data: f.data.clone(),
                method: if f.is_signature() { 0 } else { method },
                encrypt: f.enc,
                fix_key: f.fix,
                // shape 1: large files as one unit, small ones sectored; elsewhere: by size, like common writers
                single_unit: if self.shape == 1 { k % 2 == 0 } else { false },
                raw_flags: 0,
                in_listfile: f.listed,
            })
            .collect();
        let mut o = WOptions { version: self.version as u16, shift: 3, hash_size: 16, listfile: t.has_listfile, userdata_prefix: 0, deleted_slots: vec![], reuse_deleted: true };
        if self.shape == 3 {
            o.userdata_prefix = 512;
            o.hash_size = 8;
            o.deleted_slots = vec![3];
        }
        mpqref::write(&wf, &o).expect("independent writer")
    }
}

pub fn foreign_sources(tier: Tier) -> Vec<ForeignSrc> {
    let methods: Vec<usize> = tier.pick(vec![0, 1], vec![0, 1, 2]);
    let mut v = vec![];
    for version in 0..2 {
        for &method in &methods {
            for crypto in 0..4 {
                for shape in 0..FSHAPES.len() {
                    v.push(ForeignSrc { shape, crypto, method, version });
                }
            }
        }
    }
    v
}

pub fn axes_json(tier: Tier) -> Value {
    json!({
        "built": {"shape": SHAPES, "crypto": CRYPTO, "compression": tier.pick(vec!["none", "zlib"], vec!["none", "zlib", "bzip2"]),
                  "listfile": 2, "attributes": ["none", "crc32"], "shift": tier.pick(vec![3], vec![3, 0]), "version": 4},
        "foreign": {"shape": FSHAPES, "crypto": CRYPTO, "compression": tier.pick(vec!["none", "zlib"], vec!["none", "zlib", "bzip2"]), "version": ["V1", "V2"]},
        "options": {"target": crate::opts::TARGETS, "compression_override": crate::opts::COMP_OV, "block_size_override": crate::opts::BS_OV,
                    "skip_encrypted": 2, "skip_signatures": 2, "verify": 2, "list_only": 2, "preserve_order": 2,
                    "tuples": tier.pick("all with <= 2 deviations from default", "full product")},
    })
}
