//! C08 — patch-chain lookup returns the highest-priority version whatever the history; patch
//! entries resolve to verified bytes or an error.
//!
//! Chain part: explicit-state search to closure.  A state is the model chain (ordered list of
//! (archive, priority, original insertion rank)); every enabled event is executed on a REAL
//! `PatchChain` rebuilt by replaying a history that reaches the state, and every name of the pool
//! is then looked up and compared with the model.  Patch part: exhaustive enumeration of COPY/BSD0
//! patch files from an independent encoder, well-formed and with every field / payload byte
//! altered, through a real chain (base archive + patch archive).
use refimpl::mpqref::{self, WFile, WOptions};
use refimpl::ptch::{self, Ctrl};
use serde_json::{json, Value};
use std::collections::{BTreeMap, BTreeSet, HashSet};
use std::path::PathBuf;
use vcore::*;
use wow_mpq::{ArchiveBuilder, ListfileOption, PatchChain};

#[global_allocator]
static A: vcore::alloc::Counting = vcore::alloc::Counting;

const PRIOS: [i32; 3] = [-5, 0, 7];
const NARCH: usize = 4;

/// file name -> which archives hold it (content = "<archive>:<name>")
fn name_sets() -> Vec<(String, Vec<usize>)> {
    vec![
        ("common\\all.txt".into(), vec![0, 1, 2, 3]),
        ("pair\\zero-one.txt".into(), vec![0, 1]),
        ("pair\\one-two.txt".into(), vec![1, 2]),
        ("only\\zero.txt".into(), vec![0]),
        ("only\\two.txt".into(), vec![2]),
        ("only\\three.txt".into(), vec![3]),
        ("pair\\zero-three.txt".into(), vec![0, 3]),
        ("Case\\Mixed.TXT".into(), vec![0]),  // a1 holds the same name in other case
        ("CASE\\MIXED.txt".into(), vec![1]),
    ]
}
fn content(arch: usize, name: &str) -> Vec<u8> {
    format!("{}:{}", arch, mpqx::fold(name)).into_bytes()
}
fn build_archives(dir: &Scratch) -> Vec<PathBuf> {
    let mut v = vec![];
    for a in 0..NARCH {
        let p = dir.path(&format!("a{a}.mpq"));
        let mut b = ArchiveBuilder::new().listfile_option(if a == 3 { ListfileOption::None } else { ListfileOption::Generate });
        for (n, holders) in name_sets() {
            if holders.contains(&a) {
                b = b.add_file_data(content(a, &n), &n);
            }
        }
        b.build(&p).expect("build chain archive");
        v.push(p);
    }
    v
}
/// folded name -> set of archives that contain it
fn holders_by_fold() -> BTreeMap<String, BTreeSet<usize>> {
    let mut m: BTreeMap<String, BTreeSet<usize>> = BTreeMap::new();
    for (n, hs) in name_sets() {
        m.entry(mpqx::fold(&n)).or_default().extend(hs);
    }
    m
}

#[derive(Clone, Debug, PartialEq, Eq, Hash, PartialOrd, Ord)]
struct Ent {
    arch: usize,
    prio: i32,
    seq: usize, // original insertion rank
}
type MState = Vec<Ent>; // in library order (highest priority first, later insertions after ties)

#[derive(Clone, Debug)]
enum Ev {
    Add(usize, i32),
    Remove(usize),
    SetPrio(usize, i32),
    Clear,
    AddPar(Vec<(usize, i32)>),
    FromPar(Vec<(usize, i32)>),
}
fn ev_str(e: &Ev) -> String {
    match e {
        Ev::Add(a, p) => format!("add(a{a},{p})"),
        Ev::Remove(a) => format!("remove(a{a})"),
        Ev::SetPrio(a, p) => format!("set_priority(a{a},{p})"),
        Ev::Clear => "clear".into(),
        Ev::AddPar(l) => format!("add_archives_parallel({:?})", l),
        Ev::FromPar(l) => format!("from_archives_parallel({:?})", l),
    }
}
fn ev_json(e: &Ev) -> Value {
    match e {
        Ev::Add(a, p) => json!(["add", a, p]),
        Ev::Remove(a) => json!(["remove", a]),
        Ev::SetPrio(a, p) => json!(["setprio", a, p]),
        Ev::Clear => json!(["clear"]),
        Ev::AddPar(l) => json!(["addpar", l]),
        Ev::FromPar(l) => json!(["frompar", l]),
    }
}
fn ev_from(v: &Value) -> Ev {
    let a = v.as_array().unwrap();
    let list = |x: &Value| -> Vec<(usize, i32)> { x.as_array().unwrap().iter().map(|p| (p[0].as_u64().unwrap() as usize, p[1].as_i64().unwrap() as i32)).collect() };
    match a[0].as_str().unwrap() {
        "add" => Ev::Add(a[1].as_u64().unwrap() as usize, a[2].as_i64().unwrap() as i32),
        "remove" => Ev::Remove(a[1].as_u64().unwrap() as usize),
        "setprio" => Ev::SetPrio(a[1].as_u64().unwrap() as usize, a[2].as_i64().unwrap() as i32),
        "clear" => Ev::Clear,
        "addpar" => Ev::AddPar(list(&a[1])),
        _ => Ev::FromPar(list(&a[1])),
    }
}
fn insert(st: &mut MState, e: Ent) {
    let pos = st.iter().position(|x| x.prio < e.prio).unwrap_or(st.len());
    st.insert(pos, e);
}
fn next_seq(st: &MState) -> usize {
    st.iter().map(|e| e.seq + 1).max().unwrap_or(0)
}
fn normalise(st: &mut MState) {
    let mut seqs: Vec<usize> = st.iter().map(|e| e.seq).collect();
    seqs.sort();
    for e in st.iter_mut() {
        e.seq = seqs.iter().position(|s| *s == e.seq).unwrap();
    }
}
fn model_step(st: &MState, ev: &Ev) -> MState {
    let mut s = st.clone();
    match ev {
        Ev::Add(a, p) => {
            let q = next_seq(&s);
            insert(&mut s, Ent { arch: *a, prio: *p, seq: q });
        }
        Ev::Remove(a) => {
            if let Some(pos) = s.iter().position(|e| e.arch == *a) {
                s.remove(pos);
            }
        }
        Ev::SetPrio(a, p) => {
            if let Some(pos) = s.iter().position(|e| e.arch == *a) {
                let mut e = s.remove(pos);
                e.prio = *p;
                insert(&mut s, e); // keeps its original seq: tie order is ambiguous, handled in `winners`
            }
        }
        Ev::Clear => s.clear(),
        Ev::AddPar(l) | Ev::FromPar(l) => {
            if matches!(ev, Ev::FromPar(_)) {
                s.clear();
            }
            for (a, p) in l {
                let q = next_seq(&s);
                insert(&mut s, Ent { arch: *a, prio: *p, seq: q });
            }
        }
    }
    normalise(&mut s);
    s
}
fn enabled(st: &MState, tier: Tier) -> Vec<Ev> {
    let mut v = vec![];
    let present: Vec<usize> = st.iter().map(|e| e.arch).collect();
    let absent: Vec<usize> = (0..NARCH).filter(|a| !present.contains(a)).collect();
    for &a in &absent {
        for p in PRIOS {
            v.push(Ev::Add(a, p));
        }
    }
    for a in 0..NARCH {
        v.push(Ev::Remove(a));
    }
    for e in st {
        for p in PRIOS {
            if p != e.prio {
                v.push(Ev::SetPrio(e.arch, p));
            }
        }
    }
    v.push(Ev::Clear);
    for &a in &absent {
        for &b in &absent {
            if a != b {
                for (pa, pb) in [(0, 0), (7, -5), (-5, 7)] {
                    v.push(Ev::AddPar(vec![(a, pa), (b, pb)]));
                }
            }
        }
    }
    if st.is_empty() {
        // constructors: ordered sub-lists of <= 3 archives
        let arch: Vec<usize> = (0..NARCH).collect();
        let prs: Vec<[i32; 3]> = tier.pick(vec![[0, 0, 0], [7, 0, -5]], vec![[0, 0, 0], [7, 0, -5], [-5, 0, 7], [0, 7, 0]]);
        for &a in &arch {
            for pr in &prs {
                v.push(Ev::FromPar(vec![(a, pr[0])]));
            }
            for &b in &arch {
                if b == a {
                    continue;
                }
                for pr in &prs {
                    v.push(Ev::FromPar(vec![(a, pr[0]), (b, pr[1])]));
                }
                for &c in &arch {
                    if c == a || c == b {
                        continue;
                    }
                    for pr in &prs {
                        v.push(Ev::FromPar(vec![(a, pr[0]), (b, pr[1]), (c, pr[2])]));
                    }
                }
            }
        }
    }
    v
}
/// acceptable winners for a folded name: highest priority holder; ties -> earliest original
/// insertion, or (when a re-prioritisation created the tie) the library's list order
fn winners(st: &MState, holders: &BTreeSet<usize>) -> BTreeSet<usize> {
    let cands: Vec<&Ent> = st.iter().filter(|e| holders.contains(&e.arch)).collect();
    let mut w = BTreeSet::new();
    if cands.is_empty() {
        return w;
    }
    let top = cands.iter().map(|e| e.prio).max().unwrap();
    let tied: Vec<&&Ent> = cands.iter().filter(|e| e.prio == top).collect();
    w.insert(tied.iter().min_by_key(|e| e.seq).unwrap().arch); // earliest added
    w.insert(tied[0].arch); // first in list order (differs only after set_priority onto a tie)
    w
}

struct ChainSpace {
    states: Vec<(MState, Vec<Ev>)>, // state + a history reaching it
    events: Vec<(usize, Ev)>,
    dir: Scratch,
    paths: Vec<PathBuf>,
}
impl ChainSpace {
    fn load(arg: &str, tier: Tier) -> Self {
        let v: Value = serde_json::from_str(&std::fs::read_to_string(arg).expect("frontier")).unwrap();
        let mut states = vec![];
        for s in v["states"].as_array().unwrap() {
            let st: MState = s["state"].as_array().unwrap().iter().map(|e| Ent { arch: e[0].as_u64().unwrap() as usize, prio: e[1].as_i64().unwrap() as i32, seq: e[2].as_u64().unwrap() as usize }).collect();
            let hist: Vec<Ev> = s["history"].as_array().unwrap().iter().map(ev_from).collect();
            states.push((st, hist));
        }
        let mut events = vec![];
        for (i, (st, _)) in states.iter().enumerate() {
            for e in enabled(st, tier) {
                events.push((i, e));
            }
        }
        let dir = Scratch::new("c08");
        let paths = build_archives(&dir);
        ChainSpace { states, events, dir, paths }
    }
}
fn apply_real(chain: &mut PatchChain, ev: &Ev, paths: &[PathBuf]) -> Result<(), String> {
    match ev {
        Ev::Add(a, p) => chain.add_archive(&paths[*a], *p).map_err(|e| e.to_string()),
        Ev::Remove(a) => chain.remove_archive(&paths[*a]).map(|_| ()).map_err(|e| e.to_string()),
        Ev::SetPrio(a, p) => chain.set_priority(&paths[*a], *p).map_err(|e| e.to_string()),
        Ev::Clear => {
            chain.clear();
            Ok(())
        }
        Ev::AddPar(l) => chain.add_archives_parallel(l.iter().map(|(a, p)| (paths[*a].clone(), *p)).collect()).map_err(|e| e.to_string()),
        Ev::FromPar(l) => {
            *chain = PatchChain::from_archives_parallel(l.iter().map(|(a, p)| (paths[*a].clone(), *p)).collect()).map_err(|e| e.to_string())?;
            Ok(())
        }
    }
}
fn judge_chain(chain: &mut PatchChain, st: &MState, paths: &[PathBuf], r: &mut CaseResult, ctx: &str) {
    let hb = holders_by_fold();
    if chain.archive_count() != st.len() {
        r.viol("archive_count differs from the model", format!("{ctx}: {} vs {}", chain.archive_count(), st.len()));
    }
    for e in st {
        if chain.get_priority(&paths[e.arch]) != Some(e.prio) {
            r.viol("get_priority differs from the model", format!("{ctx}: a{} {:?} vs {}", e.arch, chain.get_priority(&paths[e.arch]), e.prio));
        }
    }
    let mut pool: Vec<String> = name_sets().into_iter().map(|x| x.0).collect();
    pool.push("never\\there.txt".into());
    pool.push("common/ALL.TXT".into());
    for n in &pool {
        let f = mpqx::fold(n);
        let holders = hb.get(&f).cloned().unwrap_or_default();
        let w = winners(st, &holders);
        // is every acceptable winner an archive with a listfile?  (a3 has none)
        let via_nolist = w.contains(&3);
        let got = chain.read_file(n);
        let tag = if via_nolist { " (winner has no listfile)" } else { "" };
        match (w.is_empty(), got) {
            (true, Ok(b)) => r.viol("a name held by no archive in the chain is readable", format!("{ctx}: {n}: {} bytes", b.len())),
            (true, Err(_)) => {}
            (false, Ok(b)) => {
                let ok = w.iter().any(|a| b == content(*a, n));
                if !ok {
                    r.viol(format!("read_file returns another archive's version than the highest-priority holder{tag}"), format!("{ctx}: {n}: got {:?}, acceptable winners {:?}", String::from_utf8_lossy(&b), w));
                }
            }
            (false, Err(e)) => r.viol(format!("read_file fails for a name held by an archive in the chain{tag}"), format!("{ctx}: {n}: {e}; winners {w:?}")),
        }
        let has = chain.contains_file(n);
        if has != !w.is_empty() {
            r.viol(format!("contains_file disagrees with the model{tag}"), format!("{ctx}: {n}: {has}"));
        }
        match chain.find_file_archive(n) {
            Some(p) => {
                if !w.iter().any(|a| paths[*a] == p) {
                    r.viol(format!("find_file_archive names another archive than the highest-priority holder{tag}"), format!("{ctx}: {n}: {}", p.display()));
                }
            }
            None => {
                if !w.is_empty() {
                    r.viol(format!("find_file_archive finds nothing for a held name{tag}"), format!("{ctx}: {n}"));
                }
            }
        }
    }
    // listing: union of names of archives that carry a listfile must be present; nothing else
    // except anonymous entries of the listfile-less archive
    match chain.list() {
        Ok(l) => {
            let got: BTreeSet<String> = l.iter().map(|e| mpqx::fold(&e.name)).filter(|n| !n.starts_with('(')).collect();
            let mut want = BTreeSet::new();
            for (f, hs) in &hb {
                if st.iter().any(|e| e.arch != 3 && hs.contains(&e.arch)) {
                    want.insert(f.clone());
                }
            }
            for m in want.difference(&got) {
                r.viol("list() omits a name held by an archive with a listfile", format!("{ctx}: {m}"));
            }
            for x in got.difference(&want) {
                let anon = x.starts_with("FILE") && x.ends_with(".DAT") || x.starts_with("FILE_");
                let from3 = st.iter().any(|e| e.arch == 3) && hb.get(x).map(|h| h.contains(&3)).unwrap_or(false);
                if !anon && !from3 {
                    r.viol("list() reports a name no archive in the chain holds", format!("{ctx}: {x}"));
                }
            }
        }
        Err(e) => r.viol("list() fails", format!("{ctx}: {e}")),
    }
}
impl Space for ChainSpace {
    fn len(&self) -> u64 {
        self.events.len() as u64
    }
    fn describe(&self, i: u64) -> Value {
        let (s, e) = &self.events[i as usize];
        json!({"history": self.states[*s].1.iter().map(ev_str).collect::<Vec<_>>(), "event": ev_str(e), "model_before": self.states[*s].0.iter().map(|e| format!("a{}@{}", e.arch, e.prio)).collect::<Vec<_>>()})
    }
    fn run(&self, i: u64) -> CaseResult {
        let (s, ev) = &self.events[i as usize];
        let (st, hist) = &self.states[*s];
        let mut r = CaseResult::new();
        r.nontrivial = true;
        r.key = format!("{:?}|{}", st, ev_str(ev));
        let _ = &self.dir;
        let mut chain = PatchChain::new();
        for h in hist {
            if let Err(e) = apply_real(&mut chain, h, &self.paths) {
                r.viol("an operation on valid archives fails while replaying the history", format!("{}: {e}", ev_str(h)));
                return r;
            }
        }
        let ctx = format!("history={:?} event={}", hist.iter().map(ev_str).collect::<Vec<_>>(), ev_str(ev));
        match apply_real(&mut chain, ev, &self.paths) {
            Ok(()) => {}
            Err(e) => {
                // set_priority / remove on an absent archive may report an error; the chain must be unchanged then
                let absent = match ev {
                    Ev::SetPrio(a, _) | Ev::Remove(a) => !st.iter().any(|x| x.arch == *a),
                    _ => false,
                };
                if !absent {
                    r.viol("an operation on valid archives fails", format!("{ctx}: {e}"));
                    return r;
                }
                judge_chain(&mut chain, st, &self.paths, &mut r, &ctx);
                r.outcome = "err-absent".into();
                r.count("transitions", 1);
                return r;
            }
        }
        let next = model_step(st, ev);
        judge_chain(&mut chain, &next, &self.paths, &mut r, &ctx);
        r.count("transitions", 1);
        r.outcome = format!("len{}", next.len());
        if r.viols.is_empty() {
            let mut h2: Vec<Value> = hist.iter().map(ev_json).collect();
            h2.push(ev_json(ev));
            r.payload = Some(json!({"state": next.iter().map(|e| json!([e.arch, e.prio, e.seq])).collect::<Vec<_>>(), "history": h2}));
        }
        r
    }
}

// ---------------------------------------------------------------- patch application

struct PatchSpace {
    cases: Vec<PCase>,
    dir: Scratch,
}
#[derive(Clone)]
struct PCase {
    label: String,
    base: Vec<u8>,
    entry: Vec<u8>,         // stored bytes of the patch entry (TPatchInfo + PTCH)
    declared_after: [u8; 16], // md5 the (possibly mutated) PTCH header declares
    expect: Option<Vec<u8>>, // reference result for the well-formed ones
    well_formed: bool,
}
fn bases() -> Vec<Vec<u8>> {
    vec![vec![], vec![0x5A], (0..16u8).collect(), gen::content("period251", 300, 512, 9)]
}
fn patch_cases(tier: Tier) -> Vec<PCase> {
    let mut out = vec![];
    let news: Vec<Vec<u8>> = vec![vec![], b"N".to_vec(), gen::content("period2", 40, 512, 2)];
    let mut seeds: Vec<(String, Vec<u8>, Vec<u8>, Option<Vec<u8>>)> = vec![]; // (label, base, ptch, expected)
    for (bi, base) in bases().iter().enumerate() {
        for (ni, new) in news.iter().enumerate() {
            seeds.push((format!("COPY base#{bi} new#{ni}"), base.clone(), ptch::copy_patch(base, new), Some(new.clone())));
        }
        // BSD0: all control programs of <= 2 triples over small values
        let vals: Vec<u32> = vec![0, 1, 3, base.len() as u32, base.len() as u32 + 1, 0x8000_0001];
        let lens: Vec<u32> = vec![0, 1, 3, base.len() as u32];
        let mut progs: Vec<Vec<Ctrl>> = vec![vec![]];
        for &a in &lens {
            for &m in &[0u32, 1, 3] {
                for &s in &vals {
                    progs.push(vec![Ctrl { add: a, mov: m, seek: s }]);
                }
            }
        }
        if tier == Tier::Thorough {
            for &a in &[0u32, 1, 3] {
                for &m in &[0u32, 1] {
                    for &s in &[0u32, 1, 0x8000_0001] {
                        for &a2 in &[0u32, 1, base.len() as u32] {
                            for &m2 in &[0u32, 3] {
                                progs.push(vec![Ctrl { add: a, mov: m, seek: s }, Ctrl { add: a2, mov: m2, seek: 0 }]);
                            }
                        }
                    }
                }
            }
        } else {
            progs.push(vec![Ctrl { add: 1, mov: 1, seek: 1 }, Ctrl { add: 1, mov: 3, seek: 0 }]);
            progs.push(vec![Ctrl { add: 3, mov: 0, seek: 0x8000_0001 }, Ctrl { add: 1, mov: 0, seek: 0 }]);
        }
        for (pi, prog) in progs.iter().enumerate() {
            let dlen: usize = prog.iter().map(|c| c.add as usize).sum();
            let elen: usize = prog.iter().map(|c| c.mov as usize).sum();
            let data: Vec<u8> = (0..dlen).map(|i| (i * 7 + 1) as u8).collect();
            let extra: Vec<u8> = (0..elen).map(|i| 0xE0 | (i as u8 & 0xF)).collect();
            let new_size = dlen + elen;
            if let Some(new) = ptch::bsdiff_apply(base, prog, &data, &extra, new_size) {
                seeds.push((format!("BSD0 base#{bi} prog#{pi} {:?}", prog.iter().map(|c| (c.add, c.mov, c.seek)).collect::<Vec<_>>()), base.clone(), ptch::bsd0_patch(base, &new, prog, &data, &extra), Some(new)));
            }
        }
    }
    let declared = |p: &[u8]| -> [u8; 16] {
        let mut d = [0u8; 16];
        if p.len() >= 56 {
            d.copy_from_slice(&p[40..56]);
        }
        d
    };
    for (label, base, p, exp) in &seeds {
        out.push(PCase { label: format!("{label} well-formed"), base: base.clone(), entry: ptch::patch_entry(p), declared_after: declared(p), expect: exp.clone(), well_formed: true });
    }
    // mutations: every 32-bit field of TPatchInfo and of the PTCH header x boundary values; every payload byte x {^01, ^80}
    let stride = tier.pick(5, 1);
    for (si, (label, base, p, _)) in seeds.iter().enumerate() {
        if si % stride != 0 && !label.contains("prog#1 ") && !label.starts_with("COPY base#2 new#2") {
            continue;
        }
        let entry = ptch::patch_entry(p);
        let nfields = (28 + 64) / 4;
        for f in 0..nfields {
            let off = f * 4;
            if off + 4 > entry.len() {
                break;
            }
            let cur = u32::from_le_bytes(entry[off..off + 4].try_into().unwrap());
            for v in [0u32, 1, 0x7FFF_FFFF, 0x8000_0000, 0xFFFF_FFFF, cur.wrapping_add(1), cur.wrapping_sub(1), entry.len() as u32] {
                if v == cur {
                    continue;
                }
                let mut e = entry.clone();
                e[off..off + 4].copy_from_slice(&v.to_le_bytes());
                let inner = &e[28..];
                out.push(PCase { label: format!("{label} field@{off}={v:#x}"), base: base.clone(), entry: e.clone(), declared_after: declared(inner), expect: None, well_formed: false });
            }
        }
        // whole digest fields blanked (a 16-byte field cannot be reached by the per-dword mutations): a reader that
        // takes an all-zero digest for "no digest" would return unverified bytes
        for (what, range) in [("md5_before", 28 + 24..28 + 40), ("md5_after", 28 + 40..28 + 56)] {
            for fill in [0x00u8, 0xFF] {
                if range.end <= entry.len() {
                    let mut e = entry.clone();
                    for b in &mut e[range.clone()] {
                        *b = fill;
                    }
                    let inner = &e[28..];
                    out.push(PCase { label: format!("{label} {what}=all-{fill:#04x}"), base: base.clone(), entry: e.clone(), declared_after: declared(inner), expect: None, well_formed: false });
                }
            }
        }
        for pos in (28 + 64)..entry.len() {
            for x in [0x01u8, 0x80] {
                let mut e = entry.clone();
                e[pos] ^= x;
                let inner = &e[28..];
                out.push(PCase { label: format!("{label} payload@{pos}^{x:#x}"), base: base.clone(), entry: e.clone(), declared_after: declared(inner), expect: None, well_formed: false });
            }
        }
    }
    out
}
impl Space for PatchSpace {
    fn len(&self) -> u64 {
        self.cases.len() as u64
    }
    fn describe(&self, i: u64) -> Value {
        let c = &self.cases[i as usize];
        json!({"patch": c.label, "base_len": c.base.len(), "entry_len": c.entry.len()})
    }
    fn run(&self, i: u64) -> CaseResult {
        let c = &self.cases[i as usize];
        let mut r = CaseResult::new();
        r.nontrivial = true;
        r.key = c.label.clone();
        let name = "patched\\file.bin";
        let base_path = self.dir.path(&format!("base{i}.mpq"));
        let patch_path = self.dir.path(&format!("patch{i}.mpq"));
        let bw = mpqref::write(&[WFile { method: mpqref::M_ZLIB, ..WFile::plain(name, &c.base) }], &WOptions::default()).unwrap();
        std::fs::write(&base_path, bw).unwrap();
        let mut pf = WFile::plain(name, &c.entry);
        pf.raw_flags = mpqref::F_PATCH | mpqref::F_SINGLE;
        let pw = mpqref::write(&[pf], &WOptions::default()).unwrap();
        std::fs::write(&patch_path, pw).unwrap();
        let base_line = vcore::alloc::reset();
        let res = guarded(|| -> Result<Vec<u8>, String> {
            let mut chain = PatchChain::new();
            chain.add_archive(&base_path, 0).map_err(|e| format!("add base: {e}"))?;
            chain.add_archive(&patch_path, 10).map_err(|e| format!("add patch: {e}"))?;
            chain.read_file(name).map_err(|e| e.to_string())
        });
        let (peak, largest) = vcore::alloc::read(base_line);
        let limit = (256usize << 20) + 4096 * (c.entry.len() + c.base.len());
        if largest > limit || peak > limit {
            r.viol("reading a patch entry requests memory out of proportion to the input", format!("{}: largest request {} bytes, peak {} bytes, input {} bytes", c.label, largest, peak, c.entry.len()));
        }
        match res {
            Err((file, line, msg)) => r.viol(panic_class(&file, &msg), format!("{}: panic at {file}:{line}: {msg}", c.label)),
            Ok(Ok(b)) => {
                r.outcome = "ok".into();
                if ptch::md5(&b) != c.declared_after {
                    r.viol("chain returns bytes that do not match the digest the patch declares", format!("{}: {} bytes", c.label, b.len()));
                }
                if let Some(exp) = &c.expect {
                    if &b != exp {
                        r.viol("chain returns bytes other than the base with the patch applied", format!("{}: got {} want {}", c.label, b.len(), exp.len()));
                    }
                }
            }
            Ok(Err(_)) => {
                r.outcome = "err".into();
                if c.well_formed {
                    r.count("well_formed_refused", 1);
                } else {
                    r.count("mutated_refused", 1);
                }
                r.err_return = c.well_formed;
            }
        }
        let _ = std::fs::remove_file(&base_path);
        let _ = std::fs::remove_file(&patch_path);
        r
    }
}

/// Stacks of patches: the versions v0 (full file) -> v1 -> ... -> vk, one archive per step with rising
/// priority; every step is a COPY patch, a BSD0 patch (one add-everything control triple) or a full
/// replacement file. Variants: well-formed; one patch made against the wrong predecessor (its declared
/// before-digest does not match what it is applied to). Oracle: Ok(bytes) must be the version the topmost
/// patch declares (bit-identical to vk for a well-formed stack); an error is a refusal; never other bytes.
struct PatchSeq {
    cases: Vec<(Vec<usize>, Vec<u8>, Option<usize>)>, // version indices v0..vk, step kinds (0 copy, 1 bsd0, 2 full), wrong-base step
    dir: Scratch,
}
fn seq_versions() -> Vec<Vec<u8>> {
    vec![gen::content("period251", 300, 512, 9), b"N".to_vec(), gen::content("period2", 40, 512, 2), vec![], (0..16u8).collect()]
}
impl PatchSeq {
    fn new(tier: Tier) -> PatchSeq {
        let nv = seq_versions().len();
        let mut cases = vec![];
        let depth = tier.pick(2usize, 3);
        // every sequence of distinct-neighbour versions of length 2..=depth+1, every kind vector whose last step is a patch
        fn rec(cur: &mut Vec<usize>, nv: usize, maxlen: usize, out: &mut Vec<Vec<usize>>) {
            if cur.len() >= 3 {
                out.push(cur.clone());
            }
            if cur.len() == maxlen {
                return;
            }
            for v in 0..nv {
                if cur.last() != Some(&v) {
                    cur.push(v);
                    rec(cur, nv, maxlen, out);
                    cur.pop();
                }
            }
        }
        let mut seqs = vec![];
        rec(&mut vec![], nv, depth + 1, &mut seqs);
        for vs in seqs {
            let k = vs.len() - 1;
            for code in 0..3u32.pow(k as u32) {
                let kinds: Vec<u8> = (0..k).map(|j| ((code / 3u32.pow(j as u32)) % 3) as u8).collect();
                if *kinds.last().unwrap() == 2 || kinds.iter().all(|&x| x == 2) {
                    continue; // the winning entry must be a patch
                }
                cases.push((vs.clone(), kinds.clone(), None));
                for w in 0..k {
                    if kinds[w] != 2 {
                        cases.push((vs.clone(), kinds.clone(), Some(w)));
                    }
                }
            }
        }
        PatchSeq { cases, dir: Scratch::new("c08q") }
    }
}
impl Space for PatchSeq {
    fn len(&self) -> u64 {
        self.cases.len() as u64
    }
    fn describe(&self, i: u64) -> Value {
        let c = &self.cases[i as usize];
        json!({"patch_stack": format!("versions {:?}", c.0), "steps": c.1.iter().map(|k| ["copy", "bsd0", "full file"][*k as usize]).collect::<Vec<_>>(), "patch_made_against_wrong_predecessor": c.2})
    }
    fn run(&self, i: u64) -> CaseResult {
        let c = &self.cases[i as usize];
        let vers = seq_versions();
        let mut r = CaseResult::new();
        r.nontrivial = true;
        r.key = format!("seq{i}");
        let name = "patched\\file.bin";
        let mut paths = vec![];
        let p0 = self.dir.path(&format!("s{i}-0.mpq"));
        std::fs::write(&p0, mpqref::write(&[WFile { method: mpqref::M_ZLIB, ..WFile::plain(name, &vers[c.0[0]]) }], &WOptions::default()).unwrap()).unwrap();
        paths.push(p0);
        let mut declared_top = [0u8; 16];
        for (j, &kind) in c.1.iter().enumerate() {
            let prev = &vers[c.0[j]];
            let next = &vers[c.0[j + 1]];
            // a patch made against the wrong predecessor: its before-side is another version
            let made_against: &Vec<u8> = if c.2 == Some(j) { &vers[(c.0[j] + 1) % vers.len()] } else { prev };
            let pj = self.dir.path(&format!("s{i}-{}.mpq", j + 1));
            let wf = match kind {
                2 => WFile { method: mpqref::M_ZLIB, ..WFile::plain(name, next) },
                _ => {
                    let ptch = if kind == 0 {
                        ptch::copy_patch(made_against, next)
                    } else {
                        // one control triple: add nothing from the old file, take everything from the extra block
                        let prog = vec![Ctrl { add: 0, mov: next.len() as u32, seek: 0 }];
                        ptch::bsd0_patch(made_against, next, &prog, &[], next)
                    };
                    if j + 1 == c.1.len() && ptch.len() >= 56 {
                        declared_top.copy_from_slice(&ptch[40..56]);
                    }
                    let mut pf = WFile::plain(name, &ptch::patch_entry(&ptch));
                    pf.raw_flags = mpqref::F_PATCH | mpqref::F_SINGLE;
                    pf
                }
            };
            std::fs::write(&pj, mpqref::write(&[wf], &WOptions::default()).unwrap()).unwrap();
            paths.push(pj);
        }
        let res = guarded(|| -> Result<Vec<u8>, String> {
            let mut chain = PatchChain::new();
            for (j, p) in paths.iter().enumerate() {
                chain.add_archive(p, 10 * j as i32).map_err(|e| format!("add {j}: {e}"))?;
            }
            chain.read_file(name).map_err(|e| e.to_string())
        });
        let want = &vers[*c.0.last().unwrap()];
        match res {
            Err((file, line, msg)) => r.viol(panic_class(&file, &msg), format!("panic at {file}:{line}: {msg}")),
            Ok(Ok(b)) => {
                r.outcome = "ok".into();
                if ptch::md5(&b) != declared_top {
                    r.viol("patch stack: chain returns bytes that do not match the digest the winning patch declares", format!("{} bytes, wanted version of {} bytes", b.len(), want.len()));
                } else if &b != want {
                    r.viol("patch stack: chain returns bytes other than the newest version", format!("{} bytes, wanted {}", b.len(), want.len()));
                }
            }
            Ok(Err(_)) => {
                r.outcome = "err".into();
                if c.2.is_none() {
                    r.count("well_formed_stack_refused", 1);
                    r.err_return = true;
                } else {
                    r.count("wrong_predecessor_refused", 1);
                }
            }
        }
        for p in paths {
            let _ = std::fs::remove_file(p);
        }
        r
    }
}

fn build(name: &str, arg: &str, tier: Tier) -> Box<dyn Space> {
    match name {
        "patchseq" => Box::new(PatchSeq::new(tier)),
        "chain" => Box::new(ChainSpace::load(arg, tier)),
        "patch" => Box::new(PatchSpace { cases: patch_cases(tier), dir: Scratch::new("c08p") }),
        _ => panic!("space {name}"),
    }
}

fn main() {
    let Mode::Supervisor(mut c) = start("C08", "model_checking", build) else { return };
    let scratch = Scratch::new("c08sup");
    let mut seen: HashSet<MState> = HashSet::new();
    let mut frontier: Vec<(MState, Vec<Value>)> = vec![(vec![], vec![])];
    seen.insert(vec![]);
    let max_depth = c.tier.pick(10, 16);
    let mut depth = 0;
    let mut samples = vec![];
    while !frontier.is_empty() && depth < max_depth {
        let f = scratch.path(&format!("frontier{depth}.json"));
        let v = json!({"states": frontier.iter().map(|(s, h)| json!({"state": s.iter().map(|e| json!([e.arch, e.prio, e.seq])).collect::<Vec<_>>(), "history": h})).collect::<Vec<_>>()});
        std::fs::write(&f, v.to_string()).unwrap();
        let payloads = c.run_space("chain", &f.to_string_lossy());
        let mut next = vec![];
        for (_, p) in payloads {
            let st: MState = p["state"].as_array().unwrap().iter().map(|e| Ent { arch: e[0].as_u64().unwrap() as usize, prio: e[1].as_i64().unwrap() as i32, seq: e[2].as_u64().unwrap() as usize }).collect();
            if seen.insert(st.clone()) {
                let h: Vec<Value> = p["history"].as_array().unwrap().clone();
                if samples.len() < 5 {
                    samples.push(json!({"history": h.clone(), "model": st.iter().map(|e| format!("a{}@{} seq{}", e.arch, e.prio, e.seq)).collect::<Vec<_>>() }));
                }
                next.push((st, h));
            }
        }
        depth += 1;
        eprintln!("C08 chain depth {depth}: {} new states (total {})", next.len(), seen.len());
        frontier = next;
    }
    let closed = frontier.is_empty();
    if !closed {
        c.agg.complete = false;
    }
    c.run_space("patch", "");
    c.run_space("patchseq", "");
    c.agg.samples.extend(samples);
    let transitions = c.agg.counters.get("transitions").copied().unwrap_or(0);
    c.extra_cov.insert("states".into(), json!(seen.len()));
    c.extra_cov.insert("traces_validated_against_impl".into(), json!(transitions));
    c.extra_cov.insert("state_space_closed".into(), json!(closed));
    c.extra_cov.insert("max_depth".into(), json!(depth));
    c.rule = "chain: state = ordered list of (archive, priority, original insertion rank) over 4 archives x priorities {-5,0,7}; every enabled event (add, remove incl. absent, set_priority, clear, add_archives_parallel pairs, from_archives_parallel constructors) from every reachable state is executed on a real PatchChain rebuilt by replaying a history, then every pool name is looked up (read_file, contains_file, find_file_archive, list) against the model; explored to closure. patch: every COPY/BSD0 patch from the independent encoder (all control programs of <=2 triples over boundary values) x base files, well-formed and with every header field / payload byte altered, read through a real base+patch chain. patchseq: every stack of 2 (thorough: up to 3) steps over 5 file versions, each step a COPY patch, a BSD0 patch or a full replacement file (winning entry always a patch), well-formed and with each patch in turn made against the wrong predecessor; Ok(bytes) must carry the digest the winning patch declares and, for a well-formed stack, be the newest version. Non-trivial = every executed transition / patch; distinct by (state,event) or patch label.".into();
    c.assume("ties: earliest added wins; when set_priority moves an archive onto an existing priority both readings (original insertion order, library list order) are accepted");
    c.assume("archives are built by the real ArchiveBuilder (C01); patch archives by the independent mpqref writer and ptch encoder");
    c.assume("a patch read returning Err is always acceptable; Ok must match the declared digest (and the reference application for well-formed patches)");
    c.finish();
}
