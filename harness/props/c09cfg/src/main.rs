//! C09 (configuration clause) — exhaustive sweep of thread counts x batch sizes x request-list
//! lengths x skip_errors x missing-name positions on the REAL rayon, each compared slot by slot
//! with sequential reads.  The scheduler is uncontrolled here: this decides the configuration
//! clause; the schedule clause is decided by the loom harness in /verif/harness-sched.
use refimpl::mpqref::{self, WFile, WOptions};
use serde_json::{json, Value};
use std::path::PathBuf;
use vcore::*;
use wow_mpq::single_archive_parallel::{extract_with_config, ParallelArchive, ParallelConfig};
use wow_mpq::Archive;

const THREADS_ALL: [usize; 7] = [1, 2, 3, 4, 8, 16, 32];
const LENS_ALL: [usize; 9] = [0, 1, 9, 10, 11, 999, 1000, 1001, 1100];
// space big: request lists around the second size threshold of extract_with_config (5000 names)
const THREADS_BIG: [usize; 3] = [1, 4, 32];
const LENS_BIG: [usize; 4] = [4999, 5000, 5001, 6200];
const MISS: [&str; 4] = ["none", "first", "middle", "last"];

struct Sweep {
    threads: Vec<usize>,
    lens: Vec<usize>,
    dir: Scratch,
    arch: PathBuf,
    batches: Vec<usize>,
    radices: Vec<u64>,
    reps: usize,
}
impl Sweep {
    fn new(tier: Tier, big: bool) -> Self {
        let (threads, lens) = if big { (THREADS_BIG.to_vec(), LENS_BIG.to_vec()) } else { (THREADS_ALL.to_vec(), LENS_ALL.to_vec()) };
        let dir = Scratch::new(if big { "c09big" } else { "c09cfg" });
        let mut files = vec![];
        for i in 0..1100 {
            files.push(WFile { method: if i % 3 == 0 { mpqref::M_ZLIB } else { 0 }, ..WFile::plain(&format!("d{}\\f{i:04}.bin", i % 7), &vec![(i % 251) as u8; 1 + (i % 40) * 3]) });
        }
        let arch = dir.path("sweep.mpq");
        std::fs::write(&arch, mpqref::write(&files, &WOptions { hash_size: 4096, ..WOptions::default() }).unwrap()).unwrap();
        let batches = if big { vec![10, 334, 0] } else { vec![1, 2, 7, 10, 0] }; // 0 = N (whole list)
        let radices = vec![threads.len() as u64, batches.len() as u64, lens.len() as u64, 2, MISS.len() as u64];
        Sweep { threads, lens, dir, arch, batches, radices, reps: tier.pick(1, 3) }
    }
}
fn name(i: usize) -> String {
    format!("d{}\\f{i:04}.bin", i % 7)
}
impl Space for Sweep {
    fn len(&self) -> u64 {
        gen::product(&self.radices)
    }
    fn describe(&self, i: u64) -> Value {
        let d = gen::mixed_radix(i, &self.radices);
        json!({"threads": self.threads[d[0] as usize], "batch": self.batches[d[1] as usize], "list_len": self.lens[d[2] as usize], "skip_errors": d[3] == 1, "missing": MISS[d[4] as usize]})
    }
    fn case_timeout(&self) -> u64 {
        300
    }
    fn run(&self, i: u64) -> CaseResult {
        let d = gen::mixed_radix(i, &self.radices);
        let (threads, len, skip, miss) = (self.threads[d[0] as usize], self.lens[d[2] as usize], d[3] == 1, MISS[d[4] as usize]);
        let batch = if self.batches[d[1] as usize] == 0 { len.max(1) } else { self.batches[d[1] as usize] };
        let mut r = CaseResult::new();
        r.key = format!("{i}");
        let _ = &self.dir;
        // includes duplicates for len > 1100/13; every fifth request spells its name in upper case with forward
        // slashes (a sequential read resolves every ASCII-case / slash spelling)
        let mut req: Vec<String> = (0..len).map(|k| if k % 5 == 2 { name((k * 13) % 1100).to_ascii_uppercase().replace('\\', "/") } else { name((k * 13) % 1100) }).collect();
        if len > 0 {
            let pos = match miss {
                "first" => Some(0),
                "middle" => Some(len / 2),
                "last" => Some(len - 1),
                _ => None,
            };
            if let Some(p) = pos {
                req[p] = "no\\such\\file.bin".into();
            }
        } else if miss != "none" {
            r.outcome = "skip".into();
            return r; // not a distinct configuration
        }
        r.nontrivial = len > 0;
        let mut a = Archive::open(&self.arch).unwrap();
        let reference: Vec<Result<Vec<u8>, ()>> = req.iter().map(|n| a.read_file(n).map_err(|_| ())).collect();
        let any_fail = reference.iter().any(|x| x.is_err());
        let names: Vec<&str> = req.iter().map(|s| s.as_str()).collect();
        for rep in 0..self.reps {
            let cfg = ParallelConfig::new().threads(threads).batch_size(batch).skip_errors(skip);
            match extract_with_config(&self.arch, &names, cfg) {
                Ok(slots) => {
                    r.outcome = "ok".into();
                    if !skip && any_fail {
                        r.viol("extract_with_config without skip_errors returns Ok although a requested name fails", format!("rep {rep}"));
                    }
                    if slots.len() != req.len() {
                        r.viol("extract_with_config returns a different number of slots than requested names", format!("{} vs {}", slots.len(), req.len()));
                    }
                    for (k, (n, res)) in slots.iter().enumerate().take(req.len()) {
                        if n != &req[k] {
                            r.viol("extract_with_config slot carries another name than the request at that position", format!("slot {k}: {n} vs {}", req[k]));
                            break;
                        }
                        let same = match (res, &reference[k]) {
                            (Ok(a), Ok(b)) => a == b,
                            (Err(_), Err(_)) => true,
                            _ => false,
                        };
                        if !same {
                            r.viol("extract_with_config slot differs from a sequential read of that name", format!("slot {k} {n}"));
                            break;
                        }
                    }
                }
                Err(e) => {
                    r.outcome = "err".into();
                    if skip || !any_fail {
                        r.viol("extract_with_config fails as a whole although no name fails / skip_errors is on", format!("{e}"));
                    }
                }
            }
            if !r.viols.is_empty() {
                break;
            }
        }
        // the other single-archive helpers on the same request (no missing names: they are all-or-nothing)
        if !any_fail && len > 0 && len <= 1001 && d[3] == 0 {
            let pa = ParallelArchive::open(&self.arch).unwrap();
            let want: Vec<(String, Vec<u8>)> = req.iter().cloned().zip(reference.iter().map(|x| x.clone().unwrap())).collect();
            match pa.extract_files_parallel(&names) {
                Ok(v) if v == want => {}
                Ok(_) => r.viol("parallel extraction result differs from sequential reads in request order", "extract_files_parallel".to_string()),
                Err(e) => r.viol("parallel extraction fails although every requested name reads sequentially", format!("extract_files_parallel: {e}")),
            }
            match pa.extract_files_batched(&names, batch) {
                Ok(v) if v == want => {}
                Ok(_) => r.viol("parallel extraction result differs from sequential reads in request order", format!("extract_files_batched batch={batch}")),
                Err(e) => r.viol("parallel extraction fails although every requested name reads sequentially", format!("extract_files_batched: {e}")),
            }
        }
        r
    }
}
// ---------------------------------------------------------------- histories over two archives
/// Every sequence of 1..3 extractions over two archives that hold the SAME names with different
/// contents, per entry point and pool kind, inside one process: what a call returns must depend on
/// the archive it is given only, never on which archive the same pool / thread served before.
struct Seq {
    dir: Scratch,
    archs: [PathBuf; 2],
    cases: Vec<(usize, usize, Vec<usize>)>, // entry point, pool kind, archive sequence
}
const ENTRY: [&str; 8] = ["extract_files_parallel", "extract_files_batched", "process_files_parallel", "extract_matching_parallel", "read_file_with_new_handle", "extract_with_config", "extract_with_config(skip_errors)", "extract_with_config(1200 names: batched path, explicit thread count)"];
const POOLS: [usize; 5] = [0, 1, 2, 4, 8]; // 0 = the global pool (caller thread outside any pool)
fn seq_names() -> Vec<String> {
    (0..24).map(|i| format!("dir{}\\file_{i:02}.dat", i % 3)).collect()
}
/// the request list of an entry point (entry 7 cycles through the names up to 1200 requests)
fn seq_request(e: usize) -> Vec<String> {
    let names = seq_names();
    if e == 7 {
        (0..1200).map(|k| names[(k * 7) % names.len()].clone()).collect()
    } else {
        names
    }
}
fn seq_content(a: usize, i: usize) -> Vec<u8> {
    format!("[archive {a}] content of file {i} {}", "y".repeat(i * 5 + a)).into_bytes()
}
impl Seq {
    fn new(tier: Tier) -> Self {
        let dir = Scratch::new("c09seq");
        let names = seq_names();
        let mk = |a: usize| -> PathBuf {
            let files: Vec<WFile> = names.iter().enumerate().map(|(i, n)| WFile { method: if i % 2 == 0 { mpqref::M_ZLIB } else { 0 }, ..WFile::plain(n, &seq_content(a, i)) }).collect();
            let p = dir.path(&format!("seq{a}.mpq"));
            std::fs::write(&p, mpqref::write(&files, &WOptions { hash_size: 64, ..WOptions::default() }).unwrap()).unwrap();
            p
        };
        let archs = [mk(0), mk(1)];
        let mut seqs: Vec<Vec<usize>> = vec![];
        let maxlen = tier.pick(3, 4);
        fn rec(cur: &mut Vec<usize>, maxlen: usize, out: &mut Vec<Vec<usize>>) {
            if !cur.is_empty() {
                out.push(cur.clone());
            }
            if cur.len() == maxlen {
                return;
            }
            for a in 0..2 {
                cur.push(a);
                rec(cur, maxlen, out);
                cur.pop();
            }
        }
        rec(&mut vec![], maxlen, &mut seqs);
        let mut cases = vec![];
        for e in 0..ENTRY.len() {
            for p in 0..POOLS.len() {
                for s in &seqs {
                    cases.push((e, p, s.clone()));
                }
            }
        }
        Seq { dir, archs, cases }
    }
    fn one_call(&self, e: usize, a: usize) -> Result<Vec<(String, Vec<u8>)>, String> {
        let names = seq_request(e);
        let refs: Vec<&str> = names.iter().map(|s| s.as_str()).collect();
        let path = &self.archs[a];
        let pa = ParallelArchive::open(path).map_err(|e| e.to_string())?;
        match e {
            0 => pa.extract_files_parallel(&refs).map_err(|e| e.to_string()),
            1 => pa.extract_files_batched(&refs, 5).map_err(|e| e.to_string()),
            2 => pa.process_files_parallel(&refs, |n, d| Ok((n.to_string(), d))).map_err(|e| e.to_string()),
            3 => pa.extract_matching_parallel(|n| n.contains("file_")).map_err(|e| e.to_string()),
            4 => refs.iter().map(|n| pa.read_file_with_new_handle(n).map(|d| (n.to_string(), d)).map_err(|e| e.to_string())).collect(),
            7 => {
                let cfg = ParallelConfig::new().threads(3).batch_size(100);
                extract_with_config(path, &refs, cfg).map_err(|e| e.to_string())?.into_iter().map(|(n, r)| r.map(|d| (n, d)).map_err(|e| e.to_string())).collect()
            }
            _ => {
                let cfg = ParallelConfig::new().threads(2).batch_size(5).skip_errors(e == 6);
                extract_with_config(path, &refs, cfg).map_err(|e| e.to_string())?.into_iter().map(|(n, r)| r.map(|d| (n, d)).map_err(|e| e.to_string())).collect()
            }
        }
    }
}
impl Space for Seq {
    fn len(&self) -> u64 {
        self.cases.len() as u64
    }
    fn describe(&self, i: u64) -> Value {
        let (e, p, s) = &self.cases[i as usize];
        json!({"entry": ENTRY[*e], "pool": if POOLS[*p] == 0 { "global".to_string() } else { format!("installed, {} threads", POOLS[*p]) }, "archive_sequence": s})
    }
    fn run(&self, i: u64) -> CaseResult {
        let (e, p, s) = self.cases[i as usize].clone();
        let mut r = CaseResult::new();
        r.nontrivial = true;
        r.key = format!("{i}");
        let _ = &self.dir;
        let names = seq_request(e);
        let body = || -> Vec<(usize, Result<Vec<(String, Vec<u8>)>, String>)> { s.iter().map(|a| (*a, self.one_call(e, *a))).collect() };
        let results = if POOLS[p] == 0 { body() } else { rayon::ThreadPoolBuilder::new().num_threads(POOLS[p]).build().unwrap().install(body) };
        for (step, (a, got)) in results.iter().enumerate() {
            // sequential reference from the archive this call was given
            let mut ar = Archive::open(&self.archs[*a]).unwrap();
            let mut want: Vec<(String, Vec<u8>)> = names.iter().map(|n| (n.clone(), ar.read_file(n).unwrap())).collect();
            if e != 7 {
                for (i, w) in want.iter().enumerate() {
                    assert_eq!(w.1, seq_content(*a, i), "reference read");
                }
            }
            match got {
                Ok(v) => {
                    let mut v = v.clone();
                    if e == 3 {
                        // list order is the archive's own; compare as sets of (name, bytes)
                        v.sort();
                        want.sort();
                    }
                    if v != want {
                        let bad = v.iter().zip(want.iter()).position(|(x, y)| x != y).unwrap_or(0);
                        r.viol(
                            "a parallel extraction returns bytes of another archive than the one it was given (or not the sequential read)",
                            format!("{} step {step} of sequence {s:?}: slot {bad}: got {:?}, sequential read gives {:?}", ENTRY[e], v.get(bad).map(|x| String::from_utf8_lossy(&x.1).chars().take(40).collect::<String>()), want.get(bad).map(|x| String::from_utf8_lossy(&x.1).chars().take(40).collect::<String>())),
                        );
                        break;
                    }
                }
                Err(err) => {
                    r.viol("a parallel extraction fails although every requested name reads sequentially", format!("{} step {step} of sequence {s:?}: {err}", ENTRY[e]));
                    break;
                }
            }
        }
        r.outcome = "ok".into();
        r
    }
}
fn build(name: &str, _arg: &str, tier: Tier) -> Box<dyn Space> {
    match name {
        // one fresh process per case: the subject's pools and thread-locals are process-global state
        "sweep" => Box::new(Forked(Sweep::new(tier, false))),
        "big" => Box::new(Forked(Sweep::new(tier, true))),
        "seq" => Box::new(Forked(Seq::new(tier))),
        _ => panic!("space {name}"),
    }
}
fn main() {
    let Mode::Supervisor(mut c) = start("C09", "model_checking", build) else { return };
    // each case spawns its own pools of up to 32 threads: run fewer worker processes
    c.jobs = c.jobs.min(6);
    c.rule = "full product threads {1,2,3,4,8,16,32} x batch {1,2,7,10,N} x list length {0,1,9,10,11,999,1000,1001,1100} x skip_errors x missing position {none,first,middle,last} on the real rayon; slot-by-slot comparison with sequential reads (uncontrolled scheduler: decides the configuration clause only); space big: threads {1,4,32} x batch {10,334,N} x list length {4999,5000,5001,6200} (around the 5000-name threshold of extract_with_config) x skip_errors x missing position, unsorted request lists with duplicates; space seq: every sequence of 1..3 (thorough 1..4) extractions over two archives holding the same names with different contents x 8 entry points (one of them a 1200-name request on the batched path with an explicit thread count) x {global pool, installed pools of 1/2/4/8 threads} inside one process, each call compared with sequential reads of the archive it was given".into();
    c.run_space("sweep", "");
    c.run_space("seq", "");
    c.run_space("big", "");
    c.extra_cov.insert("states".into(), json!(1));
    c.extra_cov.insert("transitions".into(), json!(1));
    c.extra_cov.insert("traces_validated_against_impl".into(), json!(c.agg.evaluations));
    c.finish();
}
