//! C09 (configuration clause) — exhaustive sweep of thread counts x batch sizes x request-list
//! lengths x skip_errors x missing-name positions on the REAL rayon, each compared slot by slot
//! with sequential reads.  The scheduler is uncontrolled here: this decides the configuration
//! clause; the schedule clause is decided by the loom harness in /verif/harness-sched.
use refimpl::mpqref::{self, WFile, WOptions};
use serde_json::{json, Value};
use std::path::PathBuf;
use vcore::*;
use wow_mpq::single_archive_parallel::{extract_with_config, ParallelArchive, ParallelConfig};
use wow_mpq::Archive;

const THREADS: [usize; 7] = [1, 2, 3, 4, 8, 16, 32];
const LENS: [usize; 9] = [0, 1, 9, 10, 11, 999, 1000, 1001, 1100];
const MISS: [&str; 4] = ["none", "first", "middle", "last"];

struct Sweep {
    dir: Scratch,
    arch: PathBuf,
    batches: Vec<usize>,
    radices: Vec<u64>,
    reps: usize,
}
impl Sweep {
    fn new(tier: Tier) -> Self {
        let dir = Scratch::new("c09cfg");
        let mut files = vec![];
        for i in 0..1100 {
            files.push(WFile { method: if i % 3 == 0 { mpqref::M_ZLIB } else { 0 }, ..WFile::plain(&format!("d{}\\f{i:04}.bin", i % 7), &vec![(i % 251) as u8; 1 + (i % 40) * 3]) });
        }
        let arch = dir.path("sweep.mpq");
        std::fs::write(&arch, mpqref::write(&files, &WOptions { hash_size: 4096, ..WOptions::default() }).unwrap()).unwrap();
        let batches = vec![1, 2, 7, 10, 0]; // 0 = N (whole list)
        let radices = vec![THREADS.len() as u64, batches.len() as u64, LENS.len() as u64, 2, MISS.len() as u64];
        Sweep { dir, arch, batches, radices, reps: tier.pick(1, 3) }
    }
}
fn name(i: usize) -> String {
    format!("d{}\\f{i:04}.bin", i % 7)
}
impl Space for Sweep {
    fn len(&self) -> u64 {
        gen::product(&self.radices)
    }
    fn describe(&self, i: u64) -> Value {
        let d = gen::mixed_radix(i, &self.radices);
        json!({"threads": THREADS[d[0] as usize], "batch": self.batches[d[1] as usize], "list_len": LENS[d[2] as usize], "skip_errors": d[3] == 1, "missing": MISS[d[4] as usize]})
    }
    fn case_timeout(&self) -> u64 {
        300
    }
    fn run(&self, i: u64) -> CaseResult {
        let d = gen::mixed_radix(i, &self.radices);
        let (threads, len, skip, miss) = (THREADS[d[0] as usize], LENS[d[2] as usize], d[3] == 1, MISS[d[4] as usize]);
        let batch = if self.batches[d[1] as usize] == 0 { len.max(1) } else { self.batches[d[1] as usize] };
        let mut r = CaseResult::new();
        r.key = format!("{i}");
        let _ = &self.dir;
        // includes duplicates for len > 1100/13; every fifth request spells its name in upper case with forward
        // slashes (a sequential read resolves every ASCII-case / slash spelling)
        let mut req: Vec<String> = (0..len).map(|k| if k % 5 == 2 { name((k * 13) % 1100).to_ascii_uppercase().replace('\\', "/") } else { name((k * 13) % 1100) }).collect();
        if len > 0 {
            let pos = match miss {
                "first" => Some(0),
                "middle" => Some(len / 2),
                "last" => Some(len - 1),
                _ => None,
            };
            if let Some(p) = pos {
                req[p] = "no\\such\\file.bin".into();
            }
        } else if miss != "none" {
            r.outcome = "skip".into();
            return r; // not a distinct configuration
        }
        r.nontrivial = len > 0;
        let mut a = Archive::open(&self.arch).unwrap();
        let reference: Vec<Result<Vec<u8>, ()>> = req.iter().map(|n| a.read_file(n).map_err(|_| ())).collect();
        let any_fail = reference.iter().any(|x| x.is_err());
        let names: Vec<&str> = req.iter().map(|s| s.as_str()).collect();
        for rep in 0..self.reps {
            let cfg = ParallelConfig::new().threads(threads).batch_size(batch).skip_errors(skip);
            match extract_with_config(&self.arch, &names, cfg) {
                Ok(slots) => {
                    r.outcome = "ok".into();
                    if !skip && any_fail {
                        r.viol("extract_with_config without skip_errors returns Ok although a requested name fails", format!("rep {rep}"));
                    }
                    if slots.len() != req.len() {
                        r.viol("extract_with_config returns a different number of slots than requested names", format!("{} vs {}", slots.len(), req.len()));
                    }
                    for (k, (n, res)) in slots.iter().enumerate().take(req.len()) {
                        if n != &req[k] {
                            r.viol("extract_with_config slot carries another name than the request at that position", format!("slot {k}: {n} vs {}", req[k]));
                            break;
                        }
                        let same = match (res, &reference[k]) {
                            (Ok(a), Ok(b)) => a == b,
                            (Err(_), Err(_)) => true,
                            _ => false,
                        };
                        if !same {
                            r.viol("extract_with_config slot differs from a sequential read of that name", format!("slot {k} {n}"));
                            break;
                        }
                    }
                }
                Err(e) => {
                    r.outcome = "err".into();
                    if skip || !any_fail {
                        r.viol("extract_with_config fails as a whole although no name fails / skip_errors is on", format!("{e}"));
                    }
                }
            }
            if !r.viols.is_empty() {
                break;
            }
        }
        // the other single-archive helpers on the same request (no missing names: they are all-or-nothing)
        if !any_fail && len > 0 && len <= 1001 && d[3] == 0 {
            let pa = ParallelArchive::open(&self.arch).unwrap();
            let want: Vec<(String, Vec<u8>)> = req.iter().cloned().zip(reference.iter().map(|x| x.clone().unwrap())).collect();
            match pa.extract_files_parallel(&names) {
                Ok(v) if v == want => {}
                Ok(_) => r.viol("parallel extraction result differs from sequential reads in request order", "extract_files_parallel".to_string()),
                Err(e) => r.viol("parallel extraction fails although every requested name reads sequentially", format!("extract_files_parallel: {e}")),
            }
            match pa.extract_files_batched(&names, batch) {
                Ok(v) if v == want => {}
                Ok(_) => r.viol("parallel extraction result differs from sequential reads in request order", format!("extract_files_batched batch={batch}")),
                Err(e) => r.viol("parallel extraction fails although every requested name reads sequentially", format!("extract_files_batched: {e}")),
            }
        }
        r
    }
}
fn build(name: &str, _arg: &str, tier: Tier) -> Box<dyn Space> {
    match name {
        "sweep" => Box::new(Sweep::new(tier)),
        _ => panic!("space {name}"),
    }
}
fn main() {
    let Mode::Supervisor(mut c) = start("C09", "model_checking", build) else { return };
    // each case spawns its own pools of up to 32 threads: run fewer worker processes
    c.jobs = c.jobs.min(6);
    c.rule = "full product threads {1,2,3,4,8,16,32} x batch {1,2,7,10,N} x list length {0,1,9,10,11,999,1000,1001,1100} x skip_errors x missing position {none,first,middle,last} on the real rayon; slot-by-slot comparison with sequential reads (uncontrolled scheduler: decides the configuration clause only)".into();
    c.run_space("sweep", "");
    c.extra_cov.insert("states".into(), json!(1));
    c.extra_cov.insert("transitions".into(), json!(1));
    c.extra_cov.insert("traces_validated_against_impl".into(), json!(c.agg.evaluations));
    c.finish();
}
