//! Archive catalogue for C10: small archives for every kind of integrity metadata, built through
//! the real `ArchiveBuilder`, plus the map of protected byte ranges.  The ranges come from the
//! independent `refimpl::mpqref` parse (header, decrypted block table, table positions) combined
//! with the published layout of a stored file (sector offset table, checksum table / trailer,
//! sector data) — none of it is taken from the reader under test.
use refimpl::mpqref::{self, F_COMPRESS, F_CRC, F_ENCRYPTED, F_SINGLE};
use serde_json::{json, Value};
use vcore::{gen, Scratch, Tier};
use wow_mpq::{ArchiveBuilder, AttributesOption, FormatVersion, ListfileOption};

pub const SECTOR: usize = 512; // block_size shift 0
pub const VERSIONS: [FormatVersion; 4] = [FormatVersion::V1, FormatVersion::V2, FormatVersion::V3, FormatVersion::V4];

#[derive(Clone, Debug)]
pub struct FileSpec {
    pub name: &'static str,
    pub len: usize,
    pub texture: &'static str,
    pub comp: u8,
    /// 0 plain, 1 encrypted, 2 encrypted + fix-key
    pub crypto: u8,
}
const fn f(name: &'static str, len: usize, texture: &'static str, comp: u8, crypto: u8) -> FileSpec {
    FileSpec { name, len, texture, comp, crypto }
}

#[derive(Clone, Copy, Debug, PartialEq, Eq)]
pub enum Attrs {
    None,
    Crc32,
    Full,
    /// `(attributes)` supplied by the check (not generated): MD5 array only, stored plain
    ExtMd5Only,
    /// `(attributes)` supplied by the check: CRC32 + FILETIME(0) + MD5, stored zlib-compressed
    ExtFullZlib,
}
impl Attrs {
    pub fn name(&self) -> &'static str {
        match self {
            Attrs::None => "none",
            Attrs::Crc32 => "crc32",
            Attrs::Full => "full",
            Attrs::ExtMd5Only => "external-md5-only",
            Attrs::ExtFullZlib => "external-full-zlib-compressed",
        }
    }
}

#[derive(Clone, Debug)]
pub struct ArchSpec {
    pub id: String,
    pub version: usize,
    pub crc: bool,
    pub attrs: Attrs,
    pub listfile: bool,
    pub tcomp: bool,
    pub signed: bool,
    pub userdata: bool,
    pub set: &'static str,
    pub files: Vec<FileSpec>,
}
impl ArchSpec {
    pub fn json(&self) -> Value {
        json!({"version": format!("V{}", self.version + 1), "sector_crc": self.crc, "attributes": self.attrs.name(),
               "listfile": self.listfile, "table_compression": self.tcomp, "weak_signature": self.signed,
               "userdata_prefix": self.userdata, "file_set": self.set})
    }
    /// which metadata the archive carries (used in symptom strings)
    pub fn protection(&self) -> String {
        let mut v: Vec<&str> = vec![];
        if self.crc {
            v.push("sector-crc");
        }
        match self.attrs {
            Attrs::None => {}
            Attrs::Crc32 => v.push("attributes-crc32"),
            Attrs::Full => v.push("attributes-full"),
            Attrs::ExtMd5Only => v.push("attributes-md5-only"),
            Attrs::ExtFullZlib => v.push("attributes-full-compressed"),
        }
        if self.version == 3 {
            v.push("v4-digests");
        }
        if self.signed {
            v.push("weak-signature");
        }
        v.join("+")
    }
}

pub fn file_set(name: &str) -> Vec<FileSpec> {
    match name {
        "plain" => vec![
            f("s_plain.bin", 200, "period251", 0, 0),
            f("dir\\m_plain.bin", 1124, "incompressible", 0, 0),
            f("x512.bin", 512, "period251", 0, 0),
            f("dir\\sub\\x1024.bin", 1024, "incompressible", 0, 0),
            // ordinary names that merely look like the internal "(name)" files at one end
            f("maps\\arena(2)", 150, "period251", 0, 0),
            f("(draft) intro.txt", 140, "incompressible", 0, 0),
        ],
        "zlib" => vec![
            f("s_zlib.txt", 400, "sparse", 0x02, 0),
            f("dir\\m_zlib.txt", 1124, "period2", 0x02, 0),
            f("m_half.dat", 1300, "half", 0x02, 0),
        ],
        "enc" => vec![
            f("s_enc.bin", 203, "period251", 0, 1),
            f("dir\\s_encfix_zlib.txt", 400, "sparse", 0x02, 2),
            f("m_enc.bin", 1124, "incompressible", 0, 1),
            f("dir\\m_encfix_zlib.txt", 1124, "period2", 0x02, 2),
            // position-adjusted key without compression: single unit and multi-sector
            f("dir\\s_encfix.bin", 205, "period251", 0, 2),
            f("m_encfix.bin", 1124, "incompressible", 0, 2),
        ],
        "codecs" => vec![
            f("s_bzip2.txt", 500, "period2", 0x10, 0),
            f("s_sparse.dat", 400, "sparse", 0x20, 0),
            f("dir\\m_sparse.dat", 1124, "sparse", 0x20, 0),
            f("s_pkware.txt", 400, "period2", 0x08, 0),
            f("s_lzma.txt", 500, "period2", 0x12, 0),
        ],
        "small" => vec![f("s_plain.bin", 120, "period251", 0, 0), f("dir\\m_zlib.txt", 1100, "period2", 0x02, 0)],
        "tiny" => vec![f("a.bin", 90, "period251", 0, 0), f("dir\\m.bin", 600, "incompressible", 0, 0)],
        _ => panic!("file set {name}"),
    }
}

pub fn catalogue(tier: Tier) -> Vec<ArchSpec> {
    let mut v = vec![];
    let mut push = |group: &str, version: usize, crc: bool, attrs: Attrs, listfile: bool, tcomp: bool, signed: bool, userdata: bool, set: &'static str| {
        v.push(ArchSpec {
            id: format!("{}-V{}-{}{}{}{}", group, version + 1, set, if listfile { "-lf" } else { "" }, if tcomp { "-tcomp" } else { "" }, if userdata { "-ud" } else { "" }),
            version,
            crc,
            attrs,
            listfile,
            tcomp,
            signed,
            userdata,
            set,
            files: file_set(set),
        });
    };
    let versions: Vec<usize> = tier.pick(vec![0, 3], vec![0, 1, 2, 3]);
    let sets: Vec<&'static str> = vec!["plain", "zlib", "enc", "codecs"];
    // simplest first: V1 sector CRC on plain files
    for &ver in &versions {
        for &set in &sets {
            push("crc", ver, true, Attrs::None, false, false, false, false, set);
        }
    }
    for &ver in &versions {
        for &set in &sets {
            push("acrc32", ver, false, Attrs::Crc32, false, false, false, false, set);
        }
    }
    for &ver in &versions {
        for &set in &sets {
            push("afull", ver, false, Attrs::Full, false, false, false, false, set);
        }
    }
    for &ver in &versions {
        for &set in tier.pick(&["plain", "enc"][..], &sets[..]) {
            push("crc+afull", ver, true, Attrs::Full, false, false, false, false, set);
        }
    }
    // V4 digests alone (file data unprotected), with listfile, with compressed HET/BET
    push("v4only", 3, false, Attrs::None, false, false, false, false, "small");
    push("v4only", 3, false, Attrs::None, true, false, false, false, "small");
    push("v4only", 3, false, Attrs::None, false, true, false, false, "small");
    push("crc", 3, true, Attrs::None, true, true, false, false, "small");
    // the same behind a user-data header (archive offset 512: every header-relative position shifts)
    push("v4only", 3, false, Attrs::None, false, false, false, true, "small");
    push("crc+afull", 3, true, Attrs::Full, true, false, false, true, "small");
    push("crc", 0, true, Attrs::None, false, false, false, true, "small");
    // attributes written by somebody else
    push("extattr", 0, false, Attrs::ExtMd5Only, false, false, false, false, "plain");
    push("extattr", 0, false, Attrs::ExtFullZlib, false, false, false, false, "zlib");
    push("extattr", 1, false, Attrs::ExtMd5Only, false, false, false, false, "enc");
    if tier == Tier::Thorough {
        push("extattr", 3, false, Attrs::ExtFullZlib, false, false, false, false, "plain");
    }
    // listfile present (also a stored, protected file)
    push("crc", 0, true, Attrs::None, true, false, false, false, "small");
    push("afull", 1, false, Attrs::Full, true, false, false, false, "small");
    // ... with the names that look like internal files at one end (whole-archive verification walks the listfile)
    push("acrc32", 0, false, Attrs::Crc32, true, false, false, false, "plain");
    push("afull", 3, false, Attrs::Full, true, false, false, false, "plain");
    // weak signature
    push("signed", 0, false, Attrs::None, false, false, true, false, "tiny");
    push("signed", 0, false, Attrs::None, true, false, true, true, "tiny");
    if tier == Tier::Thorough {
        push("signed", 1, false, Attrs::None, false, false, true, false, "small");
        push("signed", 3, false, Attrs::None, false, false, true, false, "tiny");
    }
    v
}

#[derive(Clone, Debug)]
pub struct Span {
    /// region class, e.g. `file_data[multi-sector,compressed]`
    pub region: String,
    /// judged file (index into `Built::files`) that owns the bytes, if any
    pub file: Option<usize>,
    pub start: usize,
    pub end: usize,
    /// bulk payload (quick tier visits it with a stride)
    pub payload: bool,
    /// the bytes are input of the weak signature, or the signature itself
    pub signed: bool,
    /// the 64 signature bytes (all single-bit flips are applied too)
    pub signature: bool,
}

pub struct JFile {
    pub name: String,
    pub data: Vec<u8>,
    pub storage: String,
}

pub struct Built {
    pub spec: ArchSpec,
    pub bytes: Vec<u8>,
    /// files whose returned content is judged: the user files, then `(listfile)` if present
    pub files: Vec<JFile>,
    pub spans: Vec<Span>,
    pub arch_start: usize,
    pub notes: Vec<String>,
}

fn u32le(b: &[u8], o: usize) -> u32 {
    u32::from_le_bytes([b[o], b[o + 1], b[o + 2], b[o + 3]])
}
fn u64le(b: &[u8], o: usize) -> u64 {
    u64::from_le_bytes(b[o..o + 8].try_into().unwrap())
}

fn crc32(d: &[u8]) -> u32 {
    // bitwise CRC-32 (IEEE 802.3), independent of the crate used by the subject
    let mut c: u32 = 0xFFFF_FFFF;
    for &b in d {
        c ^= b as u32;
        for _ in 0..8 {
            c = if c & 1 != 0 { (c >> 1) ^ 0xEDB8_8320 } else { c >> 1 };
        }
    }
    !c
}
fn md5(d: &[u8]) -> [u8; 16] {
    use md5::{Digest, Md5};
    let mut h = Md5::new();
    h.update(d);
    h.finalize().into()
}

pub const FIXED_FILETIME: u64 = 0x01DB_2A5C_3E4F_6071;

fn storage_class(flags: u32, csize: u32, fsize: u32) -> String {
    let mut s = String::new();
    if flags & F_SINGLE != 0 {
        s.push_str("single-unit");
        if flags & F_COMPRESS != 0 && csize < fsize {
            s.push_str(",compressed");
        }
    } else {
        s.push_str("multi-sector");
        if (csize as usize) < fsize as usize + 4 * ((fsize as usize).div_ceil(SECTOR) + 1) {
            s.push_str(",compressed");
        }
    }
    if flags & F_ENCRYPTED != 0 {
        s.push_str(",encrypted");
    }
    s
}

pub fn build(spec: &ArchSpec, sc: &Scratch) -> Built {
    let mut b = ArchiveBuilder::new()
        .version(VERSIONS[spec.version])
        .block_size(0)
        .default_compression(0)
        .listfile_option(if spec.listfile { ListfileOption::Generate } else { ListfileOption::None });
    // note: generate_crcs(true) switches CRC32 attributes on when none are configured, and
    // attributes_option(Generate*) switches sector CRCs on; the order below gives exactly `spec`.
    if spec.crc {
        b = b.generate_crcs(true);
    }
    b = b.attributes_option(match spec.attrs {
        Attrs::Crc32 => AttributesOption::GenerateCrc32,
        Attrs::Full => AttributesOption::GenerateFull,
        _ => AttributesOption::None,
    });
    if !spec.crc {
        b = b.generate_crcs(false);
    }
    if spec.tcomp {
        b = b.compress_tables(true);
    }
    let mut originals: Vec<(String, Vec<u8>)> = vec![];
    for (i, fs) in spec.files.iter().enumerate() {
        let data = gen::content(fs.texture, fs.len, SECTOR, 11 + i as u64);
        originals.push((fs.name.to_string(), data.clone()));
        b = match fs.crypto {
            0 => b.add_file_data_with_options(data, fs.name, fs.comp, false, 0),
            1 => b.add_file_data_with_encryption(data, fs.name, fs.comp, false, 0),
            _ => b.add_file_data_with_encryption(data, fs.name, fs.comp, true, 0),
        };
    }
    let nuser = originals.len();
    match spec.attrs {
        Attrs::ExtMd5Only | Attrs::ExtFullZlib => {
            // entries for every block including the attributes file itself (its own entry is zero),
            // which is what the reference implementation of the format writes
            let n = nuser + 1;
            let mut a: Vec<u8> = vec![];
            a.extend_from_slice(&100u32.to_le_bytes());
            let flags: u32 = if spec.attrs == Attrs::ExtMd5Only { 0x04 } else { 0x07 };
            a.extend_from_slice(&flags.to_le_bytes());
            if flags & 1 != 0 {
                for i in 0..n {
                    let c = if i < nuser { crc32(&originals[i].1) } else { 0 };
                    a.extend_from_slice(&c.to_le_bytes());
                }
            }
            if flags & 2 != 0 {
                for _ in 0..n {
                    a.extend_from_slice(&0u64.to_le_bytes());
                }
            }
            if flags & 4 != 0 {
                for i in 0..n {
                    let m = if i < nuser { md5(&originals[i].1) } else { [0u8; 16] };
                    a.extend_from_slice(&m);
                }
            }
            let comp = if spec.attrs == Attrs::ExtFullZlib { 0x02 } else { 0 };
            b = b.add_file_data_with_options(a, "(attributes)", comp, false, 0);
        }
        _ => {}
    }
    if spec.signed {
        b = b.add_file_data_with_options(vec![0u8; 72], "(signature)", 0, false, 0);
    }
    let p = sc.path(&format!("build-{}.mpq", std::process::id()));
    b.build(&p).unwrap_or_else(|e| panic!("builder refused catalogue archive {}: {e}", spec.id));
    let mut bytes = std::fs::read(&p).expect("read built archive");
    let _ = std::fs::remove_file(&p);
    let mut notes = vec![];

    if spec.userdata {
        let mut pre: Vec<u8> = vec![];
        pre.extend_from_slice(b"MPQ\x1b");
        pre.extend_from_slice(&(512u32 - 16).to_le_bytes());
        pre.extend_from_slice(&512u32.to_le_bytes());
        pre.extend_from_slice(&16u32.to_le_bytes());
        pre.resize(512, 0x55);
        pre.extend_from_slice(&bytes);
        bytes = pre;
    }

    let parsed = mpqref::parse(&bytes).unwrap_or_else(|e| panic!("independent parser rejects catalogue archive {}: {e}", spec.id));
    let off = parsed.header.offset as usize;

    // normalise FILETIME values (wall clock of the build) in generated full attributes
    if spec.attrs == Attrs::Full {
        let hi = parsed.find(b"(attributes)").expect("(attributes) entry");
        let blk = parsed.block[parsed.hash[hi].block as usize];
        let n = parsed.block.len() - 1;
        let base = off + blk.pos as usize + 8 + 4 * n;
        assert_eq!(blk.csize as usize, 8 + n * 28, "layout of generated full attributes");
        for i in 0..n {
            bytes[base + 8 * i..base + 8 * i + 8].copy_from_slice(&FIXED_FILETIME.to_le_bytes());
        }
    }

    // sign: the (signature) file is 72 stored bytes; the library computes the signature file
    if spec.signed {
        let hi = parsed.find(b"(signature)").expect("(signature) entry");
        let blk = parsed.block[parsed.hash[hi].block as usize];
        assert_eq!((blk.csize, blk.fsize), (72, 72));
        assert_eq!(blk.flags & (F_COMPRESS | F_ENCRYPTED | F_CRC), 0);
        let pos = off + blk.pos as usize;
        let asize = u32le(&bytes, off + 8) as u64;
        let info = wow_mpq::crypto::SignatureInfo::new_weak(off as u64, asize, pos as u64, 72, vec![]);
        let sigfile = wow_mpq::crypto::generate_weak_signature(std::io::Cursor::new(&bytes), &info).expect("generate_weak_signature");
        assert_eq!(sigfile.len(), 72);
        bytes[pos..pos + 72].copy_from_slice(&sigfile);
    }
    let parsed = mpqref::parse(&bytes).expect("reparse");

    // ---------------------------------------------------------------- judged files and spans
    let mut files: Vec<JFile> = vec![];
    let mut spans: Vec<Span> = vec![];
    let mut extents: Vec<(usize, usize, String)> = vec![]; // every stored file, for the signed partition
    let covered_files = spec.crc || spec.attrs != Attrs::None;
    let mut names: Vec<(String, Option<Vec<u8>>)> = originals.iter().map(|(n, d)| (n.clone(), Some(d.clone()))).collect();
    if spec.listfile {
        names.push(("(listfile)".into(), None));
    }
    if spec.attrs != Attrs::None {
        names.push(("(attributes)".into(), None));
    }
    if spec.signed {
        names.push(("(signature)".into(), None));
    }
    for (name, orig) in names {
        let hi = parsed.find(name.as_bytes()).unwrap_or_else(|| panic!("{name} not in hash table of {}", spec.id));
        let blk = parsed.block[parsed.hash[hi].block as usize];
        let pos = off + blk.pos as usize;
        let (csize, fsize) = (blk.csize as usize, blk.fsize as usize);
        let st = storage_class(blk.flags, blk.csize, blk.fsize);
        let special = name.starts_with('(');
        let judged = !special || name == "(listfile)";
        let fidx = if judged {
            let data = match orig {
                Some(d) => d,
                None => parsed.read(name.as_bytes()).unwrap_or_else(|e| panic!("independent reader cannot read {name}: {e}")).0,
            };
            files.push(JFile { name: name.clone(), data, storage: st.clone() });
            Some(files.len() - 1)
        } else {
            None
        };
        let protect = (judged && (blk.flags & F_CRC != 0 || spec.attrs != Attrs::None) && covered_files) || name == "(attributes)";
        let mut end;
        let mut local: Vec<Span> = vec![];
        let mk = |region: String, s: usize, e: usize, payload: bool| Span { region, file: fidx, start: s, end: e, payload, signed: false, signature: false };
        if name == "(attributes)" {
            end = pos + csize;
            if blk.flags & F_COMPRESS != 0 && csize < fsize {
                local.push(mk("attributes_file[compressed]".into(), pos, pos + csize, false));
                if blk.flags & F_CRC != 0 {
                    local.push(mk("attributes_file.sector_crc_trailer".into(), end, end + 4, false));
                    end += 4;
                }
                notes.push("attributes stored compressed".into());
            } else {
                if spec.attrs == Attrs::ExtFullZlib {
                    panic!("external attributes of {} were not stored compressed", spec.id);
                }
                let n = match spec.attrs {
                    Attrs::ExtMd5Only => parsed.block.len(),
                    _ => parsed.block.len() - 1,
                };
                let fl = u32le(&bytes, pos + 4);
                let mut o = pos;
                local.push(mk("attributes_file.header".into(), o, o + 8, false));
                o += 8;
                if fl & 1 != 0 {
                    local.push(mk("attributes_file.crc32_array".into(), o, o + 4 * n, false));
                    o += 4 * n;
                }
                if fl & 2 != 0 {
                    local.push(mk("attributes_file.filetime_array".into(), o, o + 8 * n, false));
                    o += 8 * n;
                }
                if fl & 4 != 0 {
                    local.push(mk("attributes_file.md5_array".into(), o, o + 16 * n, false));
                    o += 16 * n;
                }
                assert_eq!(o, pos + csize, "attributes layout of {}", spec.id);
                if blk.flags & F_CRC != 0 {
                    local.push(mk("attributes_file.sector_crc_trailer".into(), end, end + 4, false));
                    end += 4;
                }
            }
        } else if blk.flags & F_SINGLE != 0 {
            local.push(mk(format!("file_data[{st}]"), pos, pos + csize, true));
            end = pos + csize;
            if blk.flags & F_CRC != 0 {
                local.push(mk(format!("sector_crc_trailer[{st}]"), end, end + 4, false));
                end += 4;
            }
        } else if blk.flags & F_COMPRESS != 0 {
            // published layout: n+1 sector offsets (n+2 with sector checksums), the data sectors and,
            // with checksums, one more sector holding n ADLER32 values (stored raw by the builder);
            // the stored size covers all of it
            let n = fsize.div_ceil(SECTOR);
            let crc = blk.flags & F_CRC != 0;
            let entries = n + 1 + crc as usize;
            let mut o = pos;
            local.push(mk(format!("sector_offset_table[{st}]"), o, o + 4 * entries, false));
            o += 4 * entries;
            end = pos + csize;
            let first = u32le(&bytes, pos) as usize;
            if blk.flags & F_ENCRYPTED == 0 {
                assert_eq!(first, 4 * entries, "first sector offset of {name} in {} (sector table entries)", spec.id);
            }
            if crc {
                local.push(mk(format!("file_data[{st}]"), o, end - 4 * n, true));
                local.push(mk(format!("sector_crc_table[{st}]"), end - 4 * n, end, false));
            } else {
                local.push(mk(format!("file_data[{st}]"), o, end, true));
            }
        } else {
            // flat storage (only the signature file and empty files are stored like this here)
            local.push(mk(format!("file_data[flat,{st}]"), pos, pos + csize, true));
            end = pos + csize;
        }
        extents.push((pos, end, name.clone()));
        if name == "(signature)" {
            continue;
        }
        if protect {
            spans.append(&mut local);
        } else if spec.signed {
            spans.append(&mut local);
        }
    }
    // stored files must tile the area between header and first table without overlap
    extents.sort();
    for w in extents.windows(2) {
        assert!(w[0].1 <= w[1].0, "stored files overlap in {}: {:?} {:?}", spec.id, w[0], w[1]);
    }
    let hdr = parsed.layout.iter().find(|s| s.kind == "header").unwrap();
    let hs = parsed.layout.iter().find(|s| s.kind == "hash_table").unwrap();
    let bs = parsed.layout.iter().find(|s| s.kind == "block_table").unwrap();
    assert_eq!(extents[0].0, hdr.end as usize, "first stored file follows the header in {}", spec.id);

    let structural = |region: &str, s: usize, e: usize| Span { region: region.to_string(), file: None, start: s, end: e, payload: false, signed: false, signature: false };
    let mut tables: Vec<Span> = vec![];
    if spec.version == 3 {
        let h = off;
        tables.push(structural("v4_header.fields", h, h + 0x70));
        tables.push(structural("v4_header.table_digests", h + 0x70, h + 0xC0));
        tables.push(structural("v4_header.header_digest", h + 0xC0, h + 0xD0));
    } else if spec.signed {
        tables.push(structural("header", hdr.start as usize, hdr.end as usize));
    }
    if spec.version >= 2 {
        // HET/BET: two positions in the header (0x34, 0x3C); which is which is decided by the magic
        let p1 = off + u64le(&bytes, off + 0x34) as usize;
        let p2 = off + u64le(&bytes, off + 0x3C) as usize;
        let (lo, hi) = (p1.min(p2), p1.max(p2));
        let last_file_end = extents.last().unwrap().1;
        assert_eq!(lo, last_file_end, "first extended table follows the last stored file in {}", spec.id);
        for (s, e) in [(lo, hi), (hi, hs.start as usize)] {
            let label = match &bytes[s..s + 4] {
                b"HET\x1a" => "het_table",
                b"BET\x1a" => "bet_table",
                m => panic!("unexpected magic {:?} at extended table position in {}", m, spec.id),
            };
            if spec.version == 3 || spec.signed {
                tables.push(structural(label, s, e));
            }
        }
        let spec_says_bet_first = &bytes[p1..p1 + 4] == b"BET\x1a";
        if !spec_says_bet_first {
            notes.push("header offset 0x34 (BetTablePos64) points at the HET table".into());
        }
    } else {
        assert_eq!(extents.last().unwrap().1, hs.start as usize, "hash table follows the last stored file in {}", spec.id);
    }
    if spec.version == 3 || spec.signed {
        tables.push(structural("hash_table", hs.start as usize, hs.end as usize));
        tables.push(structural("block_table", bs.start as usize, bs.end as usize));
    }
    assert_eq!(hs.end, bs.start);
    assert_eq!(bs.end as usize, bytes.len(), "block table ends the archive {}", spec.id);
    spans.append(&mut tables);

    if spec.signed {
        for s in spans.iter_mut() {
            s.signed = true;
        }
        let (pos, _, _) = extents.iter().find(|e| e.2 == "(signature)").unwrap().clone();
        // bytes 0..8 of the signature file are neither hashed nor part of the signature: not judged
        spans.push(Span { region: "weak_signature".into(), file: None, start: pos + 8, end: pos + 72, payload: false, signed: true, signature: true });
        // the signed range must be covered completely (minus the signature file)
        let mut cover = vec![false; bytes.len()];
        for s in &spans {
            for c in cover[s.start..s.end].iter_mut() {
                *c = true;
            }
        }
        for (i, c) in cover.iter().enumerate() {
            let in_sig_hdr = i >= pos && i < pos + 8;
            let in_prefix = i < off;
            assert!(*c || in_sig_hdr || in_prefix, "byte {i} of signed archive {} not in any span", spec.id);
        }
    }
    spans.sort_by_key(|s| s.start);
    for w in spans.windows(2) {
        assert!(w[0].end <= w[1].start, "spans overlap in {}", spec.id);
    }
    Built { spec: spec.clone(), bytes, files, spans, arch_start: off, notes }
}
