//! Observation of the read and verify operations on one archive file, and process isolation.
//!
//! Every faulted evaluation runs in a forked child with an address-space limit: a corrupted size
//! field can make the subject ask for gigabytes or abort, which must not take the worker down
//! (and is not what C10 is about: an abort or panic is counted as "failure reported").
use crate::storm;
use serde_json::{json, Value};
use std::ffi::CString;
use std::path::Path;
use vcore::guarded;
use wow_mpq::{Archive, SignatureStatus};

pub const VFLAGS: [u32; 4] = [0, 1, 2, 4]; // all, SECTOR_CRC, FILE_CRC, FILE_MD5
pub const SFILE_VERIFY_SIGNATURE: u32 = 0x10;
pub const SFILE_VERIFY_ALL_FILES: u32 = 0x20;
pub const MD5_FIELDS: [&str; 6] = ["hash_table_valid", "block_table_valid", "hi_block_table_valid", "het_table_valid", "bet_table_valid", "header_valid"];

#[derive(Clone, Debug, PartialEq)]
pub enum ReadRes {
    Same,
    /// Ok with other bytes: (length, first differing index, description)
    Diff(usize, usize, String),
    Err(String),
    Panic(String),
    NotRun,
}
impl ReadRes {
    fn to_json(&self) -> Value {
        match self {
            ReadRes::Same => json!("same"),
            ReadRes::Diff(l, f, d) => json!(["diff", l, f, d]),
            ReadRes::Err(e) => json!(["err", e]),
            ReadRes::Panic(e) => json!(["panic", e]),
            ReadRes::NotRun => json!("notrun"),
        }
    }
    fn from_json(v: &Value) -> ReadRes {
        if v == "same" {
            return ReadRes::Same;
        }
        if v == "notrun" {
            return ReadRes::NotRun;
        }
        match v[0].as_str() {
            Some("diff") => ReadRes::Diff(v[1].as_u64().unwrap() as usize, v[2].as_u64().unwrap() as usize, v[3].as_str().unwrap().to_string()),
            Some("err") => ReadRes::Err(v[1].as_str().unwrap().to_string()),
            _ => ReadRes::Panic(v[1].as_str().unwrap_or("").to_string()),
        }
    }
}

/// tri-state of a verify call: Some(true) success, Some(false) failure reported, None not run / panicked
pub type Tri = Option<bool>;

#[derive(Clone, Debug, Default)]
pub struct Obs {
    pub open_err: Option<String>,
    pub reads: Vec<ReadRes>,
    pub info_err: Option<String>,
    pub md5: Option<Vec<bool>>,
    /// "None" | "WeakValid" | "WeakInvalid" | "Strong*" | "Err" | "Panic" | "NotRun"
    pub sig: String,
    pub info_sig: String,
    pub ffi_open: bool,
    pub vfile: Vec<Vec<Tri>>,
    pub varch_default: Tri,
    pub varch_sig: Tri,
    pub varch_all: Tri,
    pub panics: u64,
    pub panic_sites: Vec<String>,
}

fn tri_json(t: &Tri) -> Value {
    match t {
        Some(b) => json!(b),
        None => Value::Null,
    }
}
fn tri_from(v: &Value) -> Tri {
    v.as_bool()
}

impl Obs {
    pub fn to_json(&self) -> Value {
        json!({
            "open_err": self.open_err, "reads": self.reads.iter().map(|r| r.to_json()).collect::<Vec<_>>(),
            "info_err": self.info_err, "md5": self.md5, "sig": self.sig, "info_sig": self.info_sig, "ffi_open": self.ffi_open,
            "vfile": self.vfile.iter().map(|f| f.iter().map(tri_json).collect::<Vec<_>>()).collect::<Vec<_>>(),
            "vd": tri_json(&self.varch_default), "vs": tri_json(&self.varch_sig), "va": tri_json(&self.varch_all), "panics": self.panics, "psites": self.panic_sites,
        })
    }
    pub fn from_json(v: &Value) -> Obs {
        Obs {
            open_err: v["open_err"].as_str().map(|s| s.to_string()),
            reads: v["reads"].as_array().map(|a| a.iter().map(ReadRes::from_json).collect()).unwrap_or_default(),
            info_err: v["info_err"].as_str().map(|s| s.to_string()),
            md5: v["md5"].as_array().map(|a| a.iter().map(|b| b.as_bool().unwrap_or(false)).collect()),
            sig: v["sig"].as_str().unwrap_or("").to_string(),
            info_sig: v["info_sig"].as_str().unwrap_or("").to_string(),
            ffi_open: v["ffi_open"].as_bool().unwrap_or(false),
            vfile: v["vfile"].as_array().map(|a| a.iter().map(|f| f.as_array().map(|x| x.iter().map(tri_from).collect()).unwrap_or_default()).collect()).unwrap_or_default(),
            varch_default: tri_from(&v["vd"]),
            varch_sig: tri_from(&v["vs"]),
            varch_all: tri_from(&v["va"]),
            panics: v["panics"].as_u64().unwrap_or(0),
            panic_sites: v["psites"].as_array().map(|a| a.iter().filter_map(|x| x.as_str().map(|s| s.to_string())).collect()).unwrap_or_default(),
        }
    }
}

fn short(e: impl std::fmt::Display) -> String {
    let s = e.to_string();
    s.chars().take(120).collect()
}

fn describe_diff(orig: &[u8], got: &[u8]) -> (usize, String) {
    let first = orig.iter().zip(got.iter()).position(|(a, b)| a != b).unwrap_or(orig.len().min(got.len()));
    let ndiff = orig.iter().zip(got.iter()).filter(|(a, b)| a != b).count();
    let mut d = format!("{} of {} bytes differ", ndiff, orig.len());
    if got.len() != orig.len() {
        d.push_str(&format!(", length {} instead of {}", got.len(), orig.len()));
    } else {
        // whole 512-byte sectors replaced by zeros?
        let mut zs = vec![];
        for (i, (o, g)) in orig.chunks(512).zip(got.chunks(512)).enumerate() {
            if o != g && g.iter().all(|&b| b == 0) {
                zs.push(i);
            }
        }
        if !zs.is_empty() {
            d.push_str(&format!(", sector(s) {:?} returned as zeros", zs));
        }
    }
    (first, d)
}

fn sig_name(r: Result<Result<SignatureStatus, wow_mpq::Error>, (String, u32, String)>, panics: &mut u64) -> String {
    match r {
        Ok(Ok(s)) => format!("{:?}", s),
        Ok(Err(_)) => "Err".into(),
        Err(_) => {
            *panics += 1;
            "Panic".into()
        }
    }
}

/// Run every read and verify operation of the property on the archive at `path`.
/// `with_all_files`: also call SFileVerifyArchive(SFILE_VERIFY_ALL_FILES) (may never return).
pub fn observe(path: &Path, files: &[(String, Vec<u8>)], with_all_files: bool) -> Obs {
    let mut o = Obs { sig: "NotRun".into(), info_sig: "NotRun".into(), ..Default::default() };
    // ---- native API
    match guarded(|| Archive::open(path)) {
        Err((f, _, m)) => {
            o.panics += 1;
            o.panic_sites.push(format!("Archive::open@{f}"));
            o.open_err = Some(format!("panic at {f}: {}", short(m)));
        }
        Ok(Err(e)) => o.open_err = Some(short(e)),
        Ok(Ok(mut a)) => {
            for (name, orig) in files {
                let r = match guarded(|| a.read_file(name)) {
                    Err((f, _, m)) => {
                        o.panics += 1;
                        o.panic_sites.push(format!("read_file@{f}"));
                        ReadRes::Panic(format!("{f}: {}", short(m)))
                    }
                    Ok(Err(e)) => ReadRes::Err(short(e)),
                    Ok(Ok(d)) => {
                        if &d == orig {
                            ReadRes::Same
                        } else {
                            let (first, desc) = describe_diff(orig, &d);
                            ReadRes::Diff(d.len(), first, desc)
                        }
                    }
                };
                o.reads.push(r);
            }
            match guarded(|| a.get_info()) {
                Err((f, _, m)) => {
                    o.panics += 1;
                    o.panic_sites.push(format!("get_info@{f}"));
                    o.info_err = Some(format!("panic at {f}: {}", short(m)));
                }
                Ok(Err(e)) => o.info_err = Some(short(e)),
                Ok(Ok(info)) => {
                    o.md5 = info.md5_status.as_ref().map(|m| vec![m.hash_table_valid, m.block_table_valid, m.hi_block_table_valid, m.het_table_valid, m.bet_table_valid, m.header_valid]);
                    o.info_sig = format!("{:?}", info.signature_status);
                }
            }
            o.sig = sig_name(guarded(|| a.verify_signature()), &mut o.panics);
        }
    }
    if o.open_err.is_some() {
        o.reads = files.iter().map(|_| ReadRes::NotRun).collect();
    }
    // ---- StormLib-compatible API
    let cpath = CString::new(path.to_str().unwrap()).unwrap();
    let mut h: storm::HANDLE = std::ptr::null_mut();
    let opened = guarded(|| unsafe { storm::SFileOpenArchive(cpath.as_ptr(), 0, 0, &mut h) });
    match opened {
        Ok(true) => {
            o.ffi_open = true;
            for (name, _) in files {
                let cn = CString::new(name.as_str()).unwrap();
                let mut row = vec![];
                for fl in VFLAGS {
                    match guarded(|| unsafe { storm::SFileVerifyFile(h, cn.as_ptr(), fl) }) {
                        Ok(b) => row.push(Some(b)),
                        Err(_) => {
                            o.panics += 1;
                            row.push(None);
                        }
                    }
                }
                o.vfile.push(row);
            }
            let mut va = |fl: u32, panics: &mut u64| -> Tri {
                match guarded(|| unsafe { storm::SFileVerifyArchive(h, fl) }) {
                    Ok(b) => Some(b),
                    Err(_) => {
                        *panics += 1;
                        None
                    }
                }
            };
            o.varch_default = va(0, &mut o.panics);
            o.varch_sig = va(SFILE_VERIFY_SIGNATURE, &mut o.panics);
            if with_all_files {
                o.varch_all = va(SFILE_VERIFY_ALL_FILES | SFILE_VERIFY_SIGNATURE, &mut o.panics);
            }
            let _ = guarded(|| storm::SFileCloseArchive(h));
        }
        Ok(false) => {}
        Err(_) => o.panics += 1,
    }
    o
}

// ---------------------------------------------------------------- isolation

pub enum Iso {
    Done(Value),
    /// child ended without a result: description (signal / exit code)
    Died(String),
    Hung,
}

/// Run `f` in a forked child (address space limited to `as_limit` bytes) and ship its JSON
/// result through a pipe.  The calling process must be single-threaded.
pub fn isolated(timeout_ms: i32, as_headroom: u64, f: impl FnOnce() -> Value) -> Iso {
    // limit = what this process maps right now + headroom (the archives are <= 4 KiB, nothing the
    // subject legitimately needs comes near the headroom)
    static VM_NOW: std::sync::OnceLock<u64> = std::sync::OnceLock::new();
    let vm = *VM_NOW.get_or_init(|| {
        std::fs::read_to_string("/proc/self/statm").ok().and_then(|s| s.split_whitespace().next().and_then(|x| x.parse::<u64>().ok())).map(|pages| pages * 4096).unwrap_or(256 << 20)
    });
    let as_limit = if as_headroom > 0 { vm + as_headroom } else { 0 };
    unsafe {
        let mut fds = [0i32; 2];
        if libc::pipe(fds.as_mut_ptr()) != 0 {
            panic!("pipe failed");
        }
        let pid = libc::fork();
        if pid < 0 {
            panic!("fork failed");
        }
        if pid == 0 {
            libc::close(fds[0]);
            if as_limit > 0 {
                let lim = libc::rlimit { rlim_cur: as_limit, rlim_max: as_limit };
                libc::setrlimit(libc::RLIMIT_AS, &lim);
            }
            let lim0 = libc::rlimit { rlim_cur: 0, rlim_max: 0 };
            libc::setrlimit(libc::RLIMIT_CORE, &lim0);
            let out = match guarded(f) {
                Ok(v) => v.to_string(),
                Err((file, line, msg)) => json!({"child_panic": format!("{file}:{line}: {msg}")}).to_string(),
            };
            let b = out.as_bytes();
            let mut off = 0;
            while off < b.len() {
                let n = libc::write(fds[1], b[off..].as_ptr() as *const libc::c_void, b.len() - off);
                if n <= 0 {
                    libc::_exit(3);
                }
                off += n as usize;
            }
            libc::close(fds[1]);
            libc::_exit(0);
        }
        libc::close(fds[1]);
        let mut buf: Vec<u8> = Vec::with_capacity(1024);
        let start = std::time::Instant::now();
        let mut hung = false;
        loop {
            let left = timeout_ms as i64 - start.elapsed().as_millis() as i64;
            if left <= 0 {
                hung = true;
                break;
            }
            let mut p = libc::pollfd { fd: fds[0], events: libc::POLLIN, revents: 0 };
            let r = libc::poll(&mut p, 1, left as i32);
            if r < 0 {
                if *libc::__errno_location() == libc::EINTR {
                    continue;
                }
                break;
            }
            if r == 0 {
                hung = true;
                break;
            }
            let mut tmp = [0u8; 4096];
            let n = libc::read(fds[0], tmp.as_mut_ptr() as *mut libc::c_void, tmp.len());
            if n < 0 {
                if *libc::__errno_location() == libc::EINTR {
                    continue;
                }
                break;
            }
            if n == 0 {
                break;
            }
            buf.extend_from_slice(&tmp[..n as usize]);
        }
        libc::close(fds[0]);
        if hung {
            libc::kill(pid, libc::SIGKILL);
        }
        let mut status = 0i32;
        loop {
            let r = libc::waitpid(pid, &mut status, 0);
            if r == pid || (r < 0 && *libc::__errno_location() != libc::EINTR) {
                break;
            }
        }
        if hung {
            return Iso::Hung;
        }
        if libc::WIFSIGNALED(status) {
            return Iso::Died(format!("killed by signal {}", libc::WTERMSIG(status)));
        }
        let code = libc::WEXITSTATUS(status);
        if code != 0 {
            return Iso::Died(format!("exit status {code}"));
        }
        match serde_json::from_slice::<Value>(&buf) {
            Ok(v) => Iso::Done(v),
            Err(e) => Iso::Died(format!("unparsable child result: {e}")),
        }
    }
}
