//! C10 — corruption of protected data is detected; intact data always verifies.
//!
//! Fault enumeration: small archives for every kind of integrity metadata are built with the real
//! `ArchiveBuilder`; at EVERY byte offset of the protected regions each fault value is applied and
//! the real read / verify operations (wow-mpq `Archive`, storm-ffi `SFileVerifyFile` /
//! `SFileVerifyArchive`) are run on the result.  Judged is the property's disjunction: a fault is a
//! violation only if a read returns `Ok` with bytes different from the original AND no applicable
//! verify operation reports failure.
#[allow(dead_code, unused_imports, clippy::all)]
#[path = "/repo/ffi/storm-ffi/src/lib.rs"]
mod storm;

mod arch;
mod eval;
mod repro;
mod sigprim;

use arch::{Built, Span};
use eval::{isolated, observe, Iso, Obs, ReadRes, MD5_FIELDS, VFLAGS};
use serde_json::{json, Value};
use std::sync::{Mutex, OnceLock};
use vcore::*;

/// address-space headroom of an isolated evaluation above what the worker maps at that moment
const AS_LIMIT: u64 = 96 << 20;
const EVAL_TIMEOUT_MS: i32 = 30_000;

fn jfiles(b: &Built) -> Vec<(String, Vec<u8>)> {
    b.files.iter().map(|f| (f.name.clone(), f.data.clone())).collect()
}

fn build_all(tier: Tier, sc: &Scratch) -> Vec<Built> {
    arch::catalogue(tier).iter().map(|s| arch::build(s, sc)).collect()
}

/// Does SFileVerifyArchive(SFILE_VERIFY_ALL_FILES) return at all? (probe on an intact archive)
fn all_files_probe(b: &Built, sc: &Scratch, timeout_ms: i32) -> Iso {
    let p = sc.path("probe.mpq");
    std::fs::write(&p, &b.bytes).expect("write scratch");
    let files = jfiles(b);
    isolated(timeout_ms, AS_LIMIT, || observe(&p, &files, true).to_json())
}

// ---------------------------------------------------------------- intact archives

struct Intact {
    sc: Scratch,
    built: Vec<Built>,
}
impl Space for Intact {
    fn len(&self) -> u64 {
        self.built.len() as u64
    }
    fn describe(&self, i: u64) -> Value {
        let b = &self.built[i as usize];
        json!({"archive": b.spec.id, "config": b.spec.json(), "what": "intact archive: every read and verify operation must succeed",
               "files": b.files.iter().map(|f| format!("{} [{}]", f.name, f.storage)).collect::<Vec<_>>(), "bytes": b.bytes.len()})
    }
    fn run(&self, i: u64) -> CaseResult {
        let b = &self.built[i as usize];
        let mut r = CaseResult::new();
        r.nontrivial = true;
        r.key = format!("intact/{}", b.spec.id);
        let p = self.sc.path("intact.mpq");
        std::fs::write(&p, &b.bytes).expect("write scratch");
        let files = jfiles(b);
        let o = match isolated(EVAL_TIMEOUT_MS, AS_LIMIT, || observe(&p, &files, false).to_json()) {
            Iso::Done(v) if v.get("child_panic").is_none() => Obs::from_json(&v),
            Iso::Done(v) => {
                r.viol("intact archive: check-side panic", v["child_panic"].to_string());
                return r;
            }
            Iso::Died(d) => {
                r.viol("intact archive: the process dies while reading / verifying", d);
                return r;
            }
            Iso::Hung => {
                r.viol("intact archive: read / verify operations do not return", format!("> {} ms", EVAL_TIMEOUT_MS));
                return r;
            }
        };
        if let Some(e) = &o.open_err {
            r.viol("intact archive: Archive::open fails", e.clone());
            return r;
        }
        for (k, rr) in o.reads.iter().enumerate() {
            if *rr != ReadRes::Same {
                r.viol(format!("intact archive: read_file does not return the original content ({} file)", b.files[k].storage), format!("{}: {:?}", b.files[k].name, rr));
            }
        }
        if !o.ffi_open {
            r.viol("intact archive: SFileOpenArchive fails", "");
        }
        for (k, row) in o.vfile.iter().enumerate() {
            for (j, t) in row.iter().enumerate() {
                if *t != Some(true) {
                    r.viol(format!("intact archive: SFileVerifyFile(flags={:#x}) reports failure ({} file)", VFLAGS[j], b.files[k].storage), format!("{}: {:?}", b.files[k].name, t));
                }
            }
        }
        if o.varch_default != Some(true) || o.varch_sig != Some(true) {
            r.viol("intact archive: SFileVerifyArchive(signature) reports failure", format!("flags 0: {:?}, SFILE_VERIFY_SIGNATURE: {:?}", o.varch_default, o.varch_sig));
        }
        if let Some(e) = &o.info_err {
            r.viol("intact archive: get_info fails", e.clone());
        }
        if b.spec.version == 3 {
            match &o.md5 {
                None => r.viol("intact V4 archive: get_info().md5_status is absent", ""),
                Some(m) => {
                    let bad: Vec<&str> = (0..6).filter(|&k| !m[k]).map(|k| MD5_FIELDS[k]).collect();
                    if !bad.is_empty() {
                        r.viol(format!("intact V4 archive: get_info().md5_status reports invalid digests: {}", bad.join(",")), format!("{:?}; notes: {:?}", m, b.notes));
                    }
                }
            }
        }
        if b.spec.signed {
            if o.sig != "WeakValid" || o.info_sig != "WeakValid" {
                r.viol("intact signed archive: signature produced by generate_weak_signature is not reported WeakValid", format!("verify_signature: {}, get_info().signature_status: {}", o.sig, o.info_sig));
            }
        }
        r.outcome = format!("md5={:?};sig={};", o.md5, o.sig);
        r.count("intact_files_read", o.reads.len() as u64);
        r
    }
    fn case_timeout(&self) -> u64 {
        120
    }
}

// ---------------------------------------------------------------- SFILE_VERIFY_ALL_FILES

/// SFileVerifyArchive(SFILE_VERIFY_ALL_FILES) on intact archives, in its own process: it may never return.
struct AllFiles {
    sc: Scratch,
    built: Vec<Built>,
    pick: Vec<usize>,
}
impl AllFiles {
    fn new(tier: Tier) -> AllFiles {
        let sc = Scratch::new("c10a");
        let built = build_all(tier, &sc);
        let pick: Vec<usize> = match tier {
            Tier::Thorough => (0..built.len()).collect(),
            // quick: first archive, first with a listfile, first signed, first V4
            Tier::Quick => {
                let mut v = vec![0usize];
                for f in [(|b: &Built| b.spec.listfile) as fn(&Built) -> bool, |b| b.spec.signed, |b| b.spec.version == 3] {
                    if let Some(k) = built.iter().position(f) {
                        if !v.contains(&k) {
                            v.push(k);
                        }
                    }
                }
                v
            }
        };
        AllFiles { sc, built, pick }
    }
}
impl Space for AllFiles {
    fn len(&self) -> u64 {
        self.pick.len() as u64
    }
    fn describe(&self, i: u64) -> Value {
        let b = &self.built[self.pick[i as usize]];
        json!({"archive": b.spec.id, "config": b.spec.json(), "what": "intact archive: SFileVerifyArchive(SFILE_VERIFY_ALL_FILES | SFILE_VERIFY_SIGNATURE) in a child process"})
    }
    fn run(&self, i: u64) -> CaseResult {
        let b = &self.built[self.pick[i as usize]];
        let mut r = CaseResult::new();
        r.nontrivial = true;
        r.key = format!("allfiles/{}", b.spec.id);
        match all_files_probe(b, &self.sc, 3_000) {
            Iso::Done(v) => {
                let oo = Obs::from_json(&v);
                if oo.varch_all != Some(true) {
                    r.viol("intact archive: SFileVerifyArchive(SFILE_VERIFY_ALL_FILES) reports failure", format!("{:?}", oo.varch_all));
                }
                r.outcome.push_str("all_files=returns");
            }
            Iso::Hung => {
                r.viol("intact archive: SFileVerifyArchive(SFILE_VERIFY_ALL_FILES) never returns (self-deadlock)", "no result within 3 s; SFileVerifyArchive holds the ARCHIVES mutex while it calls SFileVerifyFile, which locks it again");
                r.outcome.push_str("all_files=hangs");
            }
            Iso::Died(d) => {
                r.viol("intact archive: SFileVerifyArchive(SFILE_VERIFY_ALL_FILES) kills the process", d);
                r.outcome.push_str("all_files=dies");
            }
        }
        r
    }
    fn case_timeout(&self) -> u64 {
        60
    }
}

// ---------------------------------------------------------------- faults

#[derive(Clone, Debug)]
struct Fault {
    label: String,
    writes: Vec<(usize, u8)>,
}

/// fault values applied at offset `o` of `span` (no-ops and duplicates removed)
fn faults_at(bytes: &[u8], span: &Span, all_spans: &[Span], o: usize, tier: Tier) -> (Vec<Fault>, u64) {
    let x = bytes[o];
    let mut out: Vec<Fault> = vec![];
    let mut skipped = 0u64;
    let mut seen: Vec<Vec<(usize, u8)>> = vec![];
    let mut push = |label: String, writes: Vec<(usize, u8)>, out: &mut Vec<Fault>, skipped: &mut u64| {
        let eff: Vec<(usize, u8)> = writes.into_iter().filter(|&(p, v)| bytes[p] != v).collect();
        if eff.is_empty() || seen.contains(&eff) {
            *skipped += 1;
            return;
        }
        seen.push(eff.clone());
        out.push(Fault { label, writes: eff });
    };
    let singles: Vec<(&str, u8)> = match tier {
        Tier::Quick => vec![("^0x01", x ^ 0x01), ("=0xFF", 0xFF)],
        Tier::Thorough => vec![("^0x01", x ^ 0x01), ("^0x80", x ^ 0x80), ("=0x00", 0x00), ("=0xFF", 0xFF)],
    };
    for (l, v) in singles {
        push(l.to_string(), vec![(o, v)], &mut out, &mut skipped);
    }
    if span.signature {
        for k in 1..8u8 {
            if k == 7 && tier == Tier::Thorough {
                continue; // ^0x80 already applied
            }
            push(format!("^{:#04x}", 1u8 << k), vec![(o, x ^ (1 << k))], &mut out, &mut skipped);
        }
    }
    if (o - span.start) % 4 == 0 {
        for n in [2usize, 4] {
            let e = (o + n).min(span.end);
            push(format!("{}-byte overwrite 0xFF", n), (o..e).map(|p| (p, 0xFFu8)).collect(), &mut out, &mut skipped);
        }
        // zero-filled runs (a wiped block): 8 and 16 bytes, allowed to run on into the following bytes as long
        // as those are protected too (e.g. from the end of a file's data into its checksum trailer), never
        // into bytes no metadata covers. Not on signed regions (any change there is judged per byte already).
        if !span.signature && span.file.is_some() {
            // ... and only within the protection domain of the same file (its data, offset table, checksum
            // table / trailer): a run that also wipes another file's bytes or the (attributes) header is a
            // two-region fault sequence, which this enumeration does not claim
            let protected = |p: usize| all_spans.iter().any(|s| !s.signature && s.file.is_some() && s.file == span.file && s.start <= p && p < s.end);
            for n in [8usize, 16] {
                let mut w = vec![];
                for p in o..(o + n).min(bytes.len()) {
                    if !protected(p) {
                        break;
                    }
                    w.push((p, 0u8));
                }
                push(format!("{}-byte zero run", n), w, &mut out, &mut skipped);
            }
        }
    }
    (out, skipped)
}

struct Faults {
    tier: Tier,
    sc: Scratch,
    built: Vec<Built>,
    cases: Vec<(u32, u32, u32)>,
    base: Vec<OnceLock<Obs>>,
    lock: Mutex<()>,
}
impl Faults {
    fn new(tier: Tier) -> Faults {
        let sc = Scratch::new("c10");
        let built = build_all(tier, &sc);
        let mut cases = vec![];
        for (ai, b) in built.iter().enumerate() {
            for (si, s) in b.spans.iter().enumerate() {
                // quick: strides co-prime to 4 so that every byte lane of the dwords is still visited
                let stride = if s.payload { tier.pick(5, 1) } else if s.region == "hash_table" { tier.pick(3, 1) } else { 1 };
                let mut o = s.start;
                while o < s.end {
                    cases.push((ai as u32, si as u32, o as u32));
                    o += stride;
                }
            }
        }
        let base = built.iter().map(|_| OnceLock::new()).collect();
        Faults { tier, sc, built, cases, base, lock: Mutex::new(()) }
    }
    fn axes(&self) -> Value {
        let mut regions: std::collections::BTreeMap<String, u64> = Default::default();
        for &(a, s, _) in &self.cases {
            *regions.entry(self.built[a as usize].spans[s as usize].region.clone()).or_insert(0) += 1;
        }
        json!({"archives": self.built.len(), "protected_offsets_visited": self.cases.len(),
               "protected_bytes_total": self.built.iter().map(|b| b.spans.iter().map(|s| s.end - s.start).sum::<usize>()).sum::<usize>(),
               "fault_values_per_offset": self.tier.pick("^0x01, =0xFF, 2/4-byte 0xFF overwrite and 8/16-byte zero runs at 4-aligned offsets (+ all 8 bit flips on signature bytes)",
                                                         "^0x01, ^0x80, =0x00, =0xFF, 2/4-byte 0xFF overwrite at 4-aligned offsets (+ all 8 bit flips on signature bytes)"),
               "payload_stride": self.tier.pick(5, 1), "hash_table_stride": self.tier.pick(3, 1), "offsets_per_region_class": regions,
               "archive_ids": self.built.iter().map(|b| b.spec.id.clone()).collect::<Vec<_>>()})
    }
    /// SFILE_VERIFY_ALL_FILES is observed on every faulted archive too (it used to dead-lock; repaired):
    /// it is a detector of its own and must agree with the per-file verification
    fn all_files(&self) -> bool {
        true
    }
    fn baseline(&self, a: usize) -> &Obs {
        self.base[a].get_or_init(|| {
            let b = &self.built[a];
            let p = self.sc.path("base.mpq");
            std::fs::write(&p, &b.bytes).expect("write scratch");
            let files = jfiles(b);
            let all = self.all_files();
            match isolated(EVAL_TIMEOUT_MS, AS_LIMIT, || observe(&p, &files, all).to_json()) {
                Iso::Done(v) => Obs::from_json(&v),
                _ => Obs { open_err: Some("baseline observation died".into()), ..Default::default() },
            }
        })
    }
}

/// protection label used in symptom strings: the metadata that claims the faulted bytes
fn protection_for(b: &Built, span: &Span) -> String {
    let structural = span.file.is_none() && !span.region.starts_with("attributes_file");
    let mut v: Vec<String> = vec![];
    if structural {
        if b.spec.version == 3 {
            v.push("v4-digests".into());
        }
    } else {
        let p = b.spec.protection();
        for part in p.split('+') {
            if part != "v4-digests" && part != "weak-signature" && !part.is_empty() {
                v.push(part.to_string());
            }
        }
    }
    if b.spec.signed {
        v.push("weak-signature".into());
    }
    v.join("+")
}

/// The property's disjunction on one faulted archive. Returns (violations, outcome class).
fn judge(b: &Built, span: &Span, base: &Obs, o: &Obs) -> (Vec<(String, String)>, &'static str) {
    let mut viols = vec![];
    if o.open_err.is_some() {
        return (viols, "open-fails");
    }
    // signature clause: stops verifying after any change to the signed bytes or to the signature
    if span.signed && (o.sig == "WeakValid" || o.info_sig == "WeakValid") {
        viols.push((
            format!("weak-signature: still reported WeakValid after a change in {}", span.region),
            format!("verify_signature: {}, get_info().signature_status: {}", o.sig, o.info_sig),
        ));
    }
    // archive-level detectors (only operations that succeeded on the intact archive can detect)
    let mut arch_det: Vec<String> = vec![];
    if base.ffi_open && !o.ffi_open {
        arch_det.push("SFileOpenArchive fails".into());
    }
    if let Some(bm) = &base.md5 {
        match &o.md5 {
            None => arch_det.push("get_info fails / md5_status absent".into()),
            Some(om) => {
                for k in 0..6 {
                    if bm[k] && !om[k] {
                        arch_det.push(format!("md5_status.{}=false", MD5_FIELDS[k]));
                    }
                }
            }
        }
    }
    if base.sig == "WeakValid" && o.sig != "WeakValid" {
        arch_det.push(format!("verify_signature={}", o.sig));
    }
    for (name, bt, ot) in [("SFileVerifyArchive(0)", base.varch_default, o.varch_default), ("SFileVerifyArchive(SIGNATURE)", base.varch_sig, o.varch_sig), ("SFileVerifyArchive(ALL_FILES)", base.varch_all, o.varch_all)] {
        if bt == Some(true) && ot != Some(true) {
            arch_det.push(format!("{name} fails"));
        }
    }
    let mut class = "content-identical";
    let mut any_err = false;
    for (k, rr) in o.reads.iter().enumerate() {
        match rr {
            ReadRes::Same => {}
            ReadRes::Err(_) | ReadRes::Panic(_) | ReadRes::NotRun => any_err = true,
            ReadRes::Diff(len, first, desc) => {
                let mut det = arch_det.clone();
                if o.ffi_open {
                    for j in 0..VFLAGS.len() {
                        let bt = base.vfile.get(k).and_then(|r| r.get(j)).copied().flatten();
                        let ot = o.vfile.get(k).and_then(|r| r.get(j)).copied().flatten();
                        if bt == Some(true) && ot != Some(true) {
                            det.push(format!("SFileVerifyFile(flags={:#x}) fails", VFLAGS[j]));
                        }
                    }
                }
                // the whole-archive verification with ALL_FILES covers every file: when the per-file
                // verification of this (altered) file fails, the whole-archive one must not succeed
                let per_file_fails = det.iter().any(|d| d.starts_with("SFileVerifyFile"));
                // (only where the archive can name its files: without a listfile ALL_FILES has nothing to loop over)
                // and only for faults inside the file's own stored bytes (a table fault may change what the archive
                // lists) and for ordinary files (the tool documents that it skips the internal "(name)" files)
                let own = span.file == Some(k) && !(b.files[k].name.starts_with('(') && b.files[k].name.ends_with(')'));
                if own && b.spec.listfile && per_file_fails && base.varch_all == Some(true) && o.varch_all == Some(true) {
                    viols.push((
                        format!("{}: fault in {} -> SFileVerifyArchive(SFILE_VERIFY_ALL_FILES) still succeeds although SFileVerifyFile reports the altered file as damaged", protection_for(b, span), span.region),
                        format!("file {} [{}]: {}", b.files[k].name, b.files[k].storage, det.join(", ")),
                    ));
                }
                if det.is_empty() {
                    class = "VIOLATION";
                    viols.push((
                        format!("{}: fault in {} -> read_file returns Ok with altered content and no verify operation reports failure", protection_for(b, span), span.region),
                        format!("file {} [{}]: returned {} bytes, first difference at {}, {}; SFileVerifyFile flags(0,1,2,4)={:?} md5_status={:?} signature={}", b.files[k].name, b.files[k].storage, len, first, desc, o.vfile.get(k), o.md5, o.sig),
                    ));
                } else if class != "VIOLATION" {
                    class = "altered-but-verify-fails";
                }
            }
        }
    }
    if class == "content-identical" && any_err {
        class = "read-error";
    }
    (viols, class)
}

impl Space for Faults {
    fn len(&self) -> u64 {
        self.cases.len() as u64
    }
    fn describe(&self, i: u64) -> Value {
        let (a, s, o) = self.cases[i as usize];
        let b = &self.built[a as usize];
        let sp = &b.spans[s as usize];
        json!({"archive": b.spec.id, "config": b.spec.json(), "region": sp.region, "file": sp.file.map(|f| b.files[f].name.clone()),
               "offset": o, "rel": o as usize - sp.start, "region_bytes": sp.end - sp.start, "byte": format!("{:#04x}", b.bytes[o as usize])})
    }
    fn run(&self, i: u64) -> CaseResult {
        let _g = self.lock.lock().unwrap();
        let (a, s, o) = self.cases[i as usize];
        let b = &self.built[a as usize];
        let sp = &b.spans[s as usize];
        let mut r = CaseResult::new();
        r.key = format!("{}/{}", b.spec.id, o);
        let base = self.baseline(a as usize);
        if base.open_err.is_some() {
            // the intact space reports this; nothing can be judged here
            r.outcome = "baseline-unusable".into();
            r.err_return = true;
            return r;
        }
        let (fl, skipped) = faults_at(&b.bytes, sp, &b.spans, o as usize, self.tier);
        r.count("noop_or_duplicate_faults_skipped", skipped);
        let files = jfiles(b);
        let all = self.all_files();
        let p = self.sc.path("fault.mpq");
        let mut classes: Vec<&'static str> = vec![];
        let mut seen_sym: Vec<String> = vec![];
        let mut refused = 0usize;
        for f in &fl {
            let mut bytes = b.bytes.clone();
            for &(pos, v) in &f.writes {
                bytes[pos] = v;
            }
            std::fs::write(&p, &bytes).expect("write scratch");
            r.count("faulted_archives_evaluated", 1);
            let class = match isolated(EVAL_TIMEOUT_MS, AS_LIMIT, || observe(&p, &files, all).to_json()) {
                Iso::Done(v) if v.get("child_panic").is_some() => {
                    r.viol("check-side panic while observing a faulted archive", v["child_panic"].to_string());
                    "check-panic"
                }
                Iso::Done(v) => {
                    let obs = Obs::from_json(&v);
                    r.count("subject_panics_caught", obs.panics);
                    for site in &obs.panic_sites {
                        r.count(&format!("subject_panic_{site}"), 1);
                    }
                    let (vs, class) = judge(b, sp, base, &obs);
                    // a run that goes on into other regions of the same file (its checksum sector / trailer)
                    // is its own class: it alters the data together with the metadata that protects it
                    let mut also: Vec<&str> = vec![];
                    for &(pos, _) in &f.writes {
                        if let Some(s2) = b.spans.iter().find(|s| s.start <= pos && pos < s.end) {
                            if s2.region != sp.region && !also.contains(&s2.region.as_str()) {
                                also.push(s2.region.as_str());
                            }
                        }
                    }
                    for (sym, det) in vs {
                        let sym = if also.is_empty() { sym } else { sym.replacen(" -> ", &format!(" together with {} -> ", also.join(" and ")), 1) };
                        if !seen_sym.contains(&sym) {
                            seen_sym.push(sym.clone());
                            r.viol(sym, format!("fault {} at offset {} (+{} in {}): {}", f.label, o, o as usize - sp.start, sp.region, det));
                        }
                    }
                    if class == "open-fails" {
                        refused += 1;
                    }
                    class
                }
                Iso::Died(d) => {
                    // abort / kill inside the subject: brutal, but not a silent acceptance
                    r.count("subject_process_deaths", 1);
                    r.count(&format!("subject_process_deaths_in_{}", sp.region.split('[').next().unwrap_or("")), 1);
                    let _ = d;
                    "process-dies"
                }
                Iso::Hung => {
                    r.viol(format!("read / verify operations do not return on an archive with a fault in {}", sp.region), format!("fault {} at offset {}: no result within {} ms", f.label, o, EVAL_TIMEOUT_MS));
                    "hang"
                }
            };
            r.count(&format!("faults_{}", class), 1);
            if !classes.contains(&class) {
                classes.push(class);
            }
        }
        classes.sort();
        r.outcome = classes.join("+");
        r.nontrivial = !fl.is_empty();
        r.err_return = !fl.is_empty() && refused == fl.len();
        r
    }
    fn case_timeout(&self) -> u64 {
        300
    }
}

// ---------------------------------------------------------------- driver

fn build(name: &str, _arg: &str, tier: Tier) -> Box<dyn Space> {
    match name {
        "intact" => {
            let sc = Scratch::new("c10i");
            let built = build_all(tier, &sc);
            Box::new(Intact { sc, built })
        }
        "allfiles" => Box::new(AllFiles::new(tier)),
        "faults" => Box::new(Faults::new(tier)),
        "sigprim" => Box::new(sigprim::SigPrim::new(tier)),
        _ => panic!("space {name}"),
    }
}

/// `--explain <index> [thorough]`: print what every fault of one `faults` case makes the subject do
fn explain(tier: Tier, idx: u64) {
    let f = Faults::new(tier);
    let (a, s, o) = f.cases[idx as usize];
    let b = &f.built[a as usize];
    let sp = &b.spans[s as usize];
    println!("case {}", f.describe(idx));
    let base = f.baseline(a as usize);
    println!("baseline {}", base.to_json());
    let (fl, _) = faults_at(&b.bytes, sp, &b.spans, o as usize, tier);
    let files = jfiles(b);
    let p = f.sc.path("explain.mpq");
    for ft in &fl {
        let mut bytes = b.bytes.clone();
        for &(pos, v) in &ft.writes {
            bytes[pos] = v;
        }
        std::fs::write(&p, &bytes).unwrap();
        match isolated(EVAL_TIMEOUT_MS, AS_LIMIT, || observe(&p, &files, false).to_json()) {
            Iso::Done(v) => {
                let obs = Obs::from_json(&v);
                let (vs, class) = judge(b, sp, base, &obs);
                println!("fault {:<24} class={} viols={:?}\n    {}", ft.label, class, vs.iter().map(|x| &x.0).collect::<Vec<_>>(), v);
            }
            Iso::Died(d) => println!("fault {:<24} child died: {}", ft.label, d),
            Iso::Hung => println!("fault {:<24} hung", ft.label),
        }
    }
}

fn dump(tier: Tier) {
    let sc = Scratch::new("c10d");
    for b in build_all(tier, &sc) {
        println!("{} len={} prot={} notes={:?}", b.spec.id, b.bytes.len(), b.spec.protection(), b.notes);
        for f in &b.files {
            println!("    file {} [{}] {} bytes", f.name, f.storage, f.data.len());
        }
        for s in &b.spans {
            println!("    span {:>5}..{:<5} {:<55} file={:?} signed={}", s.start, s.end, s.region, s.file.map(|k| b.files[k].name.as_str()), s.signed);
        }
    }
}

fn main() {
    let args: Vec<String> = std::env::args().collect();
    if args.iter().any(|a| a == "--dump") {
        install_panic_hook();
        dump(if args.iter().any(|a| a == "thorough") { Tier::Thorough } else { Tier::Quick });
        return;
    }
    if args.iter().any(|a| a == "--repro") {
        install_panic_hook();
        repro::run();
        return;
    }
    if let Some(k) = args.iter().position(|a| a == "--find") {
        // --find <archive-id> <offset> [thorough]: index of the `faults` case
        install_panic_hook();
        let f = Faults::new(if args.iter().any(|a| a == "thorough") { Tier::Thorough } else { Tier::Quick });
        let off: u32 = args[k + 2].parse().unwrap();
        for (i, &(a, _, o)) in f.cases.iter().enumerate() {
            if f.built[a as usize].spec.id == args[k + 1] && o == off {
                println!("{i}");
            }
        }
        return;
    }
    if let Some(k) = args.iter().position(|a| a == "--explain") {
        install_panic_hook();
        explain(if args.iter().any(|a| a == "thorough") { Tier::Thorough } else { Tier::Quick }, args[k + 1].parse().unwrap());
        return;
    }
    let Mode::Supervisor(mut c) = start("C10", "fault_enumeration", build) else { return };
    c.rule = "space `intact`: one case per catalogue archive (every read/verify operation on the unmodified archive); space `allfiles`: SFileVerifyArchive(SFILE_VERIFY_ALL_FILES) on intact archives in a child process (quick: 4 archives, thorough: all). \
              space `faults`: one case per (archive, protected byte offset); inside the case every fault value is applied to a fresh copy \
              (thorough: ^0x01, ^0x80, =0x00, =0xFF at every offset, 2- and 4-byte 0xFF overwrites at offsets 4-aligned to the region start, all 8 single-bit flips on the 64 signature bytes; \
              quick: ^0x01, =0xFF and the overwrites, stride 5 inside stored file payload and stride 3 inside the hash table, V1 and V4 only); protected regions = stored file data, sector offset table, sector checksum table / trailer of files with sector CRC or attributes, \
              the (attributes) payload, V4 header incl. digest fields and the four digested tables, and for signed archives every byte hashed by the signature plus the 64 signature bytes; \
              archives <= 4 KiB, sector size 512. A case is non-trivial when at least one fault value changes the byte(s); distinct = distinct (archive, offset). \
              space `sigprim`: signed buffers of 0, 1, 64, 200, 2048, 64Ki-1, 64Ki, 64Ki+1, 64Ki+101, 128Ki+5 bytes x every single-bit flip of the signed bytes (thorough: every bit up to 64Ki+101) and of the signature. \
              A fault is a violation only if read_file returns Ok with bytes != original and no verify operation that succeeded on the intact archive reports failure.".into();
    c.assume("the independent mpqref parser locates header, tables and block entries; position of sector offset/checksum tables inside a stored file follows the published layout");
    c.assume("storm-ffi is compiled into the check from /repo/ffi/storm-ffi/src/lib.rs (it has no rlib target); each faulted evaluation runs in a forked child whose address space may grow by 96 MiB; an abort or panic of the subject counts as 'failure reported', a hang is reported");
    c.assume("verify operations that already fail on the intact archive are reported by space `intact` and cannot count as detectors in space `faults`");
    c.assume("FILETIME values in generated full attributes are overwritten with a constant after the build so that archives are identical across processes");
    c.run_space("intact", "");
    c.run_space("allfiles", "");
    c.run_space("faults", "");
    c.run_space("sigprim", "");
    {
        let f = Faults::new(c.tier);
        let mut kinds: Vec<String> = f.built.iter().map(|b| b.spec.protection()).collect();
        kinds.sort();
        kinds.dedup();
        let mut regions: Vec<String> = f.built.iter().flat_map(|b| b.spans.iter().map(|s| s.region.clone())).collect();
        regions.sort();
        regions.dedup();
        c.extra_cov.insert(
            "axes".into(),
            json!({"archives": f.built.len(), "format_versions": c.tier.pick(2, 4), "metadata_kinds": kinds.len(), "file_sets": 6, "region_classes": regions.len(),
                   "protected_offsets": f.cases.len(), "single_byte_fault_values": c.tier.pick(2, 4), "multi_byte_overwrites": 2, "signature_bit_flips_per_byte": 8,
                   "sigprim_buffers": 11}),
        );
        c.extra_cov.insert("metadata_kinds".into(), json!(kinds));
        c.extra_cov.insert("axes_faults".into(), f.axes());
        let s = sigprim::SigPrim::new(c.tier);
        c.extra_cov.insert("axes_sigprim".into(), s.axes());
    }
    c.finish();
}
