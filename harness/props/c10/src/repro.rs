//! `c10 --repro`: stand-alone reproductions of the defects the check reports on the unchanged tree,
//! written directly against the public API (no engine, no oracle machinery).
use crate::eval::{isolated, Iso};
use crate::storm;
use serde_json::json;
use std::ffi::CString;
use vcore::Scratch;
use wow_mpq::{Archive, ArchiveBuilder, AttributesOption, FormatVersion, ListfileOption};

pub fn run() {
    let sc = Scratch::new("c10r");
    // ---------------------------------------------------------------- R1 multi-sector sector CRC
    println!("R1  sector CRCs of a multi-sector file are written but never checked");
    let p = sc.path("r1.mpq");
    let data: Vec<u8> = (0..1124u32).map(|i| (i * 7 + 3) as u8).collect();
    ArchiveBuilder::new()
        .version(FormatVersion::V1)
        .block_size(0) // 512-byte sectors -> 3 sectors
        .listfile_option(ListfileOption::None)
        .generate_crcs(true)
        .attributes_option(AttributesOption::None)
        .add_file_data_with_options(data.clone(), "m.bin", 0, false, 0)
        .build(&p)
        .unwrap();
    let mut bytes = std::fs::read(&p).unwrap();
    // header 32 | sector offset table 4*4 | checksum table 3*4 | sector data
    let first_data = 32 + 16 + 12;
    bytes[first_data + 700] ^= 0x01; // a byte of the second sector
    std::fs::write(&p, &bytes).unwrap();
    let mut a = Archive::open(&p).unwrap();
    let got = a.read_file("m.bin");
    println!("    read_file after flipping one bit of sector 1: {:?}", got.as_ref().map(|d| (d.len(), d == &data)).map_err(|e| e.to_string()));
    unsafe {
        let cp = CString::new(p.to_str().unwrap()).unwrap();
        let mut h: storm::HANDLE = std::ptr::null_mut();
        assert!(storm::SFileOpenArchive(cp.as_ptr(), 0, 0, &mut h));
        let n = CString::new("m.bin").unwrap();
        println!("    SFileVerifyFile(SFILE_VERIFY_SECTOR_CRC) = {}   (expected: read error or false)", storm::SFileVerifyFile(h, n.as_ptr(), 1));
        storm::SFileCloseArchive(h);
    }
    // and the decompression-failure path: a compressed sector that no longer inflates comes back as zeros
    let p = sc.path("r1b.mpq");
    let text: Vec<u8> = (0..1124u32).map(|i| if i % 2 == 0 { 0xAB } else { 0x10 }).collect();
    ArchiveBuilder::new()
        .version(FormatVersion::V1)
        .block_size(0)
        .listfile_option(ListfileOption::None)
        .generate_crcs(true)
        .attributes_option(AttributesOption::None)
        .add_file_data_with_options(text.clone(), "t.txt", 0x02, false, 0)
        .build(&p)
        .unwrap();
    let mut bytes = std::fs::read(&p).unwrap();
    bytes[32 + 16 + 12] ^= 0x01; // compression-method byte of sector 0
    std::fs::write(&p, &bytes).unwrap();
    let got = Archive::open(&p).unwrap().read_file("t.txt");
    println!(
        "    zlib file, method byte of sector 0 flipped: read_file = {:?}",
        got.as_ref().map(|d| format!("Ok, {} bytes, equal to original: {}, first sector all zero: {}", d.len(), d == &text, d[..512].iter().all(|&b| b == 0))).map_err(|e| e.to_string())
    );

    // ---------------------------------------------------------------- R2 V4 digests on an intact archive
    println!("R2  intact V4 archive: HET/BET digests reported invalid (builder writes HetTablePos64 where BetTablePos64 belongs)");
    let p = sc.path("r2.mpq");
    ArchiveBuilder::new().version(FormatVersion::V4).listfile_option(ListfileOption::None).add_file_data(b"hello".to_vec(), "a.txt").build(&p).unwrap();
    let bytes = std::fs::read(&p).unwrap();
    let at = |o: usize| u64::from_le_bytes(bytes[o..o + 8].try_into().unwrap()) as usize;
    println!("    header+0x34 (BetTablePos64) -> magic {:?}; header+0x3C (HetTablePos64) -> magic {:?}", String::from_utf8_lossy(&bytes[at(0x34)..at(0x34) + 3]), String::from_utf8_lossy(&bytes[at(0x3C)..at(0x3C) + 3]));
    let mut a = Archive::open(&p).unwrap();
    println!("    het_table loaded: {}, bet_table loaded: {}", a.het_table().is_some(), a.bet_table().is_some());
    println!("    get_info().md5_status = {:?}", a.get_info().unwrap().md5_status);

    // ---------------------------------------------------------------- R3 SFILE_VERIFY_ALL_FILES
    println!("R3  SFileVerifyArchive(SFILE_VERIFY_ALL_FILES) on an intact archive (child process, 4 s limit)");
    let p = sc.path("r3.mpq");
    ArchiveBuilder::new().add_file_data(b"hello".to_vec(), "a.txt").build(&p).unwrap();
    let r = isolated(4000, 0, || unsafe {
        let cp = CString::new(p.to_str().unwrap()).unwrap();
        let mut h: storm::HANDLE = std::ptr::null_mut();
        assert!(storm::SFileOpenArchive(cp.as_ptr(), 0, 0, &mut h));
        json!(storm::SFileVerifyArchive(h, 0x20))
    });
    match r {
        Iso::Done(v) => println!("    returned {v}"),
        Iso::Hung => println!("    never returned (killed after 4 s): ARCHIVES mutex is held while SFileVerifyFile locks it again"),
        Iso::Died(d) => println!("    child died: {d}"),
    }

    // ---------------------------------------------------------------- R4 legacy verify_weak_signature
    println!("R4  legacy verify_weak_signature on a signature made by generate_weak_signature");
    let buf = vec![0x42u8; 1024];
    let info = wow_mpq::crypto::SignatureInfo::new_weak(0, 1024, 1024, 72, vec![]);
    let file = wow_mpq::crypto::generate_weak_signature(std::io::Cursor::new(&buf), &info).unwrap();
    let sig = wow_mpq::crypto::parse_weak_signature(&file).unwrap();
    println!("    verify_weak_signature_stormlib = {:?}", wow_mpq::crypto::verify_weak_signature_stormlib(std::io::Cursor::new(&buf), &sig, &info).map_err(|e| e.to_string()));
    println!("    verify_weak_signature (legacy)  = {:?}   (expected Ok(true): same bytes, same MD5, same key)", wow_mpq::crypto::verify_weak_signature(std::io::Cursor::new(&buf), &sig, 1024).map_err(|e| e.to_string()));
}
