//! Weak-signature primitive: generate_weak_signature -> parse_weak_signature ->
//! verify_weak_signature_stormlib on raw byte strings, and every single-bit flip.
use serde_json::{json, Value};
use std::io::Cursor;
use vcore::*;
use wow_mpq::crypto::{generate_weak_signature, parse_weak_signature, verify_weak_signature, verify_weak_signature_stormlib, SignatureInfo};

#[derive(Clone, Debug)]
pub struct Variant {
    pub len: usize,
    /// excluded (signature file) area: None = directly after the data (nothing of the buffer excluded)
    pub excl: Option<usize>,
    pub label: &'static str,
    /// bit positions (byte*8+bit) of the buffer that are flipped
    pub flips: Vec<u64>,
}

const CHUNK: usize = 512;

fn windows(len: usize, excl: Option<usize>) -> Vec<usize> {
    // bytes whose all 8 bits are flipped even when the buffer is too large for every bit
    let mut edges: Vec<usize> = vec![0, len, 0x10000];
    if let Some(e) = excl {
        edges.push(e);
        edges.push(e + 72);
    }
    let mut v = vec![];
    for e in edges {
        let lo = e.saturating_sub(48);
        let hi = (e + 48).min(len);
        for b in lo..hi {
            v.push(b);
        }
    }
    v.sort();
    v.dedup();
    v
}

pub fn variants(tier: Tier) -> Vec<Variant> {
    let mut out = vec![];
    let specs: Vec<(usize, Option<usize>, &'static str)> = vec![
        (0, None, "empty"),
        (1, None, "one byte"),
        (64, None, "64 bytes"),
        (200, Some(64), "200 bytes, signature area inside"),
        (2048, None, "2 KiB"),
        (2048, Some(1000), "2 KiB, signature area inside"),
        (0xFFFF, None, "64 KiB - 1"),
        (0x10000, None, "64 KiB"),
        (0x10001, None, "64 KiB + 1"),
        (0x10001 + 100, Some(0x10000 - 36), "64 KiB + 101, signature area straddles the digest unit boundary"),
        (0x20000 + 5, Some(0x18000), "128 KiB + 5, signature area in second digest unit"),
    ];
    for (len, excl, label) in specs {
        let mut flips: Vec<u64> = vec![];
        let all_bits = len <= 2048 || tier == Tier::Thorough && len <= 0x10001 + 100;
        if all_bits {
            for b in 0..len as u64 * 8 {
                flips.push(b);
            }
        } else {
            let w = windows(len, excl);
            let mut full = vec![false; len];
            for &b in &w {
                full[b] = true;
            }
            let stride = tier.pick(97usize, 5usize);
            for b in 0..len {
                if full[b] {
                    for k in 0..8 {
                        flips.push(b as u64 * 8 + k);
                    }
                } else if b % stride == 0 {
                    flips.push(b as u64 * 8 + (b / stride % 8) as u64);
                }
            }
        }
        // flips inside the excluded area are not signed bytes
        if let Some(e) = excl {
            flips.retain(|&p| {
                let b = (p / 8) as usize;
                !(b >= e && b < e + 72)
            });
        }
        out.push(Variant { len, excl, label, flips });
    }
    out
}

pub struct SigPrim {
    vars: Vec<Variant>,
    /// (variant, chunk) ; chunk == u32::MAX means the intact + signature-bits case
    cases: Vec<(u32, u32)>,
}
impl SigPrim {
    pub fn new(tier: Tier) -> SigPrim {
        let vars = variants(tier);
        let mut cases = vec![];
        for (vi, _) in vars.iter().enumerate() {
            cases.push((vi as u32, u32::MAX));
        }
        for (vi, v) in vars.iter().enumerate() {
            for c in 0..v.flips.len().div_ceil(CHUNK) {
                cases.push((vi as u32, c as u32));
            }
        }
        SigPrim { vars, cases }
    }
    pub fn axes(&self) -> Value {
        json!({"buffers": self.vars.len(), "buffer_lengths": self.vars.iter().map(|v| v.len).collect::<Vec<_>>(),
               "signed_bit_flips": self.vars.iter().map(|v| v.flips.len()).sum::<usize>(), "signature_bit_flips": self.vars.len() * 512})
    }
}

fn info(v: &Variant) -> SignatureInfo {
    let pos = v.excl.unwrap_or(v.len) as u64;
    SignatureInfo::new_weak(0, v.len as u64, pos, 72, vec![])
}

fn verify(buf: &[u8], sig: &[u8], v: &Variant) -> Result<bool, String> {
    match guarded(|| verify_weak_signature_stormlib(Cursor::new(buf), sig, &info(v))) {
        Ok(Ok(b)) => Ok(b),
        Ok(Err(e)) => Err(e.to_string()),
        Err((f, _, m)) => Err(format!("panic at {f}: {m}")),
    }
}

impl Space for SigPrim {
    fn len(&self) -> u64 {
        self.cases.len() as u64
    }
    fn describe(&self, i: u64) -> Value {
        let (vi, c) = self.cases[i as usize];
        let v = &self.vars[vi as usize];
        if c == u32::MAX {
            json!({"buffer": v.label, "length": v.len, "signature_area_at": v.excl, "what": "generate, verify intact, all 512 single-bit flips of the signature"})
        } else {
            let lo = c as usize * CHUNK;
            let hi = (lo + CHUNK).min(v.flips.len());
            json!({"buffer": v.label, "length": v.len, "signature_area_at": v.excl, "what": "single-bit flips of signed bytes",
                   "bit_positions": format!("{}..={}", v.flips[lo], v.flips[hi - 1]), "count": hi - lo})
        }
    }
    fn run(&self, i: u64) -> CaseResult {
        let (vi, c) = self.cases[i as usize];
        let v = &self.vars[vi as usize];
        let mut r = CaseResult::new();
        r.nontrivial = true;
        r.key = format!("sp{vi}/{c}");
        let mut buf = gen::content("incompressible", v.len, 512, 77 + vi as u64);
        if let Some(e) = v.excl {
            // the excluded area holds "some signature file": its content must not matter
            for b in buf[e..(e + 72).min(v.len)].iter_mut() {
                *b = 0xA5;
            }
        }
        let sigfile = match guarded(|| generate_weak_signature(Cursor::new(&buf), &info(v))) {
            Ok(Ok(s)) => s,
            Ok(Err(e)) => {
                r.viol("weak signature primitive: generate_weak_signature fails on a plain byte string", format!("len {}: {e}", v.len));
                return r;
            }
            Err((f, _, m)) => {
                r.viol("weak signature primitive: generate_weak_signature panics", format!("len {}: {f}: {m}", v.len));
                return r;
            }
        };
        let sig = match parse_weak_signature(&sigfile) {
            Ok(s) if sigfile.len() == 72 && s.len() == 64 => s,
            other => {
                r.viol("weak signature primitive: generated signature file is not parsable as a 72-byte weak signature", format!("len {} -> {:?}", sigfile.len(), other.map(|s| s.len())));
                return r;
            }
        };
        if c == u32::MAX {
            match verify(&buf, &sig, v) {
                Ok(true) => r.outcome.push_str("intact-verifies;"),
                other => r.viol("weak signature primitive: a signature produced by generate_weak_signature does not verify (verify_weak_signature_stormlib)", format!("buffer {:?}: {:?}", v.label, other)),
            }
            // changing the excluded area must not matter (it is where the signature itself lives)
            if let Some(e) = v.excl {
                let mut b2 = buf.clone();
                for b in b2[e..(e + 72).min(v.len)].iter_mut() {
                    *b ^= 0xFF;
                }
                match verify(&b2, &sig, v) {
                    Ok(true) => {}
                    other => r.viol("weak signature primitive: content of the excluded signature area changes the verdict", format!("buffer {:?}: {:?}", v.label, other)),
                }
            }
            // legacy entry point: hashes the first `archive_size` bytes, no excluded area
            if v.excl.is_none() {
                match guarded(|| verify_weak_signature(Cursor::new(&buf), &sig, v.len as u64)) {
                    Ok(Ok(true)) => r.outcome.push_str("legacy-verifies;"),
                    other => r.viol(
                        "weak signature primitive: legacy verify_weak_signature rejects a signature produced by generate_weak_signature",
                        format!("buffer {:?}: {:?}", v.label, other.map(|x| x.map_err(|e| e.to_string())).map_err(|p| p.2)),
                    ),
                }
            }
            let mut bad = 0u64;
            for bit in 0..512usize {
                let mut s2 = sig.clone();
                s2[bit / 8] ^= 1 << (bit % 8);
                match verify(&buf, &s2, v) {
                    Ok(true) => {
                        bad += 1;
                        if bad == 1 {
                            r.viol("weak signature primitive: still verifies after a single-bit change of the signature", format!("buffer {:?} signature bit {bit}", v.label));
                        }
                    }
                    Ok(false) => {}
                    Err(_) => r.count("verify_errors", 1),
                }
            }
            r.count("signature_bit_flips", 512);
            r.outcome.push_str("sigbits;");
        } else {
            let lo = c as usize * CHUNK;
            let hi = (lo + CHUNK).min(v.flips.len());
            let mut reported = false;
            for &p in &v.flips[lo..hi] {
                let (b, k) = ((p / 8) as usize, (p % 8) as u8);
                buf[b] ^= 1 << k;
                match verify(&buf, &sig, v) {
                    Ok(true) => {
                        if !reported {
                            r.viol("weak signature primitive: still verifies after a single-bit change of the signed bytes", format!("buffer {:?} byte {b} bit {k}", v.label));
                            reported = true;
                        }
                    }
                    Ok(false) => {}
                    Err(_) => r.count("verify_errors", 1),
                }
                buf[b] ^= 1 << k;
            }
            r.count("signed_bit_flips", (hi - lo) as u64);
            r.outcome.push_str("databits;");
        }
        r
    }
    fn case_timeout(&self) -> u64 {
        120
    }
}
