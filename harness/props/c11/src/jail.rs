//! Per-case jail: directory layout, recursive snapshot (observer i), running the real CLI
//! (optionally under strace = observer ii, optionally with dropped privileges).
use sha1::{Digest, Sha1};
use std::collections::BTreeMap;
use std::os::unix::process::{CommandExt, ExitStatusExt};
use std::path::{Path, PathBuf};
use std::process::{Command, Stdio};

pub const NOBODY: u32 = 65534;

/// directory chain between the jail root and the working area (output dir and cwd are 8 deep)
pub const DEEP: [&str; 7] = ["w", "1", "2", "3", "4", "5", "6"];

#[derive(Clone, Debug, PartialEq, Eq)]
pub enum Node {
    Dir,
    File { size: u64, sha1: String },
    Symlink(String),
    Other,
}

pub type Snapshot = BTreeMap<String, Node>;

pub fn sha1_hex(d: &[u8]) -> String {
    let mut h = Sha1::new();
    h.update(d);
    h.finalize().iter().map(|b| format!("{:02x}", b)).collect()
}

fn walk(root: &Path, dir: &Path, out: &mut Snapshot, contents: &mut BTreeMap<String, Vec<u8>>) {
    let Ok(rd) = std::fs::read_dir(dir) else { return };
    for e in rd.flatten() {
        let p = e.path();
        let rel = p.strip_prefix(root).unwrap().to_string_lossy().into_owned();
        let Ok(md) = std::fs::symlink_metadata(&p) else { continue };
        let ft = md.file_type();
        if ft.is_dir() {
            out.insert(rel, Node::Dir);
            walk(root, &p, out, contents);
        } else if ft.is_symlink() {
            out.insert(rel, Node::Symlink(std::fs::read_link(&p).map(|t| t.to_string_lossy().into_owned()).unwrap_or_default()));
        } else if ft.is_file() {
            let data = std::fs::read(&p).unwrap_or_default();
            out.insert(rel.clone(), Node::File { size: md.len(), sha1: sha1_hex(&data) });
            if data.len() <= 256 {
                contents.insert(rel, data);
            }
        } else {
            out.insert(rel, Node::Other);
        }
    }
}

/// (path relative to the jail root -> node, small file contents for token attribution)
pub fn snapshot(root: &Path) -> (Snapshot, BTreeMap<String, Vec<u8>>) {
    let mut s = Snapshot::new();
    let mut c = BTreeMap::new();
    walk(root, root, &mut s, &mut c);
    (s, c)
}

pub struct Jail {
    pub root: PathBuf,
    pub out_rel: String,
    pub cwd_rel: String,
    pub home_rel: String,
    pub anchor: String,
}

impl Jail {
    pub fn out_abs(&self) -> PathBuf {
        self.root.join(&self.out_rel)
    }
    pub fn cwd_abs(&self) -> PathBuf {
        self.root.join(&self.cwd_rel)
    }
    pub fn home_abs(&self) -> PathBuf {
        self.root.join(&self.home_rel)
    }
}

fn chown_tree(p: &Path, uid: u32) {
    let _ = std::os::unix::fs::lchown(p, Some(uid), Some(uid));
    if let Ok(md) = std::fs::symlink_metadata(p) {
        if md.is_dir() {
            if let Ok(rd) = std::fs::read_dir(p) {
                for e in rd.flatten() {
                    chown_tree(&e.path(), uid);
                }
            }
        }
    }
}

/// Create the jail skeleton. The output directory itself is NOT created (the tool creates it).
pub fn build(root: &Path) -> Jail {
    build_with_out(root, "out")
}
/// ... with another name for the output directory (the name may hold characters that are separators in
/// archive entry names but ordinary characters in a directory name, e.g. a backslash)
pub fn build_with_out(root: &Path, out_leaf: &str) -> Jail {
    let _ = std::fs::remove_dir_all(root);
    let deep = DEEP.join("/");
    let j = Jail {
        root: root.to_path_buf(),
        out_rel: format!("{}/{}", deep, out_leaf),
        cwd_rel: format!("{}/cwd", deep),
        home_rel: "home".to_string(),
        anchor: format!("{}/{}", root.display(), crate::names::ANCHOR_REL.join("/")),
    };
    std::fs::create_dir_all(j.cwd_abs()).expect("jail cwd");
    std::fs::create_dir_all(root.join("in")).expect("jail in");
    for d in [".config", ".cache", ".local/share", ".local/state", "run", "tmp"] {
        std::fs::create_dir_all(j.home_abs().join(d)).expect("jail home");
    }
    // bystander files that must survive untouched
    std::fs::write(root.join(".sentinel"), b"sentinel-root\n").unwrap();
    std::fs::write(root.join(&deep).join(".sentinel"), b"sentinel-deep\n").unwrap();
    std::fs::write(j.cwd_abs().join(".sentinel"), b"sentinel-cwd\n").unwrap();
    j
}

#[derive(Clone, Debug)]
pub struct Runner {
    pub cli: String,
    pub strace: bool,
    /// Some(uid) = run the tool (and strace) as this unprivileged user
    pub drop_to: Option<u32>,
}

pub struct RunOut {
    pub code: Option<i32>,
    pub signal: Option<i32>,
    pub stderr: String,
    pub trace_log: Option<String>,
    pub spawn_error: Option<String>,
}

impl Runner {
    /// Decide how the tool is run on this machine. Errors are machinery failures.
    pub fn detect(want_strace: bool) -> Result<Runner, String> {
        let cli = std::env::var("VERIF_CLI").ok().filter(|s| !s.is_empty()).unwrap_or_else(|| "/verif/.target/repo-cli/debug/warcraft-rs".to_string());
        if !Path::new(&cli).is_file() {
            return Err(format!("CLI binary {} does not exist (build it: cd /repo && CARGO_TARGET_DIR=/verif/.target/repo-cli cargo build --offline -p warcraft-rs)", cli));
        }
        let root = unsafe { libc::geteuid() } == 0;
        let mut r = Runner { cli, strace: false, drop_to: if root { Some(NOBODY) } else { None } };
        // trial: the binary must run under the chosen identity
        let mut c = Command::new(&r.cli);
        c.arg("--version").stdin(Stdio::null()).stdout(Stdio::null()).stderr(Stdio::null()).env_clear();
        if let Some(u) = r.drop_to {
            c.uid(u).gid(u);
        }
        match c.status() {
            Ok(s) if s.success() => {}
            other => {
                return Err(format!(
                    "CLI trial run{} failed: {:?}; refusing to run adversarial extractions with full privileges",
                    if root { " as the unprivileged user" } else { "" },
                    other
                ))
            }
        }
        if want_strace {
            let mut c = Command::new("strace");
            c.args(["-f", "-y", "-qq", "-o", "/dev/null", "-e", &format!("trace={}", crate::trace::TRACE_SET), "--"])
                .arg(&r.cli)
                .arg("--version")
                .stdin(Stdio::null())
                .stdout(Stdio::null())
                .stderr(Stdio::null())
                .env_clear()
                .env("PATH", "/usr/bin:/bin");
            if let Some(u) = r.drop_to {
                c.uid(u).gid(u);
            }
            r.strace = matches!(c.status(), Ok(s) if s.success());
        }
        Ok(r)
    }

    /// Run `cli mpq extract ...` inside the jail. `trace_path` = where strace writes its log.
    pub fn run(&self, jail: &Jail, args: &[String], trace_path: Option<&Path>) -> RunOut {
        if let Some(u) = self.drop_to {
            chown_tree(&jail.root, u);
        }
        let home = jail.home_abs();
        let mut c = if let (true, Some(tp)) = (self.strace, trace_path) {
            let mut c = Command::new("strace");
            c.args(["-f", "-y", "-qq", "-s", "8192", "-o"]).arg(tp).args(["-e", &format!("trace=execve,{}", crate::trace::TRACE_SET), "--"]).arg(&self.cli);
            c
        } else {
            Command::new(&self.cli)
        };
        c.args(args)
            .current_dir(jail.cwd_abs())
            .stdin(Stdio::null())
            .stdout(Stdio::null())
            .stderr(Stdio::piped())
            .env_clear()
            .env("PATH", "/usr/bin:/bin")
            .env("HOME", &home)
            .env("XDG_CONFIG_HOME", home.join(".config"))
            .env("XDG_CACHE_HOME", home.join(".cache"))
            .env("XDG_DATA_HOME", home.join(".local/share"))
            .env("XDG_STATE_HOME", home.join(".local/state"))
            .env("XDG_RUNTIME_DIR", home.join("run"))
            .env("TMPDIR", home.join("tmp"))
            .env("LANG", "C.UTF-8")
            .env("NO_COLOR", "1")
            .env("RUST_BACKTRACE", "0")
            .env("TOKIO_WORKER_THREADS", "2")
            .env("RAYON_NUM_THREADS", "2");
        if let Some(u) = self.drop_to {
            c.uid(u).gid(u);
        }
        match c.output() {
            Ok(o) => {
                let log = trace_path.filter(|_| self.strace).and_then(|p| std::fs::read(p).ok()).map(|b| String::from_utf8_lossy(&b).into_owned());
                if let Some(p) = trace_path {
                    let _ = std::fs::remove_file(p);
                }
                RunOut {
                    code: o.status.code(),
                    signal: o.status.signal(),
                    stderr: String::from_utf8_lossy(&o.stderr).chars().take(600).collect(),
                    trace_log: log,
                    spawn_error: None,
                }
            }
            Err(e) => RunOut { code: None, signal: None, stderr: String::new(), trace_log: None, spawn_error: Some(e.to_string()) },
        }
    }
}
