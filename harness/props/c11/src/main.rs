//! C11 — extraction with the command-line tool never writes outside the chosen output directory.
//!
//! Bounded exhaustive exploration: every entry name of a small grammar (components `..`, `.`,
//! empty, plain, drive-like, reserved, long, unicode, blank; both separators; rooted / drive
//! prefixes) x preserve-paths on/off x patch chain on/off x whole-archive / explicit names.
//! Each case writes its own archive(s) with the independent `refimpl::mpqref` writer (the real
//! builder normalises names), runs the REAL `warcraft-rs mpq extract` binary inside a fresh jail
//! and judges containment with two observers: (i) a recursive before/after snapshot of the jail,
//! (ii) the strace log of every mutating path-taking system call.
mod jail;
mod names;
mod trace;

use jail::{Node, Runner};
use names::NameSpec;
use refimpl::mpqref::{self, WFile, WOptions};
use serde_json::{json, Value};
use vcore::*;

const BENIGN_BASE: &str = "keep\\ok.bin";
const BENIGN_PATCH: &str = "keep\\two.bin";

struct Extract {
    space: &'static str,
    names: Vec<NameSpec>,
    out_relative: bool,
    /// name of the requested output directory (last path component)
    out_leaf: &'static str,
    /// strace every case (true) or only the representative subset: names of <= 2 components (false)
    trace_all: bool,
    /// thorough tier: the subset also holds the 3-component names over the core alphabet
    trace_core3: bool,
    runner: Runner,
    scratch: Scratch,
}

#[derive(Clone, Copy)]
struct ModeBits {
    explicit: bool,
    chain: bool,
    preserve: bool,
}

impl Extract {
    fn new(space: &'static str, names: Vec<NameSpec>, out_relative: bool, trace_all: bool, trace_core3: bool) -> Extract {
        let want_strace = std::env::var("C11_STRACE").map(|v| v != "none").unwrap_or(true);
        let runner = match Runner::detect(want_strace) {
            Ok(r) => r,
            Err(e) => {
                eprintln!("MACHINERY-ERROR: {e}");
                std::process::exit(2);
            }
        };
        let scratch = Scratch::new(&format!("c11-{space}"));
        let logs = scratch.path("logs");
        std::fs::create_dir_all(&logs).expect("logs dir");
        if let Some(u) = runner.drop_to {
            let _ = std::os::unix::fs::chown(&logs, Some(u), Some(u));
        }
        let trace_all = match std::env::var("C11_STRACE").as_deref() {
            Ok("all") => true,
            Ok("subset") => false,
            _ => trace_all,
        };
        Extract { space, names, out_relative, out_leaf: "out", trace_all, trace_core3, runner, scratch }
    }
    fn decode(&self, i: u64) -> (ModeBits, &NameSpec) {
        let d = gen::mixed_radix(i, &[2, 2, 2, self.names.len() as u64]);
        (ModeBits { explicit: d[0] == 1, chain: d[1] == 1, preserve: d[2] == 1 }, &self.names[d[3] as usize])
    }
}

fn mode_class(m: ModeBits) -> String {
    format!(
        "{} ({})",
        if m.preserve { "--preserve-paths" } else { "without --preserve-paths" },
        if m.chain { "patch chain" } else { "single archive" }
    )
}

fn under(path: &str, dir: &str) -> bool {
    path == dir || (path.starts_with(dir) && path.as_bytes().get(dir.len()) == Some(&b'/'))
}

impl Space for Extract {
    fn len(&self) -> u64 {
        8 * self.names.len() as u64
    }
    fn describe(&self, i: u64) -> Value {
        let (m, spec) = self.decode(i);
        json!({
            "space": self.space,
            "name": spec.pattern(),
            "name_class": spec.class(),
            "prefix": names::PREFIXES[spec.prefix],
            "leading_run": spec.lead_text(),
            "components": spec.comps.len(),
            "preserve": m.preserve,
            "chain": m.chain,
            "select": if m.explicit { "explicit-names" } else { "whole-archive" },
            "output": if self.out_relative { "relative" } else { "absolute" },
            "output_directory_name": self.out_leaf,
        })
    }
    fn case_timeout(&self) -> u64 {
        120
    }
    fn run(&self, i: u64) -> CaseResult {
        let (m, spec) = self.decode(i);
        let mut r = CaseResult::new();
        r.key = format!("{}|{}|{}|{}|{}", self.space, spec.pattern(), m.preserve, m.chain, m.explicit);

        // ---- jail and inputs
        let root = self.scratch.path(&format!("j{i}"));
        let j = jail::build_with_out(&root, self.out_leaf);
        let name = spec.concrete(&j.anchor);
        let tok_adv0 = format!("C11-ADV-BASE-{i:010}-{:016x}\n", hash_str(&name));
        let tok_adv1 = format!("C11-ADV-PATCH-{i:010}-{:016x}\n", hash_str(&name));
        let tok_ben0 = format!("C11-BENIGN-BASE-{i:010}\n");
        let tok_ben1 = format!("C11-BENIGN-PATCH-{i:010}\n");
        let mk = |n: &str, t: &str| WFile { name: n.as_bytes().to_vec(), data: t.as_bytes().to_vec(), method: 0, encrypt: false, fix_key: false, single_unit: false, raw_flags: 0, in_listfile: true };
        let base = mpqref::write(&[mk(&name, &tok_adv0), mk(BENIGN_BASE, &tok_ben0)], &WOptions::default()).expect("mpqref base");
        let base_path = root.join("in/base.mpq");
        std::fs::write(&base_path, &base).expect("write base");
        let patch_path = root.join("in/patch.mpq");
        if m.chain {
            let patch = mpqref::write(&[mk(&name, &tok_adv1), mk(BENIGN_PATCH, &tok_ben1)], &WOptions::default()).expect("mpqref patch");
            std::fs::write(&patch_path, &patch).expect("write patch");
        }
        let out_abs = j.out_abs().to_string_lossy().into_owned();
        let out_arg = if self.out_relative { format!("../{}", self.out_leaf) } else { out_abs.clone() };
        let mut args: Vec<String> = vec!["mpq".into(), "extract".into(), "--output".into(), out_arg, "--skip-errors".into()];
        if m.preserve {
            args.push("--preserve-paths".into());
        }
        if m.chain {
            args.push("--patch".into());
            args.push(patch_path.to_string_lossy().into_owned());
        }
        args.push("--".into());
        args.push(base_path.to_string_lossy().into_owned());
        if m.explicit {
            args.push(name.clone());
            args.push(BENIGN_BASE.to_string());
        }

        // ---- run between two snapshots
        let (before, _) = jail::snapshot(&root);
        let core_only = spec.comps.iter().all(|&c| names::CORE.contains(&names::FULL[c]));
        // the descend-then-climb names are few: all of them are traced
        let climber = spec.prefix == 0 && spec.comps.len() >= 4 && spec.comps[..spec.comps.len() - 1].iter().all(|&c| matches!(names::FULL[c], ".." | "a"));
        let traced = self.runner.strace && (self.trace_all || spec.comps.len() <= 2 || climber || (self.trace_core3 && spec.comps.len() == 3 && core_only));
        let log_path = self.scratch.path(&format!("logs/t{i}.log"));
        let ro = self.runner.run(&j, &args, if traced { Some(log_path.as_path()) } else { None });
        let (after, contents) = jail::snapshot(&root);
        r.count("cli_runs", 1);
        if let Some(e) = &ro.spawn_error {
            r.viol("machinery: the command-line tool could not be started", e.clone());
            let _ = std::fs::remove_dir_all(&root);
            return r;
        }

        // ---- observer (i): snapshot difference outside out/ and the tool-state directory
        let allowed_rel = |p: &str| under(p, &j.out_rel) || under(p, &j.home_rel);
        let mut created: Vec<String> = vec![];
        let mut damaged: Vec<String> = vec![];
        for (p, n) in &after {
            if allowed_rel(p) {
                continue;
            }
            match before.get(p) {
                None => created.push(p.clone()),
                Some(b) if b != n => damaged.push(format!("{p} (modified)")),
                _ => {}
            }
        }
        for p in before.keys() {
            if !allowed_rel(p) && !after.contains_key(p) {
                damaged.push(format!("{p} (removed)"));
            }
        }
        // where did the content tokens land?
        let mut adv_in = 0;
        let mut adv_out: Vec<String> = vec![];
        let mut ben_in = 0;
        let mut ben_out = 0;
        for (p, data) in &contents {
            if under(p, "in") {
                continue;
            }
            let is_adv = data == tok_adv0.as_bytes() || data == tok_adv1.as_bytes();
            let is_ben = data == tok_ben0.as_bytes() || data == tok_ben1.as_bytes();
            if is_adv {
                if under(p, &j.out_rel) { adv_in += 1 } else { adv_out.push(p.clone()) }
            }
            if is_ben {
                if under(p, &j.out_rel) { ben_in += 1 } else { ben_out += 1 }
            }
        }
        let files_in_out = after.iter().filter(|(p, n)| under(p, &j.out_rel) && matches!(n, Node::File { .. })).count();

        // ---- observer (ii): syscall trace
        let mut trace_outside: Vec<String> = vec![];
        let mut trace_seen = false;
        if traced {
            match &ro.trace_log {
                Some(log) => {
                    let p = trace::parse(log, &j.cwd_abs().to_string_lossy());
                    if !p.saw_exec {
                        r.viol("machinery: strace log unusable (no execve recorded)", format!("{} lines", p.lines));
                    } else {
                        trace_seen = true;
                        r.count("traced_runs", 1);
                        r.count("traced_mutating_calls", p.mutations.len() as u64);
                        let home_abs = j.home_abs().to_string_lossy().into_owned();
                        for mu in &p.mutations {
                            let ok_place = under(&mu.path, &out_abs) || under(&mu.path, &home_abs) || (mu.path.starts_with("/dev/") && !mu.path.starts_with("/dev/shm/")) || mu.path.starts_with("/proc/");
                            if ok_place {
                                continue;
                            }
                            if mu.ok {
                                trace_outside.push(format!("{}({})", mu.call, mu.path));
                            } else if matches!(mu.errno.as_str(), "EACCES" | "EPERM" | "EROFS") {
                                r.count("denied_mutations_outside_output", 1);
                            }
                        }
                        if !p.unparsed.is_empty() {
                            r.viol("machinery: strace line with a mutating call could not be parsed", p.unparsed[0].clone());
                        }
                    }
                }
                None => r.viol("machinery: strace log missing", format!("{}", log_path.display())),
            }
        }

        if std::env::var("C11_DEBUG").is_ok() {
            eprintln!("name={:?}\nargs={:?}\nexit={:?} signal={:?}\nstderr={}\ncreated={:?}\ndamaged={:?}\nadv_in={} adv_out={:?} ben_in={} files_in_out={}\ntrace_outside={:?}", name, args, ro.code, ro.signal, ro.stderr, created, damaged, adv_in, adv_out, ben_in, files_in_out, trace_outside);
            for (p, n) in &after {
                if !before.contains_key(p) {
                    eprintln!("  new: {p} {:?}", n);
                }
            }
            if let Some(l) = &ro.trace_log {
                eprintln!("--- strace log\n{l}");
            }
        }
        // ---- verdict
        let mc = mode_class(m);
        let ctx = |extra: &str| {
            format!(
                "{extra}; entry name {:?}; args {:?}; cwd {}; exit {:?} signal {:?}; stderr: {}",
                name,
                &args[2..],
                j.cwd_abs().display(),
                ro.code,
                ro.signal,
                ro.stderr.replace('\n', " | ").chars().take(300).collect::<String>()
            )
        };
        if !created.is_empty() {
            let shown: Vec<&String> = created.iter().take(6).collect();
            let confirm = if trace_seen { format!("; syscall trace: {} successful mutating call(s) outside, e.g. {:?}", trace_outside.len(), trace_outside.last()) } else { String::new() };
            r.viol(
                format!("extract {mc}: {} written outside the output directory", spec.class()),
                ctx(&format!("created outside {} (jail-relative): {:?}; adversarial content found at {:?}{}", j.out_rel, shown, adv_out, confirm)),
            );
            if trace_seen && trace_outside.is_empty() {
                r.viol("observer disagreement: snapshot shows an escape that the syscall trace lacks", ctx(&format!("created {:?}", shown)));
            }
        } else if !trace_outside.is_empty() {
            r.viol(
                format!("extract {mc}: {}: mutating system call outside the output directory (seen only in the syscall trace)", spec.class()),
                ctx(&format!("calls: {:?}", trace_outside.iter().take(6).collect::<Vec<_>>())),
            );
        }
        if !damaged.is_empty() {
            r.viol(format!("extract {mc}: bystander file outside the output directory modified or removed"), ctx(&format!("{:?}", damaged)));
        }

        // ---- bookkeeping
        let wrote_adv = adv_in > 0 || !adv_out.is_empty();
        r.nontrivial = wrote_adv;
        if files_in_out == 0 && created.is_empty() {
            r.err_return = true; // the tool refused / extracted nothing: acceptable
        }
        let exit = match (ro.code, ro.signal) {
            (Some(0), _) => "exit0",
            (Some(_), _) => "exit-nonzero",
            (None, _) => "signal",
        };
        r.outcome = format!(
            "{exit} adv={} benign={}",
            if !adv_out.is_empty() { "outside" } else if adv_in > 0 { "inside" } else { "nowhere" },
            if ben_out > 0 { "outside" } else if ben_in > 0 { "inside" } else { "nowhere" }
        );
        r.count(&format!("outcome[{}]", r.outcome), 1);
        let state_new = after.keys().filter(|p| under(p, &j.home_rel) && !before.contains_key(*p)).count();
        if state_new > 0 {
            r.count("tool_state_entries_created_under_home", state_new as u64);
        }
        if !created.is_empty() {
            r.count(&format!("escapes[{mc}]"), 1);
        }
        if adv_in > 0 {
            r.count("adversarial_entry_written_inside_output", 1);
        }
        if !adv_out.is_empty() {
            r.count("adversarial_entry_written_outside_output", 1);
        }
        if ro.code != Some(0) {
            r.count("nonzero_exit", 1);
        }
        if std::env::var("C11_KEEP").is_err() {
            let _ = std::fs::remove_dir_all(&root);
        }
        r
    }
}

fn sizes(tier: Tier) -> ((usize, usize), (usize, usize)) {
    // (full_n, core_n) for the main grammar space and for the relative-output space
    match tier {
        Tier::Quick => ((2, 3), (1, 2)),
        Tier::Thorough => ((3, 4), (2, 3)),
    }
}

/// the bounded grammar plus the descend-then-climb names beyond its length bound plus the names
/// behind a run of 2..3 leading separators (each family appended, so that the indices of the
/// earlier names do not move)
fn grammar_names(tier: Tier) -> Vec<names::NameSpec> {
    let (g, _) = sizes(tier);
    let mut v = names::enumerate(g.0, g.1);
    let (lo, hi) = climb_sizes(tier);
    v.extend(names::climbers(lo, hi));
    v.extend(names::lead_runs(run_bounds(tier).0));
    v
}
fn relout_names(tier: Tier) -> Vec<names::NameSpec> {
    let (_, rel) = sizes(tier);
    let mut v = names::enumerate(rel.0, rel.1);
    v.extend(names::lead_runs(run_bounds(tier).1));
    v
}
/// bounds of the leading-separator-run names for the space `grammar` and the space `relout`
fn run_bounds(tier: Tier) -> (names::RunBound, names::RunBound) {
    use names::RunBound;
    match tier {
        Tier::Quick => (RunBound { full_n: 1, core_n: 2, drive_n: 1, free_gaps: false }, RunBound { full_n: 0, core_n: 1, drive_n: 1, free_gaps: false }),
        Tier::Thorough => (RunBound { full_n: 2, core_n: 2, drive_n: 2, free_gaps: true }, RunBound { full_n: 1, core_n: 1, drive_n: 1, free_gaps: true }),
    }
}
fn run_bound_text(b: names::RunBound) -> String {
    let body = if b.core_n > b.full_n {
        format!("bodies <= {} full / {} core", b.full_n, b.core_n)
    } else {
        format!("bodies <= {} full", b.full_n)
    };
    format!(
        "{body} components, body separators {}, `C:` before the run for bodies <= {} components",
        if b.free_gaps { "chosen independently" } else { "equal to the last separator of the run" },
        b.drive_n
    )
}
fn climb_sizes(tier: Tier) -> (usize, usize) {
    match tier {
        Tier::Quick => (3, 4),
        Tier::Thorough => (4, 6),
    }
}

fn build(name: &str, _arg: &str, tier: Tier) -> Box<dyn Space> {
    match name {
        "grammar" => Box::new(Extract::new("grammar", grammar_names(tier), false, false, tier == Tier::Thorough)),
        "relout" => Box::new(Extract::new("relout", relout_names(tier), true, true, true)),
        // an output directory whose own name holds a backslash (a separator in entry names, an ordinary character
        // in a directory name): absolute and relative, every single-component name and the core two-component ones
        "oddout" => {
            let mut e = Extract::new("oddout", names::enumerate(1, 2), false, true, true);
            e.out_leaf = "o\\ut";
            Box::new(e)
        }
        "oddout_rel" => {
            let mut e = Extract::new("oddout_rel", names::enumerate(1, 1), true, true, true);
            e.out_leaf = "o\\ut";
            Box::new(e)
        }
        _ => panic!("space {name}"),
    }
}

fn main() {
    let argv: Vec<String> = std::env::args().collect();
    if argv.get(1).map(|s| s.as_str()) == Some("--repro") {
        // stand-alone reproduction of the known escapes: prints the command line, the exit status
        // and every path the tool created, for four minimal cases
        std::env::set_var("C11_DEBUG", "1");
        std::env::set_var("C11_STRACE", "none");
        let sp = Extract::new("grammar", names::enumerate(2, 3), false, false, false);
        for pat in ["..\\B.txt", "\\<ANCHOR>\\B.txt"] {
            let k = sp.names.iter().position(|n| n.pattern() == pat).expect("name in grammar") as u64;
            for mode in [4u64, 6] {
                let i = k * 8 + mode;
                eprintln!("=== case {} {}", i, sp.describe(i));
                let r = sp.run(i);
                for v in &r.viols {
                    eprintln!("VIOLATION: {}", v.symptom);
                }
            }
        }
        return;
    }
    if argv.get(1).map(|s| s.as_str()) == Some("--list-names") {
        let t = if argv.get(2).map(|s| s.as_str()) == Some("thorough") { Tier::Thorough } else { Tier::Quick };
        let (g, _) = sizes(t);
        let _ = g;
        for (k, n) in grammar_names(t).iter().enumerate() {
            println!("{k}\t{}\t{}", n.class(), n.pattern());
        }
        return;
    }
    let Mode::Supervisor(mut c) = start("C11", "exploration", build) else { return };
    let runner = match Runner::detect(true) {
        Ok(r) => r,
        Err(e) => {
            eprintln!("MACHINERY-ERROR: {e}");
            std::process::exit(2);
        }
    };
    let (g, rel) = sizes(c.tier);
    c.assumptions.clear();
    c.assume(format!("subject: the real CLI binary {} (dev profile, built from /repo's working tree by ./check); archives are written by the independent refimpl::mpqref writer, which does not normalise names", runner.cli));
    c.assume("the tool runs with cwd and --output 8 directories deep inside a fresh per-case jail under a vcore::Scratch directory; HOME, XDG_* and TMPDIR point at <jail>/home, which counts as tool state and is not judged; TOKIO_WORKER_THREADS=2, RAYON_NUM_THREADS=2, RUST_BACKTRACE=0 only bound start-up cost");
    c.assume("rooted names (one leading separator or a run of 2..3 of them) are always rooted at <jail>/abs/d1/d2/d3/d4 and a name holds at most 4 `..`, fewer than the depth of out/, cwd and the anchor: an escaping write lands inside the jail where the snapshot sees it");
    c.assume(match runner.drop_to {
        Some(u) => format!("when started as root the tool (and strace) run as uid/gid {u} with the jail chown'ed to that user, so a write that would leave the scratch directory is denied by the OS instead of damaging the machine; denied attempts are counted, not judged"),
        None => "started unprivileged: the tool runs under the invoking user".to_string(),
    });
    c.assume("only containment is judged: any exit status, refusal or partial extraction is acceptable; creation of the output directory itself is allowed; directories created outside out/ count as writes outside");
    if !runner.strace {
        eprintln!("warning: strace is not usable here; only the snapshot observer decides");
        c.assume("strace unavailable on this machine: observer (ii) did not run");
    } else {
        c.assume("observer (ii) on every case of `relout` and, in `grammar`, on every name of <= 2 components and every descend-then-climb name (thorough: also every 3-component name over the core alphabet): strace -f -y restricted to mutating path-taking calls; only calls that succeeded are judged (paths normalised lexically, the jail holds no symlinks); allowed targets: out/, <jail>/home, /dev (devices, not /dev/shm), /proc");
    }
    c.rule = format!(
        "case = (entry name, preserve-paths, patch chain, selection); names = prefix x body, body = components joined by independently chosen separators; space `grammar` (absolute --output): every body of <= {} components over the full 10-class alphabet plus every body of {} components over the core alphabet {{.., a, empty, B.txt}}, x 6 prefixes (empty first component only behind a rooted prefix), plus the descend-then-climb names {{.., a}}^k B.txt for k = {}..{} (at most 4 `..`, all-backslash and all-slash, no prefix); leading-separator runs: every name [`C:`] run <ANCHOR> body whose run is 2 or 3 separators in every mix of `\\` and `/` (12 runs: `\\\\`, `//`, `\\/`, `/\\`, `\\\\\\`, ..., `///`), the anchor being an absolute path inside the jail spelled with the last separator of the run (a name that is still absolute after ONE leading separator is stripped), {}; space `relout` (relative --output ../out): bodies <= {} full / {} core, leading-separator runs with {}; spaces `oddout` / `oddout_rel`: the requested output directory is named `o\\ut` (absolute / relative), bodies <= 1 full / 2 core; one adversarial + one benign entry per archive (patch chain: base and patch both carry the adversarial name, distinct tokens). Non-trivial = the tool materialised the adversarial entry somewhere (its unique content token was found on disk); distinct by (space, name, modes). err_return = nothing was extracted at all (refusal).",
        g.0,
        g.1,
        climb_sizes(c.tier).0,
        climb_sizes(c.tier).1,
        run_bound_text(run_bounds(c.tier).0),
        rel.0,
        rel.1,
        run_bound_text(run_bounds(c.tier).1)
    );
    // the binary is shared with other checks and rebuilt by ./check: it must not change under us
    let stamp = |p: &str| std::fs::metadata(p).ok().map(|m| (m.len(), m.modified().ok()));
    let stamp0 = stamp(&runner.cli);
    c.run_space("grammar", "");
    c.run_space("oddout", "");
    c.run_space("oddout_rel", "");
    c.run_space("relout", "");
    if stamp(&runner.cli) != stamp0 {
        c.machinery_errors.push(format!("the CLI binary {} was replaced while the check was running; results mix two builds", runner.cli));
    }
    let ng = names::enumerate(g.0, g.1);
    let nr = names::enumerate(rel.0, rel.1);
    c.extra_cov.insert(
        "axes".into(),
        json!({
            "component_classes_full": names::FULL.len(), "component_classes_core": names::CORE.len(), "separators": 2, "prefixes": names::PREFIXES.len(),
            "names_grammar": ng.len(), "names_relout": nr.len(),
            "leading_separator_runs": names::runs().len(),
            "names_leading_runs_grammar": names::lead_runs(run_bounds(c.tier).0).len(),
            "names_leading_runs_relout": names::lead_runs(run_bounds(c.tier).1).len(),
            "names_climbers_grammar": names::climbers(climb_sizes(c.tier).0, climb_sizes(c.tier).1).len(),
            "names_by_class_grammar": {
                "rooted": ng.iter().filter(|n| n.class().starts_with("rooted")).count(),
                "dotdot": ng.iter().filter(|n| n.class().contains("(..)")).count(),
                "drive": ng.iter().filter(|n| n.class().starts_with("drive")).count(),
                "plain": ng.iter().filter(|n| n.class().contains("without root")).count(),
            },
            "max_components": g.1, "preserve_paths": 2, "patch_chain": 2, "selection": 2, "output_form": 2,
        }),
    );
    c.extra_cov.insert("completed_deviation_bound".into(), json!(format!("<= {} components (full alphabet), {} components (core alphabet)", g.0, g.1)));
    c.extra_cov.insert("observers".into(), json!({"snapshot": true, "strace": runner.strace, "privilege_drop": runner.drop_to.is_some()}));
    c.finish();
}
