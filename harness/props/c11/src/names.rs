//! Entry-name grammar of C11 (DESIGN.md, section C11, alphabet A).
//!
//! name   := prefix body
//! body   := comp (sep comp){0..n-1}            n = number of components
//! comp   ∈ FULL (10 component classes) or CORE (4 classes, used for the longest names)
//! sep    ∈ { '\', '/' }   chosen independently for every gap
//! prefix ∈ PREFIXES (6): none | `\`ANCHOR`\` | `/`ANCHOR`/` | `C:` | `C:\`ANCHOR`\` | `C:/`ANCHOR`/`
//!
//! Leading-separator runs (`lead_runs`): prefix := [`C:`] run ANCHOR' last(run), run ∈ {`\`,`/`}^2 ∪
//! {`\`,`/`}^3 (all 12 mixes: `\\`, `//`, `\/`, `/\`, `\\\`, ... = UNC style / empty leading components),
//! ANCHOR' = the anchor spelled with the last separator of the run.  A tool that strips ONE
//! leading separator still holds an absolute path that points at the anchor inside the jail.
//!
//! SAFETY of the grammar: a *rooted* name (leading separator, with or without a drive letter) is
//! always rooted at ANCHOR, a directory that lies deep inside the per-case jail, so that a tool
//! that honours (or strips down to) the root writes inside the scratch directory.  For the two
//! prefixes that do not insert the anchor the first component is never empty (an empty first
//! component *is* a leading separator).  The number of `..` is at most the number of components
//! (<= 4), less than the depth of the output directory, the working directory and the anchor
//! inside the jail (>= 6).

pub const FULL: [&str; 10] = ["..", "a", "", ".", "B.txt", "C:", "con", "<x*251>", "\u{fc}", " "];
pub const CORE: [&str; 4] = ["..", "a", "", "B.txt"];
pub const SEPS: [char; 2] = ['\\', '/'];
pub const PREFIXES: [&str; 8] = ["none", "root-backslash", "root-slash", "drive", "drive-root-backslash", "drive-root-slash", "root-run", "drive-root-run"];
/// the prefixes of the base grammar (`enumerate`); the two `-run` prefixes belong to `lead_runs`
pub const BASE_PREFIXES: usize = 6;
pub const P_RUN: usize = 6;
pub const P_DRIVE_RUN: usize = 7;
/// lengths of the leading-separator runs of `lead_runs`
pub const RUN_LENS: [usize; 2] = [2, 3];

/// directories below the jail root at which rooted names are anchored
pub const ANCHOR_REL: [&str; 5] = ["abs", "d1", "d2", "d3", "d4"];

#[derive(Clone, Debug)]
pub struct NameSpec {
    pub prefix: usize,
    /// the leading-separator run (indices into SEPS, 2 or 3 of them) of the `-run` prefixes, else empty
    pub lead: Vec<usize>,
    /// component classes (indices into FULL)
    pub comps: Vec<usize>,
    /// separators between components (indices into SEPS), len = comps.len()-1
    pub seps: Vec<usize>,
}

fn comp_text(c: usize) -> String {
    if FULL[c] == "<x*251>" {
        "x".repeat(251)
    } else {
        FULL[c].to_string()
    }
}

impl NameSpec {
    pub fn rooted(&self) -> bool {
        matches!(self.prefix, 1 | 2 | 4 | 5 | P_RUN | P_DRIVE_RUN)
    }
    pub fn drive(&self) -> bool {
        matches!(self.prefix, 3 | 4 | 5 | P_DRIVE_RUN)
    }
    /// the leading run as text (`\/\`), empty for the base prefixes
    pub fn lead_text(&self) -> String {
        self.lead.iter().map(|&k| SEPS[k]).collect()
    }
    pub fn dotdots(&self) -> usize {
        self.comps.iter().filter(|&&c| FULL[c] == "..").count()
    }
    /// stable class used in symptom strings
    pub fn class(&self) -> &'static str {
        if self.prefix == 1 || self.prefix == 2 {
            "rooted entry name (leading separator)"
        } else if self.prefix == P_RUN {
            "entry name with a run of two or more leading separators"
        } else if self.dotdots() > 0 {
            "entry name with parent-directory (..) components"
        } else if self.drive() {
            "drive-prefixed entry name"
        } else {
            "entry name without root, drive or parent-directory components"
        }
    }
    /// readable, jail-independent rendering (the anchor is shown symbolically)
    pub fn pattern(&self) -> String {
        self.render("<ANCHOR>", true)
    }
    /// the concrete archive entry name; `anchor` is the absolute anchor directory of this case
    pub fn concrete(&self, anchor: &str) -> String {
        self.render(anchor, false)
    }
    fn render(&self, anchor: &str, symbolic: bool) -> String {
        let mut s = String::new();
        let psep = match self.prefix {
            1 | 4 => Some('\\'),
            2 | 5 => Some('/'),
            P_RUN | P_DRIVE_RUN => Some(SEPS[*self.lead.last().expect("run prefix without run")]),
            _ => None,
        };
        if self.drive() {
            s.push_str("C:");
        }
        if let Some(ps) = psep {
            // what stands before the first anchor component: one separator, or the whole run
            let head = if self.lead.is_empty() { ps.to_string() } else { self.lead_text() };
            s.push_str(&head);
            if symbolic {
                s.push_str(anchor);
            } else {
                // anchor is an absolute unix path: /dev/shm/...; re-spell it with the prefix separator
                for (k, part) in anchor.split('/').filter(|p| !p.is_empty()).enumerate() {
                    if k > 0 {
                        s.push(ps);
                    }
                    s.push_str(part);
                }
            }
            s.push(ps);
        }
        for (k, &c) in self.comps.iter().enumerate() {
            if k > 0 {
                s.push(SEPS[self.seps[k - 1]]);
            }
            if symbolic && FULL[c] == "<x*251>" {
                s.push_str("<x*251>");
            } else {
                s.push_str(&comp_text(c));
            }
        }
        s
    }
}

fn core_index(k: usize) -> usize {
    FULL.iter().position(|c| *c == CORE[k]).unwrap()
}

/// All names of the bound: every name with 1..=full_n components over FULL plus, when
/// `core_n > full_n`, every name with full_n+1..=core_n components over CORE; each with every
/// prefix.  Ordered simplest first (components, then prefix, then body index).
pub fn enumerate(full_n: usize, core_n: usize) -> Vec<NameSpec> {
    let mut out = vec![];
    for n in 1..=core_n.max(full_n) {
        let alpha: Vec<usize> = if n <= full_n { (0..FULL.len()).collect() } else { (0..CORE.len()).map(core_index).collect() };
        let a = alpha.len() as u64;
        let bodies = a.pow(n as u32) * 2u64.pow(n as u32 - 1);
        for prefix in 0..BASE_PREFIXES {
            for b in 0..bodies {
                let mut x = b;
                let mut comps = Vec::with_capacity(n);
                for _ in 0..n {
                    comps.push(alpha[(x % a) as usize]);
                    x /= a;
                }
                let mut seps = Vec::with_capacity(n - 1);
                for _ in 1..n {
                    seps.push((x % 2) as usize);
                    x /= 2;
                }
                let spec = NameSpec { prefix, lead: vec![], comps, seps };
                // an empty first component is a leading separator: only allowed behind the anchor
                if !spec.rooted() && FULL[spec.comps[0]].is_empty() {
                    continue;
                }
                out.push(spec);
            }
        }
    }
    out
}

/// Descend-then-climb names: k components over {`..`, `a`} followed by `B.txt`, at most 4 `..`,
/// one separator style per name, no prefix.  They reach the names whose `..` only become an
/// escape *after* normal components (`a\..\..\B.txt`), beyond the length bound of `enumerate`.
pub fn climbers(min_k: usize, max_k: usize) -> Vec<NameSpec> {
    let dd = FULL.iter().position(|c| *c == "..").unwrap();
    let a = FULL.iter().position(|c| *c == "a").unwrap();
    let leaf = FULL.iter().position(|c| *c == "B.txt").unwrap();
    let mut out = vec![];
    for k in min_k..=max_k {
        for bits in 0..(1u32 << k) {
            let mut comps: Vec<usize> = (0..k).map(|j| if bits >> j & 1 == 1 { dd } else { a }).collect();
            if comps.iter().filter(|&&c| c == dd).count() > 4 {
                continue;
            }
            comps.push(leaf);
            for sep in 0..SEPS.len() {
                out.push(NameSpec { prefix: 0, lead: vec![], comps: comps.clone(), seps: vec![sep; k] });
            }
        }
    }
    out
}

/// Bound of the leading-separator-run names.
#[derive(Clone, Copy, Debug)]
pub struct RunBound {
    /// bodies of 1..=full_n components over FULL
    pub full_n: usize,
    /// bodies of full_n+1..=core_n components over CORE
    pub core_n: usize,
    /// the `C:` + run prefix is enumerated for bodies of at most this many components
    pub drive_n: usize,
    /// separators inside the body: every combination (true) or all equal to the last separator of the run (false)
    pub free_gaps: bool,
}

/// every leading run: length 2 then 3, every mix of the two separators (4 + 8 = 12)
pub fn runs() -> Vec<Vec<usize>> {
    let mut out = vec![];
    for &len in RUN_LENS.iter() {
        for bits in 0..(1usize << len) {
            out.push((0..len).map(|j| bits >> j & 1).collect());
        }
    }
    out
}

/// Names that start with a run of 2 or 3 separators (every mix), optionally behind `C:`, followed by
/// the anchor (absolute inside the jail) and a body.  Ordered simplest first: components, then
/// drive, then run (length, mix), then body.
pub fn lead_runs(b: RunBound) -> Vec<NameSpec> {
    let mut out = vec![];
    for n in 1..=b.core_n.max(b.full_n) {
        let alpha: Vec<usize> = if n <= b.full_n { (0..FULL.len()).collect() } else { (0..CORE.len()).map(core_index).collect() };
        let a = alpha.len() as u64;
        let gaps = if b.free_gaps { 2u64.pow(n as u32 - 1) } else { 1 };
        let bodies = a.pow(n as u32) * gaps;
        for prefix in [P_RUN, P_DRIVE_RUN] {
            if prefix == P_DRIVE_RUN && n > b.drive_n {
                continue;
            }
            for run in runs() {
                for body in 0..bodies {
                    let mut x = body;
                    let mut comps = Vec::with_capacity(n);
                    for _ in 0..n {
                        comps.push(alpha[(x % a) as usize]);
                        x /= a;
                    }
                    let mut seps = Vec::with_capacity(n - 1);
                    for _ in 1..n {
                        if b.free_gaps {
                            seps.push((x % 2) as usize);
                            x /= 2;
                        } else {
                            seps.push(*run.last().unwrap());
                        }
                    }
                    out.push(NameSpec { prefix, lead: run.clone(), comps, seps });
                }
            }
        }
    }
    out
}
