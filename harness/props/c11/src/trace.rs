//! Observer (ii): parse an `strace -f -y` log and list every mutating, path-taking system call
//! with its resolved absolute path and its result.

#[derive(Clone, Debug)]
pub struct Mutation {
    pub call: String,
    /// lexically normalised absolute path the call acted on
    pub path: String,
    pub ok: bool,
    /// errno name when !ok (e.g. EACCES)
    pub errno: String,
}

/// The system calls handed to strace (`?` = do not fail if the architecture lacks the call).
pub const TRACE_SET: &str = "?open,?openat,?openat2,?creat,?mkdir,?mkdirat,?mknod,?mknodat,?unlink,?unlinkat,?rmdir,\
?rename,?renameat,?renameat2,?link,?linkat,?symlink,?symlinkat,?truncate,?ftruncate,?chmod,?fchmod,?fchmodat,\
?chown,?lchown,?fchown,?fchownat,?utime,?utimes,?futimesat,?utimensat,?setxattr,?lsetxattr,?fsetxattr,\
?removexattr,?lremovexattr,?fremovexattr,?chdir,?fchdir,?chroot,?mount,?pivot_root";

/// decode a C-style escaped string body (no surrounding quotes) into bytes
fn unescape(s: &str) -> Vec<u8> {
    let b = s.as_bytes();
    let mut out = Vec::with_capacity(b.len());
    let mut i = 0;
    while i < b.len() {
        if b[i] != b'\\' || i + 1 >= b.len() {
            out.push(b[i]);
            i += 1;
            continue;
        }
        let c = b[i + 1];
        match c {
            b'n' => { out.push(b'\n'); i += 2; }
            b't' => { out.push(b'\t'); i += 2; }
            b'r' => { out.push(b'\r'); i += 2; }
            b'v' => { out.push(0x0b); i += 2; }
            b'f' => { out.push(0x0c); i += 2; }
            b'a' => { out.push(0x07); i += 2; }
            b'b' => { out.push(0x08); i += 2; }
            b'e' => { out.push(0x1b); i += 2; }
            b'x' => {
                let mut v = 0u32;
                let mut j = i + 2;
                let mut n = 0;
                while j < b.len() && n < 2 && (b[j] as char).is_ascii_hexdigit() {
                    v = v * 16 + (b[j] as char).to_digit(16).unwrap();
                    j += 1;
                    n += 1;
                }
                out.push(v as u8);
                i = j;
            }
            b'0'..=b'7' => {
                let mut v = 0u32;
                let mut j = i + 1;
                let mut n = 0;
                while j < b.len() && n < 3 && (b'0'..=b'7').contains(&b[j]) {
                    v = v * 8 + (b[j] - b'0') as u32;
                    j += 1;
                    n += 1;
                }
                out.push(v as u8);
                i = j;
            }
            other => { out.push(other); i += 2; }
        }
    }
    out
}

fn to_string(bytes: Vec<u8>) -> String {
    String::from_utf8_lossy(&bytes).into_owned()
}

/// split the argument list at top-level commas (quotes, brackets and braces respected)
fn split_args(s: &str) -> Vec<String> {
    let mut out = vec![];
    let mut cur = String::new();
    let mut depth = 0i32;
    let mut in_q = false;
    let mut in_angle = false; // inside fd decoration <...>
    let mut chars = s.chars().peekable();
    while let Some(c) = chars.next() {
        if in_q {
            cur.push(c);
            if c == '\\' {
                if let Some(n) = chars.next() {
                    cur.push(n);
                }
            } else if c == '"' {
                in_q = false;
            }
            continue;
        }
        if in_angle {
            cur.push(c);
            if c == '\\' {
                if let Some(n) = chars.next() {
                    cur.push(n);
                }
            } else if c == '>' {
                in_angle = false;
            }
            continue;
        }
        match c {
            '"' => { in_q = true; cur.push(c); }
            '<' => { in_angle = true; cur.push(c); }
            '(' | '[' | '{' => { depth += 1; cur.push(c); }
            ')' | ']' | '}' => { depth -= 1; cur.push(c); }
            ',' if depth == 0 => { out.push(cur.trim().to_string()); cur.clear(); }
            _ => cur.push(c),
        }
    }
    if !cur.trim().is_empty() {
        out.push(cur.trim().to_string());
    }
    out
}

/// "…"  -> decoded string; None if the argument is not a complete string literal (NULL, address, truncated)
fn str_arg(a: &str) -> Option<String> {
    let a = a.trim();
    if a.len() >= 2 && a.starts_with('"') && a.ends_with('"') {
        Some(to_string(unescape(&a[1..a.len() - 1])))
    } else {
        None
    }
}

/// `AT_FDCWD</path>` / `3</path>` -> the decorated path
fn fd_path(a: &str) -> Option<String> {
    let l = a.find('<')?;
    let r = a.rfind('>')?;
    if r <= l {
        return None;
    }
    let p = to_string(unescape(&a[l + 1..r]));
    Some(p.strip_suffix(" (deleted)").unwrap_or(&p).to_string())
}

/// lexical normalisation of `p` relative to `base` (no symlinks exist in the jail; only calls that
/// succeeded are judged, so every traversed component existed)
pub fn resolve(base: &str, p: &str) -> String {
    let joined = if p.starts_with('/') { p.to_string() } else { format!("{}/{}", base, p) };
    let mut stack: Vec<&str> = vec![];
    for part in joined.split('/') {
        match part {
            "" | "." => {}
            ".." => { stack.pop(); }
            x => stack.push(x),
        }
    }
    format!("/{}", stack.join("/"))
}

fn is_write_open(flags: &str) -> bool {
    ["O_WRONLY", "O_RDWR", "O_CREAT", "O_TRUNC", "O_APPEND", "O_TMPFILE"].iter().any(|f| flags.contains(f))
}

pub struct Parsed {
    pub mutations: Vec<Mutation>,
    pub lines: usize,
    pub unparsed: Vec<String>,
    pub saw_exec: bool,
}

/// Parse the log. `cwd0` is the working directory the traced process started in.
pub fn parse(log: &str, cwd0: &str) -> Parsed {
    use std::collections::HashMap;
    let mut pending: HashMap<String, String> = HashMap::new();
    let mut cwd = cwd0.to_string();
    let mut out = Parsed { mutations: vec![], lines: 0, unparsed: vec![], saw_exec: false };
    for raw in log.lines() {
        out.lines += 1;
        let (pid, rest) = match raw.split_once(' ') {
            Some((p, r)) if p.chars().all(|c| c.is_ascii_digit()) => (p.to_string(), r.trim_start()),
            _ => ("0".to_string(), raw),
        };
        if rest.starts_with("+++") || rest.starts_with("---") {
            continue;
        }
        let line: String;
        if let Some(stripped) = rest.strip_suffix("<unfinished ...>") {
            pending.insert(pid, stripped.to_string());
            continue;
        } else if rest.starts_with("<... ") {
            let Some(pos) = rest.find(" resumed>") else { continue };
            let tail = &rest[pos + " resumed>".len()..];
            let Some(head) = pending.remove(&pid) else { continue };
            line = format!("{}{}", head, tail);
        } else {
            line = rest.to_string();
        }
        let Some(par) = line.find('(') else { continue };
        let name = line[..par].trim().to_string();
        // strace pads short calls: `mkdir("x", 0777)      = 0`
        let Some(eqpos) = line.rfind(" = ") else {
            // exit_group etc. have no result
            continue;
        };
        let head = line[..eqpos].trim_end();
        if !head.ends_with(')') || head.len() - 1 < par + 1 {
            continue;
        }
        let args = split_args(&head[par + 1..head.len() - 1]);
        let result = line[eqpos + 3..].trim();
        let ok = !result.starts_with("-1") && !result.starts_with('?');
        let errno = if ok { String::new() } else { result.split_whitespace().nth(1).unwrap_or("").to_string() };
        let ret_path = if ok { fd_path(result) } else { None };
        let push = |call: &str, path: String, out: &mut Parsed| {
            out.mutations.push(Mutation { call: call.to_string(), path, ok, errno: errno.clone() });
        };
        // resolve (dirfd, path) pairs
        let at = |dirfd: Option<&String>, path: Option<&String>, cwd: &str| -> Option<String> {
            let p = str_arg(path?)?;
            let base = match dirfd {
                Some(d) if d.starts_with("AT_FDCWD") => fd_path(d).unwrap_or_else(|| cwd.to_string()),
                Some(d) => fd_path(d).unwrap_or_else(|| cwd.to_string()),
                None => cwd.to_string(),
            };
            Some(resolve(&base, &p))
        };
        let mut bad = false;
        match name.as_str() {
            "execve" | "execveat" => out.saw_exec = true,
            "open" => {
                if is_write_open(args.get(1).map(|s| s.as_str()).unwrap_or("")) {
                    match ret_path.clone().or_else(|| at(None, args.first(), &cwd)) {
                        Some(p) => push("open", p, &mut out),
                        None => bad = true,
                    }
                }
            }
            "openat" | "openat2" => {
                if is_write_open(args.get(2).map(|s| s.as_str()).unwrap_or("")) {
                    match ret_path.clone().or_else(|| at(args.first(), args.get(1), &cwd)) {
                        Some(p) => push(&name, p, &mut out),
                        None => bad = true,
                    }
                }
            }
            "creat" | "mkdir" | "mknod" | "unlink" | "rmdir" | "truncate" | "chmod" | "chown" | "lchown" | "utime" | "utimes"
            | "setxattr" | "lsetxattr" | "removexattr" | "lremovexattr" | "chroot" => match at(None, args.first(), &cwd) {
                Some(p) => push(&name, p, &mut out),
                None => bad = true,
            },
            "mkdirat" | "mknodat" | "unlinkat" | "fchmodat" | "fchownat" | "futimesat" | "utimensat" => {
                // utimensat(fd, NULL, ...) acts on the descriptor itself
                if args.get(1).map(|a| a == "NULL").unwrap_or(false) {
                    match args.first().and_then(|d| fd_path(d)) {
                        Some(p) => push(&name, p, &mut out),
                        None => bad = true,
                    }
                } else {
                    match at(args.first(), args.get(1), &cwd) {
                        Some(p) => push(&name, p, &mut out),
                        None => bad = true,
                    }
                }
            }
            "rename" | "link" => {
                for k in 0..2 {
                    if k == 0 && name == "link" {
                        continue;
                    }
                    match at(None, args.get(k), &cwd) {
                        Some(p) => push(&name, p, &mut out),
                        None => bad = true,
                    }
                }
            }
            "renameat" | "renameat2" | "linkat" => {
                for k in 0..2 {
                    if k == 0 && name == "linkat" {
                        continue;
                    }
                    match at(args.get(2 * k), args.get(2 * k + 1), &cwd) {
                        Some(p) => push(&name, p, &mut out),
                        None => bad = true,
                    }
                }
            }
            "symlink" => match at(None, args.get(1), &cwd) {
                Some(p) => push(&name, p, &mut out),
                None => bad = true,
            },
            "symlinkat" => match at(args.get(1), args.get(2), &cwd) {
                Some(p) => push(&name, p, &mut out),
                None => bad = true,
            },
            "mount" | "pivot_root" => match at(None, args.get(1), &cwd) {
                Some(p) => push(&name, p, &mut out),
                None => bad = true,
            },
            "ftruncate" | "fchmod" | "fchown" | "fsetxattr" | "fremovexattr" => match args.first().and_then(|d| fd_path(d)) {
                Some(p) => push(&name, p, &mut out),
                None => bad = true,
            },
            "chdir" => {
                if ok {
                    if let Some(p) = at(None, args.first(), &cwd) {
                        cwd = p;
                    }
                }
            }
            "fchdir" => {
                if ok {
                    if let Some(p) = args.first().and_then(|d| fd_path(d)) {
                        cwd = p;
                    }
                }
            }
            _ => {}
        }
        if bad {
            out.unparsed.push(line.chars().take(300).collect());
        }
    }
    out
}

#[cfg(test)]
mod tests {
    use super::*;
    #[test]
    fn basics() {
        let log = "10 execve(\"/x\", [\"x\"], 0x7 /* 3 vars */) = 0\n\
10 mkdir(\"/j/out/a\", 0777) = 0\n\
11 openat(AT_FDCWD</j/cwd>, \"../out/\\303\\274\", O_WRONLY|O_CREAT|O_TRUNC|O_CLOEXEC, 0666 <unfinished ...>\n\
10 openat(AT_FDCWD</j/cwd>, \"/etc/passwd\", O_RDONLY|O_CLOEXEC) = 3</etc/passwd>\n\
11 <... openat resumed>) = 4</j/out/\\303\\274>\n\
10 mkdir(\"/j/cwd/../../x\", 0777) = -1 EACCES (Permission denied)\n\
10 mkdir(\"../out/../a\", 0777)        = 0\n\
10 unlinkat(AT_FDCWD</j/cwd>, \"../b\", 0) = 0\n\
10 renameat(AT_FDCWD</j/cwd>, \"t\", AT_FDCWD</j/cwd>, \"../c\")     = 0\n";
        let p = parse(log, "/j/cwd");
        assert!(p.saw_exec);
        assert_eq!(p.mutations.len(), 7);
        assert_eq!(p.mutations[3].path, "/j/a");
        assert!(p.mutations[3].ok);
        assert_eq!(p.mutations[4].path, "/j/b");
        assert_eq!(p.mutations[5].path, "/j/cwd/t");
        assert_eq!(p.mutations[6].path, "/j/c");
        assert_eq!(p.mutations[0].path, "/j/out/a");
        assert_eq!(p.mutations[1].path, "/j/out/\u{fc}");
        assert!(p.mutations[1].ok);
        assert_eq!(p.mutations[2].path, "/x");
        assert_eq!(p.mutations[2].errno, "EACCES");
        assert!(p.unparsed.is_empty());
    }
}
