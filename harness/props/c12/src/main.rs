//! C12 — writing an archive is all-or-nothing at the destination path.
//!
//! Fault enumeration on the real write path: a small driver (this binary with `--drv`) performs one
//! write history (ArchiveBuilder::build for V1..V4, with and without a pre-existing destination;
//! MutableArchive::compact) and exits.  The supervisor records the history's file-system calls
//! with strace (twice: the sequences must agree), then re-runs the driver once per (system call,
//! k): killed before the k-th call takes effect (`strace -e inject=<sc>:signal=KILL:when=k`) and
//! with the k-th call failing with ENOSPC / EIO / EACCES; plus short-write caps via an LD_PRELOAD
//! shim.  After every run the destination must hold its previous content (or nothing) or the
//! complete new archive; a driver that reported Err must have left the previous state.
use serde_json::{json, Value};
use std::path::{Path, PathBuf};
use std::process::Command;
use vcore::*;
use wow_mpq::{AddFileOptions, Archive, ArchiveBuilder, FormatVersion, ListfileOption, MutableArchive};

const SYSCALLS: [&str; 33] = [
    "openat", "open", "creat", "write", "pwrite64", "writev", "lseek", "fsync", "fdatasync", "ftruncate", "rename", "renameat", "renameat2", "unlink", "unlinkat", "link", "linkat",
    // data can also reach (or leave) a file without write(): in-kernel copies, and the calls around them
    "copy_file_range", "sendfile", "splice", "fallocate", "truncate", "fchmod", "fchmodat", "chmod", "mkdir", "mkdirat", "symlink", "symlinkat", "read", "pread64", "close", "fstat",
];
const ERRNOS: [&str; 3] = ["ENOSPC", "EIO", "EACCES"];

fn payload(kind: &str) -> Vec<(String, Vec<u8>)> {
    match kind {
        "small" => vec![("a\\one.txt".into(), b"first file".to_vec()), ("b\\two.bin".into(), gen::content("period251", 300, 4096, 1))],
        // many members and a 200 KiB incompressible one: the writer needs many write calls
        "large" => {
            let mut v: Vec<(String, Vec<u8>)> = (0..60).map(|k| (format!("many\\f{k:03}.dat"), gen::content(gen::TEXTURES[k % 4], 100 + 37 * k, 4096, 10 + k as u64))).collect();
            v.push(("big\\blob.bin".into(), gen::content("incompressible", 200 * 1024 + 3, 4096, 9)));
            v
        }
        _ => vec![
            ("a\\one.txt".into(), b"first file".to_vec()),
            ("big\\multi.bin".into(), gen::content("half", 3 * 4096 + 77, 4096, 2)),
            ("big\\raw.bin".into(), gen::content("incompressible", 2 * 4096 + 5, 4096, 3)),
        ],
    }
}
/// members of the archive the command-line tool creates (stored under their file names)
fn cli_payload() -> Vec<(String, Vec<u8>)> {
    vec![("one.txt".into(), b"first file".to_vec()), ("multi.bin".into(), gen::content("half", 3 * 4096 + 77, 4096, 2)), ("raw.bin".into(), gen::content("incompressible", 2 * 4096 + 5, 4096, 3))]
}
fn previous_content() -> Vec<(String, Vec<u8>)> {
    vec![("old\\previous.txt".into(), b"content of the previous archive".to_vec())]
}
fn versions(v: &str) -> FormatVersion {
    match v {
        "V1" => FormatVersion::V1,
        "V2" => FormatVersion::V2,
        "V3" => FormatVersion::V3,
        _ => FormatVersion::V4,
    }
}

/// the driver: performs exactly one write history and reports the library's verdict on stdout
fn driver(args: &[String]) -> ! {
    let res: Result<(), String> = match args[0].as_str() {
        "build" => {
            let (ver, dest, kind) = (&args[1], &args[2], &args[3]);
            let full = args.get(4).map(|s| s == "full").unwrap_or(false);
            let mut b = ArchiveBuilder::new().version(versions(ver)).block_size(3);
            if full {
                // every optional writer stage: generated listfile, full (attributes), sector checksums,
                // compressed tables (V3/V4), an encrypted member
                b = b.listfile_option(ListfileOption::Generate).attributes_option(wow_mpq::AttributesOption::GenerateFull).generate_crcs(true).compress_tables(true);
            }
            for (k, (n, d)) in payload(kind).into_iter().enumerate() {
                b = if full && k == 0 { b.add_file_data_with_encryption(d, &n, 0x02, true, 0) } else { b.add_file_data(d, &n) };
            }
            b.build(dest).map_err(|e| e.to_string())
        }
        "rebuild" => {
            let (src, dest) = (&args[1], &args[2]);
            wow_mpq::rebuild_archive(src, dest, wow_mpq::RebuildOptions::default(), None).map(|_| ()).map_err(|e| e.to_string())
        }
        "cli-create" => {
            // the command-line tool's `mpq create`: inputs were laid out next to the destination by prepare()
            let (ver, dest) = (&args[1], &args[2]);
            let indir = Path::new(dest).parent().unwrap().join("source.mpq.d");
            let cli = std::env::var("VERIF_CLI").unwrap_or_default();
            let mut c = Command::new(&cli);
            c.args(["mpq", "create", dest.as_str(), "--version", &ver.to_lowercase(), "--compression", "zlib", "--with-listfile"]);
            for (n, _) in cli_payload() {
                c.arg("--add").arg(indir.join(&n));
            }
            match c.stdout(std::process::Stdio::null()).stderr(std::process::Stdio::null()).status() {
                Ok(st) if st.success() => Ok(()),
                // the tool died by a signal (an injected kill): nobody reported a verdict
                Ok(st) if st.code().is_none() => std::process::exit(3),
                Ok(st) => Err(format!("tool exit status {st}")),
                Err(e) => Err(format!("cannot start the tool: {e}")),
            }
        }
        "compact" => {
            let dest = &args[1];
            match MutableArchive::open(dest) {
                Ok(mut m) => m.compact().map_err(|e| e.to_string()),
                Err(e) => Err(format!("open: {e}")),
            }
        }
        _ => Err("unknown history".into()),
    };
    match res {
        Ok(()) => println!("RESULT Ok"),
        Err(e) => println!("RESULT Err {e}"),
    }
    std::process::exit(0);
}

#[derive(Clone, Debug)]
struct History {
    label: String,
    drv: Vec<String>,         // driver args with DEST placeholder
    dest_present: bool,
    compact: bool,
    expect_new: Vec<(String, Vec<u8>)>,
    expect_old: Vec<(String, Vec<u8>)>,
}
fn histories(tier: Tier) -> Vec<History> {
    let mut v = vec![];
    let vers: Vec<&str> = tier.pick(vec!["V1", "V4"], vec!["V1", "V2", "V3", "V4"]);
    for ver in vers {
        for present in [true, false] {
            for kind in tier.pick(vec!["small"], vec!["small", "multi"]) {
                if tier == Tier::Quick && !present && ver == "V4" {
                    continue;
                }
                v.push(History {
                    label: format!("build {ver} dest_present={present} payload={kind}"),
                    drv: vec!["build".into(), ver.into(), "DEST".into(), kind.into()],
                    dest_present: present,
                    compact: false,
                    expect_new: payload(kind),
                    expect_old: if present { previous_content() } else { vec![] },
                });
            }
        }
    }
    if tier == Tier::Thorough {
        // every optional writer stage switched on, and a payload that needs many write calls
        for ver in ["V1", "V2", "V3", "V4"] {
            for (kind, opts) in [("multi", "full"), ("large", "plain"), ("large", "full")] {
                if kind == "large" && (ver == "V2" || ver == "V3") {
                    continue;
                }
                for present in [true, false] {
                    v.push(History {
                        label: format!("build {ver} dest_present={present} payload={kind} options={opts}"),
                        drv: vec!["build".into(), ver.into(), "DEST".into(), kind.into(), opts.into()],
                        dest_present: present,
                        compact: false,
                        expect_new: payload(kind),
                        expect_old: if present { previous_content() } else { vec![] },
                    });
                }
            }
        }
    }
    // the command-line tool's create (skipped when the tool is not available: VERIF_CLI unset)
    if std::env::var("VERIF_CLI").map(|p| Path::new(&p).is_file()).unwrap_or(false) {
        for ver in tier.pick(vec!["V1"], vec!["V1", "V4"]) {
            for present in [false, true] {
                v.push(History {
                    label: format!("tool: mpq create {ver} dest_present={present}"),
                    drv: vec!["cli-create".into(), ver.into(), "DEST".into()],
                    dest_present: present,
                    compact: false,
                    expect_new: cli_payload(),
                    expect_old: if present { previous_content() } else { vec![] },
                });
            }
        }
    }
    // rebuild_archive writes its target through the same builder path: target present / absent
    for present in [true, false] {
        if tier == Tier::Quick && !present {
            continue;
        }
        v.push(History {
            label: format!("rebuild V1 source into dest_present={present}"),
            drv: vec!["rebuild".into(), "SRC".into(), "DEST".into()],
            dest_present: present,
            compact: false,
            expect_new: payload("multi"),
            expect_old: if present { previous_content() } else { vec![] },
        });
    }
    // compact: an archive with a removed and a replaced entry; logical content is the same before and after
    let keep = vec![("keep\\k1.txt".to_string(), b"kept one".to_vec()), ("keep\\k2.bin".to_string(), gen::content("period2", 900, 4096, 4))];
    v.push(History { label: "compact V1 (deleted + replaced entries)".into(), drv: vec!["compact".into(), "DEST".into()], dest_present: true, compact: true, expect_new: keep.clone(), expect_old: keep.clone() });
    if tier == Tier::Thorough {
        // a V2 archive, and one whose kept members need many write calls when they are copied
        v.push(History { label: "compact V2 (deleted + replaced entries)".into(), drv: vec!["compact".into(), "DEST".into()], dest_present: true, compact: true, expect_new: keep.clone(), expect_old: keep.clone() });
        let mut big = keep.clone();
        big.extend(payload("large"));
        v.push(History { label: "compact V1 large (deleted + replaced entries, 62 kept members)".into(), drv: vec!["compact".into(), "DEST".into()], dest_present: true, compact: true, expect_new: big.clone(), expect_old: big });
    }
    v
}
/// put the destination into its starting state; returns the bytes it holds (None = absent)
fn prepare(h: &History, dest: &Path) -> Option<Vec<u8>> {
    let _ = std::fs::remove_file(dest);
    if h.drv.iter().any(|a| a == "SRC") {
        let src = dest.parent().unwrap().join("source.mpq");
        if !src.exists() {
            let mut b = ArchiveBuilder::new().version(FormatVersion::V1).block_size(3);
            for (n, d) in &h.expect_new {
                b = b.add_file_data(d.clone(), n);
            }
            b.build(&src).expect("prepare rebuild source");
        }
    }
    if h.drv[0] == "cli-create" {
        let indir = dest.parent().unwrap().join("source.mpq.d");
        std::fs::create_dir_all(&indir).expect("inputs dir");
        for (n, d) in cli_payload() {
            std::fs::write(indir.join(n), d).expect("input file");
        }
    }
    if h.compact {
        let ver = if h.label.contains("V2") { FormatVersion::V2 } else { FormatVersion::V1 };
        let mut b = ArchiveBuilder::new().version(ver).block_size(3).listfile_option(ListfileOption::Generate);
        for (n, d) in &h.expect_old {
            b = b.add_file_data(d.clone(), n);
        }
        b = b.add_file_data(b"to be removed".to_vec(), "gone\\removed.txt").add_file_data(vec![7u8; 2000], "keep\\k1.txt.old");
        b.build(dest).expect("prepare compact archive");
        let mut m = MutableArchive::open(dest).expect("open for prepare");
        m.remove_file("gone\\removed.txt").expect("remove");
        m.remove_file("keep\\k1.txt.old").expect("remove 2");
        m.add_file_data(b"kept one", "keep\\k1.txt", AddFileOptions::new()).expect("replace");
        m.flush().expect("flush");
        drop(m);
        return Some(std::fs::read(dest).unwrap());
    }
    if h.dest_present {
        let mut b = ArchiveBuilder::new().version(FormatVersion::V1);
        for (n, d) in &h.expect_old {
            b = b.add_file_data(d.clone(), n);
        }
        b.build(dest).expect("prepare previous archive");
        return Some(std::fs::read(dest).unwrap());
    }
    None
}
fn holds(dest: &Path, files: &[(String, Vec<u8>)]) -> Result<(), String> {
    let mut a = Archive::open(dest).map_err(|e| format!("does not open: {e}"))?;
    for (n, d) in files {
        match a.read_file(n) {
            Ok(g) if &g == d => {}
            Ok(g) => return Err(format!("{n}: {} bytes, expected {}", g.len(), d.len())),
            Err(e) => return Err(format!("{n}: {e}")),
        }
    }
    Ok(())
}

#[derive(Clone, Debug)]
struct Call {
    name: String,
    nth: usize,       // k-th invocation of this syscall in the process (1-based, what `when=` counts)
    relevant: bool,   // touches the scratch directory
    text: String,
}
/// run the driver under strace (optionally with an injection), return (stdout, calls, exit description)
fn run_traced(exe: &Path, h: &History, dest: &Path, inject: Option<&str>, preload: Option<usize>, log: &Path) -> (String, Vec<Call>, String) {
    let _ = std::fs::remove_file(log);
    let mut c = Command::new("strace");
    c.arg("-f").arg("-y").arg("-o").arg(log).arg("-e").arg(format!("trace={}", SYSCALLS.join(",")));
    if let Some(i) = inject {
        for part in i.split('+') {
            c.arg("-e").arg(format!("inject={part}"));
        }
    }
    c.arg(exe).arg("--drv");
    for a in &h.drv {
        c.arg(if a == "DEST" {
            dest.to_string_lossy().to_string()
        } else if a == "SRC" {
            dest.parent().unwrap().join("source.mpq").to_string_lossy().to_string()
        } else {
            a.clone()
        });
    }
    c.env("TMPDIR", dest.parent().unwrap());
    if let Some(l) = preload {
        c.env("LD_PRELOAD", "/verif/.target/libshortwrite.so").env("VERIF_SHORT_WRITE", l.to_string());
    }
    let out = output_with_timeout(&mut c, 60);
    let (stdout, status) = match out {
        Ok((ok, s)) => (s, if ok { "exit0".to_string() } else { "died".to_string() }),
        Err(e) => (String::new(), e),
    };
    let dir = dest.parent().unwrap().to_string_lossy().to_string();
    let mut calls = vec![];
    let mut counts: std::collections::HashMap<String, usize> = Default::default();
    if let Ok(t) = std::fs::read_to_string(log) {
        for line in t.lines() {
            // "<pid> name(args...) = ret" ; skip resumed/unfinished halves and signals
            let Some((pid, rest)) = line.split_once(' ').map(|x| (x.0, x.1.trim_start())) else { continue };
            let Some(p) = rest.find('(') else { continue };
            let name = &rest[..p];
            if !SYSCALLS.contains(&name) {
                continue;
            }
            // strace counts `when=` per tracee: number the calls per (thread, system call)
            let k = counts.entry(format!("{pid}:{name}")).or_insert(0);
            *k += 1;
            calls.push(Call { name: name.to_string(), nth: *k, relevant: rest.contains(&dir) && !rest.contains("source.mpq"), text: rest.chars().take(160).collect() });
        }
    }
    (stdout, calls, status)
}

struct Faults {
    dir: Scratch,
    exe: PathBuf,
    hist: Vec<History>,
    cases: Vec<(usize, String, String)>, // (history, injection spec or "short:L" or "none", description)
}
impl Faults {
    fn load(arg: &str, tier: Tier) -> Self {
        let v: Value = serde_json::from_str(&std::fs::read_to_string(arg).expect("case table")).unwrap();
        let cases = v["cases"].as_array().unwrap().iter().map(|c| (c[0].as_u64().unwrap() as usize, c[1].as_str().unwrap().to_string(), c[2].as_str().unwrap().to_string())).collect();
        Faults { dir: Scratch::new("c12"), exe: std::env::current_exe().unwrap(), hist: histories(tier), cases }
    }
}
impl Space for Faults {
    fn len(&self) -> u64 {
        self.cases.len() as u64
    }
    fn describe(&self, i: u64) -> Value {
        let (h, inj, d) = &self.cases[i as usize];
        json!({"history": self.hist[*h].label, "fault": inj, "call": d})
    }
    fn case_timeout(&self) -> u64 {
        180
    }
    fn run(&self, i: u64) -> CaseResult {
        let (hi, inj, desc) = &self.cases[i as usize];
        let h = &self.hist[*hi];
        let mut r = CaseResult::new();
        r.key = format!("{i}");
        let work = self.dir.path(&format!("w{i}"));
        let _ = std::fs::remove_dir_all(&work);
        std::fs::create_dir_all(&work).unwrap();
        let dest = work.join("dest.mpq");
        let before = prepare(h, &dest);
        let log = work.join("strace.log");
        let (inject, preload): (Option<&str>, Option<usize>) = if let Some(l) = inj.strip_prefix("short:") {
            (None, Some(l.parse().unwrap()))
        } else if inj == "none" {
            (None, None)
        } else {
            (Some(inj.as_str()), None)
        };
        let (stdout, calls, status) = run_traced(&self.exe, h, &dest, inject, preload, &log);
        let reported_ok = stdout.contains("RESULT Ok");
        let reported_err = stdout.contains("RESULT Err");
        // was the fault actually delivered?  (the targeted call must appear in the log)
        r.nontrivial = inject.is_none() || !calls.is_empty();
        let kind = if inj.contains('+') { "error+kill" } else if inj.contains("signal=KILL") { "kill" } else if inj.contains("error=") { "error" } else if preload.is_some() { "short-write" } else { "none" };
        r.outcome = format!("{kind}:{}{}", status, if reported_ok { ":Ok" } else if reported_err { ":Err" } else { "" });
        // judge the destination
        let now = std::fs::read(&dest).ok();
        let is_old = now == before;
        let is_new = now.is_some() && !is_old && holds(&dest, &h.expect_new).is_ok();
        // compaction keeps the logical content: a destination that is neither byte-identical to the old one nor
        // a complete new archive is a torn state
        let ctx = format!("{} | fault {inj} ({desc}) | driver: {} | dest: {}", h.label, stdout.trim().chars().take(120).collect::<String>(), match &now { None => "absent".to_string(), Some(b) => format!("{} bytes", b.len()) });
        if !is_old && !is_new {
            let what = match (&before, &now) {
                (_, None) => "the destination disappeared",
                (None, Some(_)) => "a partial archive was left under the destination name",
                (Some(_), Some(_)) => "the destination holds neither its previous content nor a complete new archive",
            };
            r.viol(format!("{kind}: {what} ({})", if h.compact { "compact" } else { "build" }), ctx.clone());
        }
        // (for compact the property only demands old-or-complete-new; the reopen after the rename may fail)
        if reported_err && !is_old && !h.compact {
            r.viol(format!("{kind}: the operation returned Err but the destination changed ({})", if h.compact { "compact" } else { "build" }), ctx.clone());
        }
        if reported_ok && !is_new && !(h.compact && is_old) {
            r.viol(format!("{kind}: the operation returned Ok but the destination does not hold the complete new archive ({})", if h.compact { "compact" } else { "build" }), ctx.clone());
        }
        if preload.is_some() || inj == "none" {
            if !reported_ok {
                r.viol(format!("{kind}: a fault-free history (short writes are legal) did not succeed"), ctx.clone());
            }
        }
        // temp litter is tolerated, counted
        let litter = std::fs::read_dir(&work).map(|d| d.filter_map(|e| e.ok()).filter(|e| e.file_name() != "dest.mpq" && e.file_name() != "strace.log" && e.file_name() != "source.mpq" && e.file_name() != "source.mpq.d").count()).unwrap_or(0);
        r.count("leftover_temp_files", litter as u64);
        r.count(&format!("runs_{kind}"), 1);
        let _ = std::fs::remove_dir_all(&work);
        r
    }
}

fn build(name: &str, arg: &str, tier: Tier) -> Box<dyn Space> {
    match name {
        "faults" => Box::new(Faults::load(arg, tier)),
        _ => panic!("space {name}"),
    }
}

fn main() {
    let args: Vec<String> = std::env::args().collect();
    if args.len() > 2 && args[1] == "--drv" {
        driver(&args[2..]);
    }
    let Mode::Supervisor(mut c) = start("C12", "fault_enumeration", build) else { return };
    // 1. record every history twice; the call sequences must agree (determinism)
    let scratch = Scratch::new("c12sup");
    let exe = std::env::current_exe().unwrap();
    let hist = histories(c.tier);
    let mut cases: Vec<Value> = vec![];
    let mut lengths = vec![];
    for (hi, h) in hist.iter().enumerate() {
        let work = scratch.path(&format!("rec{hi}"));
        std::fs::create_dir_all(&work).unwrap();
        let dest = work.join("dest.mpq");
        let mut seqs = vec![];
        for rep in 0..2 {
            prepare(h, &dest);
            let (out, calls, _) = run_traced(&exe, h, &dest, None, None, &work.join(format!("rec{rep}.log")));
            if !out.contains("RESULT Ok") {
                c.machinery_errors.push(format!("fault-free recording of '{}' did not succeed: {out}", h.label));
            }
            seqs.push(calls);
        }
        // only the calls that touch the destination directory must agree: a multi-threaded subject (the
        // command-line tool) interleaves the unrelated calls of its helper threads differently on every run
        let shape = |s: &Vec<Call>| s.iter().filter(|c| c.relevant).map(|c| (c.name.clone(), c.nth)).collect::<Vec<_>>();
        if shape(&seqs[0]) != shape(&seqs[1]) {
            c.machinery_errors.push(format!("history '{}' is not deterministic: two fault-free runs issued different call sequences", h.label));
        }
        let rel: Vec<&Call> = seqs[0].iter().filter(|c| c.relevant).collect();
        lengths.push(json!({"history": h.label, "fs_calls_total": seqs[0].len(), "fs_calls_on_destination_dir": rel.len()}));
        cases.push(json!([hi, "none", "fault-free"]));
        for call in &rel {
            cases.push(json!([hi, format!("{}:signal=KILL:when={}", call.name, call.nth), call.text]));
            for e in ERRNOS {
                if c.tier == Tier::Quick && e != "ENOSPC" && !(call.name.starts_with("rename") || call.name == "openat") {
                    continue;
                }
                cases.push(json!([hi, format!("{}:error={}:when={}", call.name, e, call.nth), call.text]));
            }
        }
        for l in [1usize, 7, 512, 4095] {
            cases.push(json!([hi, format!("short:{l}"), "every write capped"]));
        }
        if c.tier == Tier::Thorough && rel.len() <= 45 {
            for (i, a) in rel.iter().enumerate() {
                for b in rel.iter().skip(i + 1) {
                    if a.name != b.name {
                        cases.push(json!([hi, format!("{}:error=EIO:when={}+{}:signal=KILL:when={}", a.name, a.nth, b.name, b.nth), format!("{} then {}", a.text.chars().take(60).collect::<String>(), b.text.chars().take(60).collect::<String>())]));
                    }
                }
            }
        }
    }
    let table = scratch.path("cases.json");
    std::fs::write(&table, json!({"cases": cases}).to_string()).unwrap();
    c.run_space("faults", &table.to_string_lossy());
    c.extra_cov.insert("history_lengths".into(), json!(lengths));
    c.extra_cov.insert("fault_kinds".into(), json!(["kill before the k-th call", "k-th call fails with ENOSPC/EIO/EACCES", "short writes capped to 1/7/512/4095 bytes"]));
    c.rule = "for every write history (build V1..V4 x destination present/absent x payload; compact) the file-system calls touching the destination directory are recorded with strace (two recordings must agree); one run per (call, fault): process killed before the k-th call of that system call, or the call failing with an errno; plus capped writes. Non-trivial = the targeted call was reached; distinct by (history, fault).".into();
    c.assume("process death and I/O errors are covered, not power loss with reordered unsynced blocks (the code issues no fsync before rename)");
    c.assume("strace is the fault injector and the observer; rename atomicity is the kernel's");
    c.assume("leftover temporary files are tolerated (counted)");
    c.assume("for the rebuild history only calls on the destination side are fault points: an I/O error while READING the source is outside this property (observed: Archive::open tolerates a failing block-table read and the rebuild then copies nothing and returns Ok)");
    c.finish();
}
