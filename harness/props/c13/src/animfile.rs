//! Space "anim": AnimFile (legacy / modern container) write→parse round trip and conversion.
//! /repo/docs does not describe the MAOF container the crate writes, so the oracle here is the
//! differential/idempotence relation only: parse(write(a)) has a's content, write(parse(write(a)))
//! equals write(a), same-format conversion is the identity, cross-format conversion keeps sections.
use crate::{call, cmp, step, Call};
use serde_json::{json, Value};
use std::io::Cursor;
use vcore::*;
use wow_m2::anim::*;
use wow_m2::common::{C3Vector, Quaternion};
use wow_m2::M2Version;

pub struct AnimSpace {
    radices: [u64; 5],
}
impl AnimSpace {
    pub fn new(t: Tier) -> Self {
        // thorough: counts {0, 1, 3, 2, 9} for sections, bones and keys (single digits: the listed
        // known findings of this space match `"keys":\d` / `"sections":\d`)
        AnimSpace { radices: t.pick([2, 3, 3, 8, 3], [2, 5, 5, 8, 5]) }
    }
}
const FORMATS: [&str; 2] = ["legacy", "modern"];
const COUNTS: [usize; 5] = [0, 1, 3, 2, 9];
const KEYS: [usize; 5] = [0, 1, 3, 2, 9];

fn bone(j: usize, mask: u64, keys: usize) -> AnimBoneAnimation {
    let ts: Vec<u32> = (0..keys).map(|k| [0u32, 33, 0xFFFF_FFFF][k % 3]).collect();
    let v = |k: usize| C3Vector { x: crate::gen::f(k + j), y: crate::gen::f(k + 1), z: crate::gen::f(k + 2 + j) };
    AnimBoneAnimation {
        // the container stores nothing for a bone without tracks, so such a bone carries id 0
        bone_id: if mask == 0 { 0 } else { [5u32, 0, 0xFFFF_FFFF][j % 3] },
        translation: if mask & 1 != 0 { Some(AnimTranslation { timestamps: ts.clone(), translations: (0..keys).map(v).collect() }) } else { None },
        rotation: if mask & 2 != 0 {
            Some(AnimRotation { timestamps: ts.clone(), rotations: (0..keys).map(|k| Quaternion { x: crate::gen::f(k), y: crate::gen::f(k + 3), z: crate::gen::f(k + 5), w: 1.0 }).collect() })
        } else {
            None
        },
        scaling: if mask & 4 != 0 { Some(AnimScaling { timestamps: ts.clone(), scalings: (0..keys).map(|k| v(k + 4)).collect() }) } else { None },
    }
}

fn make(d: &[u64]) -> AnimFile {
    let (ns, nb, mask, keys) = (COUNTS[d[1] as usize], COUNTS[d[2] as usize], d[3], KEYS[d[4] as usize]);
    let sections: Vec<AnimSection> = (0..ns)
        .map(|s| AnimSection {
            header: AnimSectionHeader { magic: *b"AFID", id: if s < 3 { [1u32, 60, 0xFFFF_FFFF][s] } else { 100 + s as u32 }, start: [0u32, 100, 7][s % 3], end: [0u32, 3333, 0xFFFF_FFFF][s % 3] },
            // with three or more bones the third one has no tracks (mix of populated and empty slots)
            bone_animations: (0..nb).map(|j| bone(j, if nb >= 3 && j == 2 { 0 } else { mask }, keys)).collect(),
        })
        .collect();
    if d[0] == 1 {
        let entries = sections.iter().map(|s| AnimEntry { id: s.header.id, offset: 0, size: 0 }).collect();
        AnimFile {
            format: AnimFormat::Modern,
            metadata: AnimMetadata::Modern { header: AnimHeader { magic: ANIM_MAGIC, version: 1, id_count: ns as u32, unknown: 0x5A5A_0001, anim_entry_offset: 20 }, entries },
            sections,
        }
    } else {
        AnimFile {
            format: AnimFormat::Legacy,
            metadata: AnimMetadata::Legacy { file_size: 0, animation_count: ns as u32, structure_hints: LegacyStructureHints { appears_valid: true, estimated_blocks: ns as u32, has_timestamps: false } },
            sections,
        }
    }
}

fn awrite(a: &AnimFile) -> Call<Vec<u8>> {
    call(|| {
        let mut c = Cursor::new(Vec::new());
        a.write(&mut c).map_err(|e| e.to_string())?;
        Ok(c.into_inner())
    })
}
fn aparse(b: &[u8]) -> Call<AnimFile> {
    call(|| AnimFile::parse(&mut Cursor::new(b)).map_err(|e| e.to_string()))
}

fn content(a: &AnimFile) -> Vec<(&'static str, String)> {
    let meta = match &a.metadata {
        AnimMetadata::Modern { header, entries } => {
            format!("modern version {} id_count {} unknown {} ids {:?}", header.version, header.id_count, header.unknown, entries.iter().map(|e| e.id).collect::<Vec<_>>())
        }
        AnimMetadata::Legacy { .. } => "legacy".to_string(),
    };
    vec![("format", format!("{:?}", a.format)), ("metadata", meta), ("section count", format!("{}", a.sections.len())), ("sections", format!("{:?}", a.sections))]
}

fn diff(r: &mut CaseResult, what: &str, a: &[(&'static str, String)], b: &[(&'static str, String)], only_sections: bool) {
    for ((s, x), (_, y)) in a.iter().zip(b.iter()) {
        if only_sections && !s.starts_with("section") {
            continue;
        }
        if x != y {
            r.viol(format!("{what}: {s}"), cmp::first_diff(x, y));
            if *s == "section count" {
                break;
            }
        }
    }
}

impl Space for AnimSpace {
    fn len(&self) -> u64 {
        self.radices.iter().product()
    }
    fn describe(&self, i: u64) -> Value {
        let d = vcore::gen::mixed_radix(i, &self.radices);
        json!({"space": "anim", "format": FORMATS[d[0] as usize], "sections": COUNTS[d[1] as usize], "bones_per_section": COUNTS[d[2] as usize],
               "tracks": format!("{}{}{}", if d[3] & 1 != 0 { "T" } else { "-" }, if d[3] & 2 != 0 { "R" } else { "-" }, if d[3] & 4 != 0 { "S" } else { "-" }), "keys": KEYS[d[4] as usize]})
    }
    fn run(&self, i: u64) -> CaseResult {
        let d = vcore::gen::mixed_radix(i, &self.radices);
        let mut r = CaseResult::new();
        r.key = format!("anim/{:?}", d);
        r.nontrivial = d[1] != 0;
        let a = make(&d);
        let w1o = roundtrip(&mut r, &a, "");
        // conversion: WotLK keeps/gets the legacy container, Legion the modern one
        if r.viols.is_empty() {
            for (tn, tv, tf) in [("WotLK", M2Version::WotLK, 0u64), ("Legion", M2Version::Legion, 1u64)] {
                let fmt = FORMATS[d[0] as usize];
                let mut t = CaseResult::new();
                (|t: &mut CaseResult| {
                    let c = step!(t, call(|| Ok(a.convert(tv))), format!("{fmt} anim: convert"), false);
                    if tf == d[0] {
                        let wc = step!(t, awrite(&c), format!("{fmt} anim container: write(convert(a, same format))"), false);
                        if let Some(w1) = &w1o {
                            if *w1 != wc {
                                t.viol(format!("{fmt} anim container: conversion to the same container format changes the written bytes"), "");
                            }
                        }
                        return;
                    }
                    if format!("{:?}", c.format).to_lowercase() != FORMATS[tf as usize] {
                        t.viol(format!("{fmt} anim: converted file has the wrong container format"), format!("{:?}", c.format));
                        return;
                    }
                    let n0 = t.viols.len();
                    diff(t, &format!("{fmt} anim: conversion loses content"), &content(&a), &content(&c), true);
                    if t.viols.len() != n0 {
                        return;
                    }
                    // the converted object must itself survive write→parse in its container
                    roundtrip(t, &c, "converted: ");
                })(&mut t);
                for v in t.viols {
                    r.viol(v.symptom, format!("to {tn}: {}", v.detail));
                }
                r.count("conversions", 1);
            }
        }
        r.outcome = if r.viols.is_empty() { "held".into() } else { format!("{}viol", r.outcome) };
        r
    }
}

/// write→parse→write of one AnimFile; symptoms are named after the container of the file
fn roundtrip(r: &mut CaseResult, a: &AnimFile, tag: &str) -> Option<Vec<u8>> {
    let fmt = if a.format == AnimFormat::Modern { "modern" } else { "legacy" };
    let mut out = None;
    (|r: &mut CaseResult| {
        let w1 = step!(r, awrite(a), format!("{fmt} anim container: {tag}write(a)"), true);
        r.count("writes", 1);
        out = Some(w1.clone());
        let parsed = aparse(&w1);
        if fmt == "legacy" {
            // one class for the legacy container: whatever form the loss takes (refusal of a short
            // file, a placeholder section, missing bones) the written sections do not come back
            let lost = match &parsed {
                Call::Ok(p) => content(p) != content(a),
                Call::Err(_) => true,
                Call::Panic(..) => false,
            };
            if lost {
                let how = match &parsed {
                    Call::Ok(p) => format!("wrote {} section(s), read back {} with {} bone animation(s)", a.sections.len(), p.sections.len(), p.sections.iter().map(|s| s.bone_animations.len()).sum::<usize>()),
                    Call::Err(e) => format!("Err: {e} ({}-byte file)", w1.len()),
                    _ => String::new(),
                };
                r.viol(format!("legacy anim container: {tag}parse(write(a)) does not give back the sections that were written"), how);
                return;
            }
        }
        let p1 = step!(r, parsed, format!("{fmt} anim container: {tag}parse(write(a))"), false);
        r.count("parses", 1);
        let n0 = r.viols.len();
        diff(r, &format!("{fmt} anim container: {tag}parse(write(a)) differs from a"), &content(a), &content(&p1), false);
        if r.viols.len() != n0 {
            return;
        }
        let w2 = step!(r, awrite(&p1), format!("{fmt} anim container: {tag}write(parse(write(a)))"), false);
        if w2 != w1 {
            r.viol(format!("{fmt} anim container: {tag}write(parse(write(a))) is not byte-identical to write(a)"), format!("lengths {} vs {}", w1.len(), w2.len()));
        }
    })(r);
    out
}
