//! Thorough-only spaces that start from states reached by earlier operations:
//! * "seedchain": a parsed key-frame seed converted A → B → C (all 125 triples): the key frames
//!   that every version of the chain can store must be in write(convert(convert(p, B), C)).
//! * "edit": load–edit–save. A parsed key-frame seed whose static sections (name, sequences,
//!   vertices, textures, materials, lookups, bounding data, header scalars) are then replaced
//!   through the object API by generated content, written, decoded independently (static fields
//!   against the object, key frames against the seed), parsed and written again.
use crate::emit::{self, Seed, RANGES, TIMES};
use crate::{byte_diff, call, cmp, diff_sections, expect_counts, gen, indep, keyframes_vs_seed, keyframes_vs_seed_via, m2_parse, m2_write, report_indep, seed_expect, share, step, walk, Call, MCase, Unjudged};
use serde_json::{json, Value};
use vcore::*;
use wow_m2::M2Model;

pub const SEED_KINDS: [&str; 5] = ["sparse_plain", "sparse_shared_timestamps", "sparse_keyless_tracks_with_header", "dense", "dense_every_value_shares_ranges_and_timestamps"];

fn chain_seed(kind: usize, vnum: u32, secs: &[&'static str], n: usize, k: usize) -> Seed {
    match kind {
        0..=2 => emit::make_seed(vnum, secs, n, k, kind),
        3 => share::make(vnum, &[], secs, n, k, 0, &[], 0).0,
        _ => share::make(vnum, secs, &[], n, k, 7, &[RANGES, TIMES], 0).0,
    }
}

fn section_sets() -> Vec<(Vec<&'static str>, String)> {
    let singles: Vec<&'static str> = share::SECTIONS[..10].to_vec();
    let mut v: Vec<(Vec<&'static str>, String)> = singles.iter().map(|s| (vec![*s], s.to_string())).collect();
    v.push((singles, "all_sections".into()));
    v
}

pub struct SeedChainSpace {
    sets: Vec<(Vec<&'static str>, String)>,
}
impl SeedChainSpace {
    pub fn new() -> Self {
        SeedChainSpace { sets: section_sets() }
    }
    fn radices(&self) -> [u64; 6] {
        [5, 5, 5, 2, SEED_KINDS.len() as u64, self.sets.len() as u64]
    }
}
const NK: [(usize, usize); 2] = [(1, 1), (3, 3)];

impl Space for SeedChainSpace {
    fn len(&self) -> u64 {
        self.radices().iter().product()
    }
    fn describe(&self, i: u64) -> Value {
        let d = vcore::gen::mixed_radix(i, &self.radices());
        json!({"space": "seedchain", "to": gen::VERSIONS[d[0] as usize].0, "via": gen::VERSIONS[d[1] as usize].0, "from": gen::VERSIONS[d[2] as usize].0,
               "records": NK[d[3] as usize].0, "keys": NK[d[3] as usize].1, "seed": SEED_KINDS[d[4] as usize], "sections": self.sets[d[5] as usize].1})
    }
    fn run(&self, i: u64) -> CaseResult {
        let d = vcore::gen::mixed_radix(i, &self.radices());
        let (to, via, from) = (gen::VERSIONS[d[0] as usize].1, gen::VERSIONS[d[1] as usize].1, gen::VERSIONS[d[2] as usize].1);
        let (n, k) = NK[d[3] as usize];
        let seed = chain_seed(d[4] as usize, from.to_header_version(), &self.sets[d[5] as usize].0, n, k);
        let mut r = CaseResult::new();
        r.key = format!("seedchain/{:?}", d);
        r.nontrivial = true;
        (|r: &mut CaseResult| {
            let s = emit::emit(&seed);
            let p0 = step!(r, m2_parse(&s), "parse(seed)", false);
            // what the plain round trip already loses is reported by the seed space, not here
            let lost = {
                let mut t = CaseResult::new();
                let mut lost = Unjudged::default();
                (|t: &mut CaseResult| {
                    let w1 = step!(t, m2_write(&p0), "write(parse(seed))", true);
                    let Some((h1, _)) = walk(t, &w1, "write(parse(seed))", &seed_expect(&seed)) else { return };
                    lost = keyframes_vs_seed(t, "plain", &w1, &h1, &seed, seed.version, &Unjudged::default());
                })(&mut t);
                lost
            };
            let c1 = step!(r, call(|| p0.convert(via).map_err(|e| e.to_string())), "convert(parse(seed), via)", true);
            let c2 = step!(r, call(|| c1.convert(to).map_err(|e| e.to_string())), "convert(convert(parse(seed), via), to)", true);
            r.count("conversions", 2);
            let b = to.to_header_version();
            if c2.header.version != b {
                r.viol("chained conversion: converted model does not carry the target header version", format!("wanted {b} got {}", c2.header.version));
                return;
            }
            let wc = step!(r, m2_write(&c2), "write(convert(convert(parse(seed), via), to))", true);
            r.count("writes", 1);
            let mut exp = seed_expect(&seed);
            if b > 263 || via.to_header_version() > 263 {
                exp.retain(|(s, _)| *s != "views");
            }
            let n0 = r.viols.len();
            let Some((hc, _)) = walk(r, &wc, "write(convert(convert(parse(seed), via), to))", &exp) else { return };
            if r.viols.len() != n0 {
                return;
            }
            if !keyframes_vs_seed_via(r, "chained conversion loses key frames", &wc, &hc, &seed, seed.version, &lost, &[via.to_header_version()]).comps.is_empty() {
                return;
            }
            let pc = step!(r, m2_parse(&wc), "parse(write(convert(convert(parse(seed), via), to)))", false);
            // the converted-twice object is itself a fixed point of write→parse→write
            let w2 = step!(r, m2_write(&pc), "write(parse(write(convert(convert(parse(seed), via), to))))", false);
            byte_diff(r, "converted seed: second write is not byte-identical to the first", &wc, &w2);
        })(&mut r);
        r.outcome = if r.viols.is_empty() { format!("{}held", r.outcome) } else { format!("{}viol", r.outcome) };
        r
    }
}

// ------------------------------------------------------------------ space "edit"

/// static sites: everything the edit replaces (the animated sections keep the parsed records)
const ANIMATED_SITES: [&str; 10] = ["bones", "particle_emitters", "ribbon_emitters", "texture_animations", "color_animations", "transparency_animations", "events", "attachments", "cameras", "lights"];

pub struct EditSpace {
    models: Vec<MCase>,
    /// (name, version, header number)
    versions: Vec<(&'static str, wow_m2::M2Version, u32)>,
}
impl EditSpace {
    pub fn new() -> Self {
        // deviations only at static sites
        let models = crate::enum_models(2).into_iter().filter(|c| c.devs.iter().all(|(s, _)| !ANIMATED_SITES.contains(&gen::SITES[*s as usize].name))).collect();
        let mut versions: Vec<(&'static str, wow_m2::M2Version, u32)> = gen::VERSIONS.iter().map(|(n, v)| (*n, *v, v.to_header_version())).collect();
        versions.extend(gen::ALT_NUMBERS.iter().map(|(n, v, k)| (*n, *v, *k)));
        EditSpace { models, versions }
    }
    fn radices(&self) -> [u64; 4] {
        [self.versions.len() as u64, 2, 3, self.models.len() as u64]
    }
}
const EDIT_SEEDS: [&str; 3] = ["sparse_plain", "dense", "dense_every_value_shares_ranges_and_timestamps"];

impl Space for EditSpace {
    fn len(&self) -> u64 {
        self.radices().iter().product()
    }
    fn describe(&self, i: u64) -> Value {
        let d = vcore::gen::mixed_radix(i, &self.radices());
        let c = &self.models[d[3] as usize];
        let (dev, _) = crate::describe_model(c);
        json!({"space": "edit", "version": self.versions[d[0] as usize].0, "header_number": self.versions[d[0] as usize].2, "records": NK[d[1] as usize].0, "keys": NK[d[1] as usize].1,
               "seed": EDIT_SEEDS[d[2] as usize], "static_base": (["empty", "full"][c.base as usize]), "static_dev": dev})
    }
    fn run(&self, i: u64) -> CaseResult {
        let d = vcore::gen::mixed_radix(i, &self.radices());
        let (_, ver, vnum) = self.versions[d[0] as usize];
        let (n, k) = NK[d[1] as usize];
        let c = &self.models[d[3] as usize];
        let mut lv = crate::levels_of(c);
        // vertex bone references must stay below the number of (parsed) bones
        lv[gen::site_index("bones")] = if n == 1 { 1 } else { 2 };
        let mut secs: Vec<&'static str> = share::SECTIONS[..10].to_vec();
        if vnum <= 263 {
            secs.push("views");
        }
        let seed = match d[2] {
            0 => emit::make_seed(vnum, &secs, n, k, 0),
            1 => share::make(vnum, &[], &secs[..10], n, k, 0, &[], 0).0,
            _ => share::make(vnum, &secs[..10], &[], n, k, 7, &[RANGES, TIMES], 0).0,
        };
        let mut r = CaseResult::new();
        r.key = format!("edit/{:?}", d);
        r.nontrivial = true;
        (|r: &mut CaseResult| {
            let s = emit::emit(&seed);
            let p0 = step!(r, m2_parse(&s), "parse(seed)", false);
            let st = gen::canon(&gen::build_numbered(ver, vnum, &lv), vnum);
            let mut e = p0.clone();
            e.name = st.name.clone();
            e.global_sequences = st.global_sequences.clone();
            e.animations = st.animations.clone();
            e.animation_lookup = st.animation_lookup.clone();
            e.key_bone_lookup = st.key_bone_lookup.clone();
            e.vertices = st.vertices.clone();
            e.textures = st.textures.clone();
            e.materials = st.materials.clone();
            e.raw_data.bone_lookup_table = st.raw_data.bone_lookup_table.clone();
            e.raw_data.texture_lookup_table = st.raw_data.texture_lookup_table.clone();
            e.raw_data.texture_units = st.raw_data.texture_units.clone();
            e.raw_data.transparency_lookup_table = st.raw_data.transparency_lookup_table.clone();
            e.raw_data.texture_animation_lookup = st.raw_data.texture_animation_lookup.clone();
            e.raw_data.bounding_triangles = st.raw_data.bounding_triangles.clone();
            e.raw_data.bounding_vertices = st.raw_data.bounding_vertices.clone();
            e.raw_data.bounding_normals = st.raw_data.bounding_normals.clone();
            e.raw_data.attachment_lookup_table = st.raw_data.attachment_lookup_table.clone();
            e.raw_data.camera_lookup_table = st.raw_data.camera_lookup_table.clone();
            e.header.flags = st.header.flags;
            e.header.bounding_box_min = st.header.bounding_box_min;
            e.header.bounding_box_max = st.header.bounding_box_max;
            e.header.bounding_sphere_radius = st.header.bounding_sphere_radius;
            e.header.collision_box_min = st.header.collision_box_min;
            e.header.collision_box_max = st.header.collision_box_max;
            e.header.collision_sphere_radius = st.header.collision_sphere_radius;
            if vnum >= 264 {
                e.header.num_skin_profiles = st.header.num_skin_profiles.or(p0.header.num_skin_profiles);
            }
            let w1 = step!(r, m2_write(&e), "write(edited parse(seed))", true);
            r.count("writes", 1);
            r.count("bytes_written", w1.len() as u64);
            let mut expect = expect_counts(&e);
            if vnum <= 263 {
                expect.push(("views", seed.views.len()));
            }
            let n0 = r.viols.len();
            let Some((h1, combos_missing)) = walk(r, &w1, "write(edited parse(seed))", &expect) else { return };
            let base = if combos_missing { 1 } else { 0 };
            if r.viols.len() - base != n0 {
                return;
            }
            // static fields of every record against the object, key frames against the seed
            if !report_indep(r, indep::compare(&w1, &h1, &e, "write(edited parse(seed))", &[])) || r.viols.len() - base != n0 {
                r.outcome.push_str("written_file_malformed;");
                return;
            }
            let lost = keyframes_vs_seed(r, "key frames not preserved by parse→edit→write", &w1, &h1, &seed, vnum, &Unjudged::default());
            if !lost.clean() {
                r.outcome.push_str("keyframes_lost;");
                return;
            }
            let p1 = match m2_parse(&w1) {
                Call::Err(err) if combos_missing => {
                    r.viol("parse(write(edited parse(seed))) returns Err (the file announces texture_combiner_combos without carrying the field)", err);
                    return;
                }
                other => step!(r, other, "parse(write(edited parse(seed)))", false),
            };
            r.count("parses", 1);
            if diff_sections(r, "parse(write(e)) differs from e = edited parse(seed)", &cmp::sections(&e, true), &cmp::sections(&p1, true)) == 0 {
                let w2 = step!(r, m2_write(&p1), "write(parse(write(edited parse(seed))))", false);
                byte_diff(r, "edited seed: second write is not byte-identical to the first", &w1, &w2);
            }
        })(&mut r);
        r.outcome = if r.viols.is_empty() { format!("{}held", r.outcome) } else { format!("{}viol", r.outcome) };
        r
    }
}

// ------------------------------------------------------------------ space "m2chain"

/// Object-API models converted A → B → C with both entry points, starting from the freshly
/// built object or from the object a write→parse of it gives.
pub struct M2ChainSpace {
    models: Vec<MCase>,
}
impl M2ChainSpace {
    pub fn new() -> Self {
        M2ChainSpace { models: crate::enum_models(2) }
    }
    fn radices(&self) -> [u64; 6] {
        [5, 5, 5, 2, 2, self.models.len() as u64]
    }
}
const STATES: [&str; 2] = ["built", "reparsed"];
const ENTRY: [&str; 2] = ["M2Model::convert", "M2Converter::convert"];

impl Space for M2ChainSpace {
    fn len(&self) -> u64 {
        self.radices().iter().product()
    }
    fn describe(&self, i: u64) -> Value {
        let d = vcore::gen::mixed_radix(i, &self.radices());
        let c = &self.models[d[5] as usize];
        let (dev, sites) = crate::describe_model(c);
        json!({"space": "m2chain", "to": gen::VERSIONS[d[0] as usize].0, "via": gen::VERSIONS[d[1] as usize].0, "from": gen::VERSIONS[d[2] as usize].0, "entry": ENTRY[d[3] as usize],
               "source": STATES[d[4] as usize], "base": (["empty", "full"][c.base as usize]), "dev": dev, "sites": sites})
    }
    fn run(&self, i: u64) -> CaseResult {
        let d = vcore::gen::mixed_radix(i, &self.radices());
        let (to, via, from) = (gen::VERSIONS[d[0] as usize].1, gen::VERSIONS[d[1] as usize].1, gen::VERSIONS[d[2] as usize].1);
        let ep = d[3] as usize;
        let c = &self.models[d[5] as usize];
        let lv = crate::levels_of(c);
        let mut r = CaseResult::new();
        r.key = format!("m2chain/{:?}", d);
        r.nontrivial = lv.iter().any(|l| *l != 0);
        (|r: &mut CaseResult| {
            let built = gen::build(from, &lv);
            let (a, v, b) = (from.to_header_version(), via.to_header_version(), to.to_header_version());
            let src: M2Model = if d[4] == 0 {
                built.clone()
            } else {
                let w = step!(r, m2_write(&built), "write(model)", true);
                step!(r, m2_parse(&w), "parse(write(model))", false)
            };
            let conv = |m: &M2Model, t: wow_m2::M2Version| -> Call<M2Model> {
                if ep == 0 {
                    call(|| m.convert(t).map_err(|e| e.to_string()))
                } else {
                    call(|| wow_m2::M2Converter::new().convert(m, t).map_err(|e| e.to_string()))
                }
            };
            let c1 = step!(r, conv(&src, via), "convert(model, via)", true);
            let c2 = step!(r, conv(&c1, to), "convert(convert(model, via), to)", true);
            r.count("conversions", 2);
            if c2.header.version != b {
                r.viol("chained conversion: converted model does not carry the target header version", format!("{a} -> {v} -> wanted {b} got {}", c2.header.version));
                return;
            }
            let wc = step!(r, m2_write(&c2), "write(convert(convert(model, via), to))", true);
            r.count("writes", 1);
            if a == v && v == b {
                let w1 = step!(r, m2_write(&built), "write(model)", true);
                byte_diff(r, "chained conversion between versions with the same header number changes the written bytes", &w1, &wc);
                return;
            }
            let strip = |m: &mut M2Model| {
                gen::strip_uncommon(m, a, v);
                gen::strip_uncommon(m, v, b);
                gen::strip_uncommon(m, a, b);
            };
            let mut exp = gen::canon(&built, b);
            strip(&mut exp);
            let n0 = r.viols.len();
            let Some((hc, combos_missing)) = walk(r, &wc, "write(convert(convert(model, via), to))", &expect_counts(&exp)) else { return };
            let base = if combos_missing { 1 } else { 0 };
            if hc.version != b {
                r.viol("chained conversion: converted file does not carry the target header version", format!("wanted {b} got {}", hc.version));
            }
            if !report_indep(r, indep::compare(&wc, &hc, &exp, "write(convert(convert(model, via), to))", &["animations", "bones", "cameras"])) || r.viols.len() - base != n0 {
                r.outcome.push_str("written_file_malformed;");
                return;
            }
            let pc = match m2_parse(&wc) {
                Call::Err(err) if combos_missing => {
                    r.viol("parse(write(convert(convert(model, via), to))) returns Err (the file announces texture_combiner_combos without carrying the field)", err);
                    return;
                }
                other => step!(r, other, "parse(write(convert(convert(model, via), to)))", false),
            };
            r.count("parses", 1);
            let w2 = step!(r, m2_write(&pc), "write(parse(write(convert(convert(model, via), to))))", false);
            byte_diff(r, "converted model: second write is not byte-identical to the first", &wc, &w2);
            let mut pcs = pc;
            strip(&mut pcs);
            exp.header.version = b;
            diff_sections(r, "chained conversion loses content representable in every version of the chain", &cmp::sections(&exp, false), &cmp::sections(&pcs, false));
        })(&mut r);
        r.outcome = if r.viols.is_empty() { format!("{}held", r.outcome) } else { format!("{}viol", r.outcome) };
        r
    }
}
