//! Content rendering: per-section `Debug` text with every derived offset normalised away
//! (the library types have no `PartialEq`).
use regex::Regex;
use std::sync::OnceLock;
use wow_m2::M2Model;

fn re_off() -> &'static Regex {
    static R: OnceLock<Regex> = OnceLock::new();
    R.get_or_init(|| Regex::new(r"offset: (Some\()?\d+").unwrap())
}

pub fn norm(s: String) -> String {
    // `offset: 123` and `original_x_offset: Some(123)`: value is derived by the writer
    re_off().replace_all(&s, "offset: ${1}_").into_owned()
}

fn d<T: std::fmt::Debug>(t: &T) -> String {
    norm(format!("{:?}", t))
}

/// (section name, rendering). `keyframes` adds the preserved raw key-frame stores.
pub fn sections(m: &M2Model, keyframes: bool) -> Vec<(&'static str, String)> {
    let h = &m.header;
    let mut v = vec![
        ("name", d(&m.name)),
        ("global_sequences", d(&m.global_sequences)),
        ("animations", d(&m.animations)),
        ("animation_lookup", d(&m.animation_lookup)),
        ("bones", d(&m.bones)),
        ("key_bone_lookup", d(&m.key_bone_lookup)),
        ("vertices", d(&m.vertices)),
        ("textures", d(&m.textures)),
        ("materials", d(&m.materials)),
        ("bone_lookup_table", d(&m.raw_data.bone_lookup_table)),
        ("texture_lookup_table", d(&m.raw_data.texture_lookup_table)),
        ("texture_units", d(&m.raw_data.texture_units)),
        ("transparency_lookup_table", d(&m.raw_data.transparency_lookup_table)),
        ("texture_animation_lookup", d(&m.raw_data.texture_animation_lookup)),
        ("bounding_triangles", d(&m.raw_data.bounding_triangles)),
        ("bounding_vertices", d(&m.raw_data.bounding_vertices)),
        ("bounding_normals", d(&m.raw_data.bounding_normals)),
        ("attachment_lookup_table", d(&m.raw_data.attachment_lookup_table)),
        ("camera_lookup_table", d(&m.raw_data.camera_lookup_table)),
        ("particle_emitters", d(&m.particle_emitters)),
        ("ribbon_emitters", d(&m.ribbon_emitters)),
        ("texture_animations", d(&m.texture_animations)),
        ("color_animations", d(&m.color_animations)),
        ("transparency_animations", d(&m.transparency_animations)),
        ("events", d(&m.events)),
        ("attachments", d(&m.attachments)),
        ("cameras", d(&m.cameras)),
        ("lights", d(&m.lights)),
        (
            "header_scalars",
            format!(
                "version {} flags {:#x} bbox {:?} {:?} {:?} cbox {:?} {:?} {:?} skins {:?}",
                h.version,
                h.flags.bits(),
                h.bounding_box_min,
                h.bounding_box_max,
                h.bounding_sphere_radius,
                h.collision_box_min,
                h.collision_box_max,
                h.collision_sphere_radius,
                h.num_skin_profiles
            ),
        ),
    ];
    if keyframes {
        let r = &m.raw_data;
        v.push(("keyframes:bones", d(&r.bone_animation_data)));
        v.push(("keyframes:particle_emitters", d(&r.particle_animation_data)));
        v.push(("keyframes:ribbon_emitters", d(&r.ribbon_animation_data)));
        v.push(("keyframes:texture_animations", d(&r.texture_animation_data)));
        v.push(("keyframes:color_animations", d(&r.color_animation_data)));
        v.push(("keyframes:transparency_animations", d(&r.transparency_animation_data)));
        v.push(("keyframes:events", d(&r.event_data)));
        v.push(("keyframes:attachments", d(&r.attachment_animation_data)));
        v.push(("keyframes:cameras", d(&r.camera_animation_data)));
        v.push(("keyframes:lights", d(&r.light_animation_data)));
        let sk: Vec<String> = r
            .embedded_skins
            .iter()
            .map(|s| {
                format!(
                    "idx {:?} tri {:?} prop {:?} sub {:?} bat {:?} bcm {:?}",
                    s.indices,
                    s.triangles,
                    s.properties,
                    s.submeshes,
                    s.batches,
                    s.model_view.get(40..44)
                )
            })
            .collect();
        v.push(("embedded_skins", format!("{:?}", sk)));
    }
    v
}

/// first difference of two renderings, shortened for the detail string
pub fn first_diff(a: &str, b: &str) -> String {
    let ab = a.as_bytes();
    let bb = b.as_bytes();
    let mut i = 0;
    while i < ab.len() && i < bb.len() && ab[i] == bb[i] {
        i += 1;
    }
    let lo = i.saturating_sub(60);
    let cut = |s: &str| {
        let mut lo2 = lo.min(s.len());
        while !s.is_char_boundary(lo2) {
            lo2 -= 1;
        }
        let mut hi = (i + 80).min(s.len());
        while !s.is_char_boundary(hi) {
            hi += 1;
        }
        s[lo2..hi].to_string()
    };
    format!("at char {}: expected …{}… got …{}…", i, cut(a), cut(b))
}
